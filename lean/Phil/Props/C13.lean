/-
  C13 — Includes behave as textual inlining; every include cycle is detected.
    "The same file may be included any number of times along different branches; any chain of
     includes that returns to a file already being expanded raises 'Include dependency cycle'
     instead of recursing without bound; relative names are resolved against the directory of the
     including file."

  Model: Phil/Include.lean (`expandFile` = parse(file_name=…, process_includes=True,
  include_stack=…), `processIncludes` = scope.process_includes, `expand` = the top-level call) over
  an abstract file system.  Property theorems only; lemmas and the auxiliary definitions
  (`includeHere`, `NoInclude`, `resetTmpl`, `AllTmplZero`, `includeTarget`, `includeTargets`,
  `Includes`, `IncWalk`, `ParseFuelOK`, `ParseNoCycleErr`, `FS.keys`, `FS.numFiles`, `plainComp`)
  are in Phil/Proofs/IncludeLemmas.lean.  All statements hold for every file system, stack, fuel and
  object list (no size bound).

  Two hypotheses refer to the *parser* rather than to include processing, because `parseObjs` is a
  fuel-driven model of its own and has its own error sites:
    * `ParseFuelOK fs`     — no file of `fs` makes `parseObjs` return `outOfFuel`;
    * `ParseNoCycleErr fs` — no file of `fs` makes `parseObjs` return the include-cycle error
                             (the parser has no such error site; not proved here).
-/
import Phil.Proofs.IncludeLemmas
set_option linter.unusedVariables false
namespace Phil.C13
open Phil

/-! ### 1. a file already being expanded is refused -/

/-- **Cycle refusal.**  A readable, parseable file that is already on the include stack is refused
    with the cycle error, whatever it contains and whatever fuel is left (≥ 1). -/
theorem cycle_refused (fs : FS) (fuel : Nat) (path : Path) (stack : List Path) (text : Str)
    (objs : List Obj) (hin : path ∈ stack) (hread : fs.read path = some text)
    (hparse : parseObjs text = .ok objs) :
    expandFile fs (fuel + 1) path stack = .error (.runtime "include_cycle" none) :=
  Phil.cycle_refused fs fuel path stack text objs hin hread hparse

/-- An include statement whose name resolves to the including file itself or to a file further up
    the stack makes the expansion of the including file fail with the cycle error (objects before
    the statement are include-free; anything may follow it). -/
theorem back_edge_is_cycle_error (fs : FS) (f : Nat) (a q : Path) (stack : List Path) (t tq : Str)
    (pre post oq : List Obj) (i : Obj) (n : Str)
    (hr : fs.read a = some t) (hp : parseObjs t = .ok (pre ++ i :: post)) (ha : a ∉ stack)
    (hpre : NoInclude pre = true) (hi : includeTarget i = some n)
    (hq : resolvePath a.dropLast n = q) (hmem : q ∈ stack ++ [a])
    (hrq : fs.read q = some tq) (hpq : parseObjs tq = .ok oq) :
    expandFile fs (f + 2) a stack = .error (.runtime "include_cycle" none) :=
  expandFile_back_edge fs f a q stack t tq pre post oq i n hr hp ha hpre hi hq hmem hrq hpq

/-! ### 2. termination: the fuel `fs.length + 1` is never exhausted -/

/-- **Counting lemma.**  A duplicate-free list all of whose elements lie in `k` has at most as many
    elements as `k` has distinct ones. -/
theorem nodup_subset_length_le_distinct {α : Type} [BEq α] [LawfulBEq α] (l k : List α)
    (hnd : l.Nodup) (hsub : ∀ x ∈ l, x ∈ k) : l.length ≤ k.eraseDups.length :=
  nodup_subset_length_le l k.eraseDups hnd (fun x hx => List.mem_eraseDups.mpr (hsub x hx))

/-- **Fuel adequacy (`expandFile`).**  With a duplicate-free stack of existing files and
    `fuel + |stack| ≥ (number of distinct file names) + 1`, `expandFile` never reports `outOfFuel`.
    (`ParseFuelOK`: the parser's own fuel is a separate matter.) -/
theorem expand_never_out_of_fuel (fs : FS) (hpf : ParseFuelOK fs) (fuel : Nat) (path : Path)
    (stack : List Path) (hnd : stack.Nodup) (hsub : ∀ p ∈ stack, p ∈ fs.map (·.1))
    (hb : fuel + stack.length ≥ (fs.map (·.1)).eraseDups.length + 1) :
    expandFile fs fuel path stack ≠ .error .outOfFuel :=
  expandFile_ne_outOfFuel fs hpf fuel path stack hnd hsub hb

/-- **Fuel adequacy (`processIncludes`).**  The same bound: entering a file costs one unit of fuel
    and pushes one file on the stack, so `fuel + |stack|` is invariant; at `fuel = 0` the stack would
    have to hold more files than exist. -/
theorem processIncludes_never_out_of_fuel (fs : FS) (hpf : ParseFuelOK fs) (fuel : Nat)
    (refdir : Path) (stack : List Path) (objs : List Obj) (hnd : stack.Nodup)
    (hsub : ∀ p ∈ stack, p ∈ fs.map (·.1))
    (hb : fuel + stack.length ≥ (fs.map (·.1)).eraseDups.length + 1) :
    processIncludes fs fuel refdir stack objs ≠ .error .outOfFuel :=
  processIncludes_ne_outOfFuel fs hpf fuel refdir stack objs hnd hsub hb

/-- **Totality of `expand`.**  For every file system (duplicate keys allowed) and every root, the
    include recursion ends within the fuel `fs.length + 1` that `expand` provides. -/
theorem expand_total (fs : FS) (hpf : ParseFuelOK fs) (root : Path) :
    expand fs root ≠ .error .outOfFuel :=
  expand_ne_outOfFuel fs hpf root

/-! ### 3. without include statements nothing changes -/

/-- **Identity on include-free lists.**  If no enabled definition named `include` occurs (at top
    level or inside enabled scopes), processing succeeds — for every fuel, reference directory and
    stack — and returns the objects with every enabled scope rebuilt with `tmpl = 0`. -/
theorem no_include_identity (fs : FS) (fuel : Nat) (refdir : Path) (stack : List Path)
    (objs : List Obj) (h : NoInclude objs = true) :
    processIncludes fs fuel refdir stack objs = .ok (resetTmpl objs) :=
  Phil.no_include_identity fs fuel refdir stack objs h

/-- … and exactly the given objects when the enabled scopes already have `tmpl = 0` (parser output). -/
theorem no_include_identity_tmpl0 (fs : FS) (fuel : Nat) (refdir : Path) (stack : List Path)
    (objs : List Obj) (hn : NoInclude objs = true) (hz : AllTmplZero objs = true) :
    processIncludes fs fuel refdir stack objs = .ok objs :=
  no_include_identity' fs fuel refdir stack objs hn hz

/-! ### textual inlining -/

/-- **Inlining law.**  In a file `a` (not yet being expanded) whose text parses to include-free
    objects `pre`, an include statement `i` with file name `n`, and further objects `post`, the
    statement is replaced by the expansion of `resolvePath (directory of a) n`, performed with `a`
    pushed on the stack; errors of that expansion propagate. -/
theorem include_inlines (fs : FS) (f : Nat) (a : Path) (stack : List Path) (t : Str)
    (pre post : List Obj) (i : Obj) (n : Str)
    (hr : fs.read a = some t) (hp : parseObjs t = .ok (pre ++ i :: post)) (ha : a ∉ stack)
    (hpre : NoInclude pre = true) (hi : includeTarget i = some n) :
    expandFile fs (f + 1) a stack =
      match expandFile fs f (resolvePath a.dropLast n) (stack ++ [a]) with
      | .error e => .error e
      | .ok l => (processIncludes fs f a.dropLast (stack ++ [a]) post).map
                    (fun r => resetTmpl pre ++ (l ++ r)) :=
  expandFile_split fs f a stack t pre post i n hr hp ha hpre hi

/-- processing is compositional over concatenation of object lists -/
theorem processIncludes_append (fs : FS) (fuel : Nat) (refdir : Path) (stack : List Path)
    (a b : List Obj) :
    processIncludes fs fuel refdir stack (a ++ b) =
      match processIncludes fs fuel refdir stack a with
      | .error e => .error e
      | .ok l => (processIncludes fs fuel refdir stack b).map (fun r => l ++ r) :=
  Phil.processIncludes_append fs fuel refdir stack a b

/-! ### 4. the diamond -/

/-- **Diamond.**  A root whose text consists of two include statements naming the same include-free
    leaf file expands to the leaf's objects twice; no cycle error. -/
theorem diamond_ok (fs : FS) (r l : Path) (tr tl : Str) (i1 i2 : Obj) (n1 n2 : Str)
    (objsL : List Obj)
    (hr : fs.read r = some tr) (hpr : parseObjs tr = .ok [i1, i2])
    (h1 : includeTarget i1 = some n1) (h2 : includeTarget i2 = some n2)
    (hn1 : resolvePath r.dropLast n1 = l) (hn2 : resolvePath r.dropLast n2 = l)
    (hl : fs.read l = some tl) (hpl : parseObjs tl = .ok objsL)
    (hni : NoInclude objsL = true) (hne : l ≠ r) :
    expand fs r = .ok (resetTmpl objsL ++ resetTmpl objsL) :=
  Phil.diamond_ok fs r l tr tl i1 i2 n1 n2 objsL hr hpr h1 h2 hn1 hn2 hl hpl hni hne

/-! ### 5. path resolution -/

/-- **Relative names are resolved against the reference directory** (which `expandFile` sets to the
    directory of the including file, see `include_inlines`): a single ordinary component. -/
theorem resolvePath_relative (refdir : Path) (c : Str) (hslash : '/' ∉ c) (h0 : c ≠ [])
    (h1 : c ≠ ".".toList) (h2 : c ≠ "..".toList) :
    resolvePath refdir c = refdir ++ [c] :=
  Phil.resolvePath_relative refdir c hslash h0 h1 h2

/-- … and a name all of whose `/`-separated components are ordinary (not empty, `.` or `..`). -/
theorem resolvePath_relative_components (refdir : Path) (name : Str)
    (h : (splitOn '/' name).all plainComp = true) :
    resolvePath refdir name = refdir ++ splitOn '/' name :=
  resolvePath_relative_gen refdir name h

/-- **A name starting with `/` ignores the reference directory.** -/
theorem resolvePath_absolute (refdir : Path) (rest : Str) :
    resolvePath refdir ('/' :: rest) = normComponents (splitOn '/' rest) [] :=
  Phil.resolvePath_absolute refdir rest

theorem resolvePath_absolute_indep (refdir refdir' : Path) (rest : Str) :
    resolvePath refdir ('/' :: rest) = resolvePath refdir' ('/' :: rest) :=
  Phil.resolvePath_absolute_indep refdir refdir' rest

/-- **`..` pops the last component** (and is dropped at the root, as `normpath` does). -/
theorem normComponents_dotdot (cs : List Str) (acc : Path) :
    normComponents ("..".toList :: cs) acc = normComponents cs acc.dropLast :=
  Phil.normComponents_dotdot cs acc

/-! ### 6. the cycle error and the include graph -/

/-- **Soundness of the cycle error.**  If the expansion of `path` with stack `stack` ends with the
    cycle error, then a chain of include statements leads from `path` to a file `p` that is on its
    own stack `st` at that moment; `st` extends `stack`. -/
theorem cycle_error_sound (fs : FS) (hpc : ParseNoCycleErr fs) (fuel : Nat) (path : Path)
    (stack : List Path)
    (h : expandFile fs fuel path stack = .error (.runtime "include_cycle" none)) :
    ∃ p st, IncWalk fs path stack p st ∧ stack <+: st ∧ p ∈ st := by
  obtain ⟨p, st, hw, hm⟩ := Phil.cycle_error_sound fs hpc fuel path stack h
  exact ⟨p, st, hw, hw.prefix, hm⟩

/-- The same without any hypothesis on the parser: the chain ends at a file on its own stack, or at
    a file whose parser outcome is itself the cycle error. -/
theorem cycle_error_sound_gen (fs : FS) (fuel : Nat) (path : Path) (stack : List Path)
    (h : expandFile fs fuel path stack = .error (.runtime "include_cycle" none)) :
    ∃ p st, IncWalk fs path stack p st ∧ stack <+: st ∧
      (p ∈ st ∨ ∃ t, fs.read p = some t ∧ parseObjs t = .error (.runtime "include_cycle" none)) := by
  obtain ⟨p, st, hw, hm⟩ := Phil.cycle_error_sound_gen fs fuel path stack h
  exact ⟨p, st, hw, hw.prefix, hm⟩

/-- **Every cycle is detected (1).**  If an expansion succeeds, no chain of include statements
    starting from it reaches a file that is on its own stack. -/
theorem ok_no_cycle (fs : FS) (a : Path) (st : List Path) (p : Path) (st' : List Path)
    (hw : IncWalk fs a st p st') (fuel : Nat) (res : List Obj)
    (h : expandFile fs fuel a st = .ok res) : p ∉ st' :=
  Phil.ok_no_cycle fs hw fuel res h

/-- **Every cycle is detected (2).**  If some chain of include statements from the root returns to
    a file of the chain, `expand` ends with an error, and that error is not `outOfFuel`: the
    recursion is cut, it does not run until the fuel is gone.  (The error is the cycle error unless
    an earlier statement fails first, e.g. a missing file — as in the implementation.) -/
theorem cycle_detected (fs : FS) (hpf : ParseFuelOK fs) (root p : Path) (st : List Path)
    (hw : IncWalk fs root [] p st) (hp : p ∈ st) :
    ∃ e, expand fs root = .error e ∧ e ≠ .outOfFuel := by
  obtain ⟨e, he⟩ := Phil.cycle_detected fs root p st hw hp
  refine ⟨e, he, ?_⟩
  intro h
  subst h
  exact expand_total fs hpf root he

/-! ### concrete instances (checked by the kernel) -/

def pA : Path := ["d".toList, "a".toList]
def pB : Path := ["d".toList, "b".toList]

/-- `/d/a` includes itself; `/d/b` is unrelated -/
def fsSelf : FS := [(pA, "x = 1\ninclude file a\n".toList), (pB, "y = 2\n".toList)]

def objX : Obj := .defn { name := "x".toList, id := some 1, line := some 1 } [⟨"1".toList, none, some 1⟩]
def incAt (id line : Nat) (name : String) : Obj :=
  .defn { name := "include".toList, id := some id, line := some line }
    [⟨"file".toList, none, some line⟩, ⟨name.toList, none, some line⟩]

theorem parse_selfA : parseObjs "x = 1\ninclude file a\n".toList = .ok ([objX] ++ incAt 2 2 "a" :: []) := by
  rfl

/-- a self-including file is reported as a cycle -/
example : expand fsSelf pA = .error (.runtime "include_cycle" none) :=
  back_edge_is_cycle_error fsSelf 1 pA pA [] _ _ [objX] [] _ (incAt 2 2 "a") "a".toList
    rfl parse_selfA (by simp) rfl rfl rfl (by simp) rfl parse_selfA

/-- the same through the graph view: `/d/a` includes `/d/a` -/
example : IncWalk fsSelf pA [] pA [pA] ∧ pA ∈ [pA] :=
  ⟨.step ⟨_, _, "a".toList, rfl, parse_selfA, by simp [includeTargets, includeTargetsObj, objX, incAt, includeTarget, containsDollar, lower]; decide, rfl⟩
      (.here _ _), by simp⟩

/-- a two-file cycle `/d/a → /d/b → /d/a` -/
def fsTwo : FS := [(pA, "include file b\n".toList), (pB, "include file ../d/a\n".toList)]

theorem parse_twoA : parseObjs "include file b\n".toList = .ok ([] ++ incAt 1 1 "b" :: []) := by rfl
theorem parse_twoB : parseObjs "include file ../d/a\n".toList = .ok ([] ++ incAt 1 1 "../d/a" :: []) := by rfl

example : expand fsTwo pA = .error (.runtime "include_cycle" none) := by
  have hb : expandFile fsTwo 2 pB ([] ++ [pA]) = .error (.runtime "include_cycle" none) :=
    back_edge_is_cycle_error fsTwo 0 pB pA [pA] _ _ [] [] _ (incAt 1 1 "../d/a") "../d/a".toList
      rfl parse_twoB (by decide) rfl rfl (by decide) (by simp) rfl parse_twoA
  have := include_inlines fsTwo 2 pA [] _ [] [] (incAt 1 1 "b") "b".toList rfl parse_twoA (by simp) rfl rfl
  have hres : resolvePath pA.dropLast "b".toList = pB := by decide
  rw [hres, hb] at this
  exact this

/-- a diamond: `/d/r` includes `/d/l` twice -/
def pR : Path := ["d".toList, "r".toList]
def pL : Path := ["d".toList, "l".toList]
def fsDiamond : FS :=
  [(pR, "include file l\ninclude file ./l\n".toList), (pL, "x = 1\ns { y = 2 }\n".toList)]

def leafObjs : List Obj :=
  [objX,
   .scope { name := "s".toList, id := some 2, line := some 2 }
     [.defn { name := "y".toList, id := some 3, line := some 2 } [⟨"2".toList, none, some 2⟩]]]

example : expand fsDiamond pR = .ok (leafObjs ++ leafObjs) := by
  have h := diamond_ok fsDiamond pR pL _ _ (incAt 1 1 "l") (incAt 2 2 "./l") "l".toList "./l".toList
    leafObjs rfl (by rfl) rfl rfl (by decide) (by decide) rfl (by rfl) rfl (by decide)
  have e : resetTmpl leafObjs = leafObjs := resetTmpl_id leafObjs rfl
  rw [e] at h
  exact h

/-- all three file systems satisfy the parser hypotheses of the theorems above -/
theorem parseFuelOK_fsDiamond : ParseFuelOK fsDiamond := by
  intro pt h
  simp only [fsDiamond, List.mem_cons, List.mem_nil_iff, or_false] at h
  rcases h with h | h <;> subst h
  · have : parseObjs (pR, "include file l\ninclude file ./l\n".toList).2
        = .ok [incAt 1 1 "l", incAt 2 2 "./l"] := by rfl
    rw [this]; simp
  · have : parseObjs (pL, "x = 1\ns { y = 2 }\n".toList).2 = .ok leafObjs := by rfl
    rw [this]; simp

example : expand fsDiamond pR ≠ .error .outOfFuel := expand_total fsDiamond parseFuelOK_fsDiamond pR

/-- the bound of `expand_never_out_of_fuel` is sharp: one file, fuel 1 (= number of files), and the
    file includes something: the model gives up -/
example : expandFile [(pA, "include file b\n".toList)] 1 pA [] = .error .outOfFuel := by
  rw [expandFile_fresh _ 0 pA [] _ _ (by simp) rfl parse_twoA]
  show processIncludes _ 0 _ _ (incAt 1 1 "b" :: []) = _
  rw [processIncludes_cons]
  rfl

/-- names are resolved against the directory of the *including* file: `/d/r` includes `sub/m`, and
    `/d/sub/m` includes `leaf`, which is `/d/sub/leaf` (not `/d/leaf`, which does not exist) -/
def fsNested : FS :=
  [(pR, "include file sub/m\n".toList),
   (["d".toList, "sub".toList, "m".toList], "include file leaf\n".toList),
   (["d".toList, "sub".toList, "leaf".toList], "x = 1\n".toList)]

example : expand fsNested pR = .ok [objX] := by
  have hleaf : expandFile fsNested 2 ["d".toList, "sub".toList, "leaf".toList]
      ([] ++ [pR] ++ [["d".toList, "sub".toList, "m".toList]]) = .ok [objX] := by
    rw [expandFile_fresh _ 1 _ _ _ [objX] (by decide) rfl (by rfl)]
    exact Phil.no_include_identity _ _ _ _ _ rfl
  have hm : expandFile fsNested 3 ["d".toList, "sub".toList, "m".toList] ([] ++ [pR]) = .ok [objX] := by
    have := include_inlines fsNested 2 ["d".toList, "sub".toList, "m".toList] ([] ++ [pR]) _ [] []
      (incAt 1 1 "leaf") "leaf".toList rfl (by rfl) (by decide) rfl rfl
    have hres : resolvePath (["d".toList, "sub".toList, "m".toList] : Path).dropLast "leaf".toList
        = ["d".toList, "sub".toList, "leaf".toList] := by decide
    rw [hres] at this
    rw [this, hleaf, processIncludes_nil]
    rfl
  have := include_inlines fsNested 3 pR [] _ [] [] (incAt 1 1 "sub/m") "sub/m".toList rfl (by rfl)
    (by simp) rfl rfl
  have hres : resolvePath pR.dropLast "sub/m".toList = ["d".toList, "sub".toList, "m".toList] := by decide
  rw [hres] at this
  unfold expand
  show expandFile fsNested 4 pR [] = _
  rw [this, hm, processIncludes_nil]
  rfl

/-- path resolution on concrete names -/
example : resolvePath ["a".toList, "b".toList] "../c/./d//e".toList
    = ["a".toList, "c".toList, "d".toList, "e".toList] := by decide
example : resolvePath ["a".toList, "b".toList] "/c/../../d".toList = ["d".toList] := by decide
example : resolvePath ["a".toList, "b".toList] "x.phil".toList
    = ["a".toList, "b".toList, "x.phil".toList] :=
  resolvePath_relative _ _ (by decide) (by decide) (by decide) (by decide)

end Phil.C13
