/-
  C13 — Includes behave as textual inlining; every include cycle is detected.
    "The same file may be included any number of times along different branches; any chain of
     includes that returns to a file already being expanded raises 'Include dependency cycle'
     instead of recursing without bound; relative names are resolved against the directory of the
     including file.  'include scope' splices the named Python-level scope (optionally one sub-path
     of it) the same way."

  Model: Phil/Include.lean (`expandFile` = parse(file_name=…, process_includes=True,
  include_stack=…), `processIncludes` = scope.process_includes, `expand` = the top-level call) over
  an environment `env : IncEnv`: an abstract file system `env.fs`, the table `env.imports` of the
  importable Python-level scopes (python path ↦ text) and the current directory `env.cwd`.
  Property theorems only; lemmas and the auxiliary definitions (`includeHere`, `includeScope`,
  `selectSub`, `splice`, `NoInclude`, `resetTmpl`, `AllTmplZero`, `includeTarget`, `scopeTarget`,
  `includeTargets`, `scopeTargets`, `ReachFile`, `Includes`, `IncWalk`, `ParseFuelOK`,
  `ImportsParseFuelOK`, `ImportsRanked`, `importsRankedB`, `ParseNoCycleErr`,
  `ImportsParseNoCycleErr`, `FS.keys`, `FS.numFiles`, `plainComp`) are in
  Phil/Proofs/IncludeLemmas.lean.  All statements hold for every environment, stack, fuel and object
  list (no size bound).

  Hypotheses that refer to the *parser* rather than to include processing (`parseObjs` is a
  fuel-driven model of its own and has its own error sites):
    * `ParseFuelOK env.fs` / `ImportsParseFuelOK env.imports` — no file / imported scope makes
      `parseObjs` return `outOfFuel`;
    * `ParseNoCycleErr env.fs` / `ImportsParseNoCycleErr env.imports` — … return the include-cycle
      error (the parser has no such error site; not proved here).
  Hypothesis on the imported scopes, needed for termination only:
    * `ImportsRanked env` — imported scopes refer only to imported scopes of higher rank (there is
      no cycle detection for scopes: Python itself recurses without bound on `a ↦ "include scope a"`,
      and the model answers `outOfFuel`, see the example at the end).
  With `env.imports = []` the statements of the file-only model are recovered (`…_files`).
-/
import Phil.Proofs.IncludeLemmas
set_option linter.unusedVariables false
namespace Phil.C13
open Phil

/-! ### 1. a file already being expanded is refused -/

/-- **Cycle refusal.**  A readable, parseable file that is already on the include stack is refused
    with the cycle error, whatever it contains and whatever fuel is left (≥ 1). -/
theorem cycle_refused (env : IncEnv) (fuel : Nat) (path : Path) (stack : List Path) (text : Str)
    (objs : List Obj) (hin : path ∈ stack) (hread : env.fs.read path = some text)
    (hparse : parseObjs text = .ok objs) :
    expandFile env (fuel + 1) path stack = .error (.runtime "include_cycle" none) :=
  Phil.cycle_refused env fuel path stack text objs hin hread hparse

/-- An include statement whose name resolves to the including file itself or to a file further up
    the stack makes the expansion of the including file fail with the cycle error (objects before
    the statement are include-free; anything may follow it). -/
theorem back_edge_is_cycle_error (env : IncEnv) (f : Nat) (a q : Path) (stack : List Path) (t tq : Str)
    (pre post oq : List Obj) (i : Obj) (n : Str)
    (hr : env.fs.read a = some t) (hp : parseObjs t = .ok (pre ++ i :: post)) (ha : a ∉ stack)
    (hpre : NoInclude pre = true) (hi : includeTarget i = some n)
    (hq : resolvePath a.dropLast n = q) (hmem : q ∈ stack ++ [a])
    (hrq : env.fs.read q = some tq) (hpq : parseObjs tq = .ok oq) :
    expandFile env (f + 2) a stack = .error (.runtime "include_cycle" none) :=
  expandFile_back_edge env f a q stack t tq pre post oq i n hr hp ha hpre hi hq hmem hrq hpq

/-! ### 2. termination: the fuel `(fs.length + 1) * (imports.length + 1) + 1` is never exhausted -/

/-- **Counting lemma.**  A duplicate-free list all of whose elements lie in `k` has at most as many
    elements as `k` has distinct ones. -/
theorem nodup_subset_length_le_distinct {α : Type} [BEq α] [LawfulBEq α] (l k : List α)
    (hnd : l.Nodup) (hsub : ∀ x ∈ l, x ∈ k) : l.length ≤ k.eraseDups.length :=
  nodup_subset_length_le l k.eraseDups hnd (fun x hx => List.mem_eraseDups.mpr (hsub x hx))

/-- **Fuel adequacy (`expandFile`).**  `M = imports.length + 1`.  With a duplicate-free stack of
    existing files and `fuel + |stack| * M ≥ (number of distinct file names) * M + 1`, `expandFile`
    never reports `outOfFuel`: the stack holds distinct files, and between two file pushes a chain
    hops through at most `imports.length` imported scopes because their ranks increase. -/
theorem expand_never_out_of_fuel (env : IncEnv) (hpf : ParseFuelOK env.fs)
    (hpi : ImportsParseFuelOK env.imports) (hrk : ImportsRanked env) (fuel : Nat) (path : Path)
    (stack : List Path) (hnd : stack.Nodup) (hsub : ∀ p ∈ stack, p ∈ env.fs.map (·.1))
    (hb : fuel + stack.length * (env.imports.length + 1)
            ≥ (env.fs.map (·.1)).eraseDups.length * (env.imports.length + 1) + 1) :
    expandFile env fuel path stack ≠ .error .outOfFuel :=
  expandFile_ne_outOfFuel env hpf hpi hrk fuel path stack hnd hsub hb

/-- **Fuel adequacy (`processIncludes`)** on a list whose followed `include scope` statements name
    imports of rank ≥ `k` (`k = 0`: any list, e.g. the objects of a file).  Entering a file costs one
    unit of fuel, pushes one file and resets `k`; entering an imported scope of rank `r` costs one
    unit and raises `k` to `r + 1`: `fuel + |stack| * M + k` never decreases. -/
theorem processIncludes_never_out_of_fuel (env : IncEnv) (hpf : ParseFuelOK env.fs)
    (hpi : ImportsParseFuelOK env.imports) (rank : Str → Nat)
    (hr1 : ∀ p text, env.imported p = some text → rank p < env.imports.length)
    (hr2 : ∀ p text src, env.imported p = some text → parseObjs text = .ok src →
      ∀ q ∈ scopeTargets src, ∀ text', env.imported q = some text' → rank p < rank q)
    (fuel : Nat) (refdir : Path) (stack : List Path) (objs : List Obj) (k : Nat) (hnd : stack.Nodup)
    (hsub : ∀ p ∈ stack, p ∈ env.fs.map (·.1)) (hk : k ≤ env.imports.length)
    (hA : ∀ p ∈ scopeTargets objs, ∀ text, env.imported p = some text → k ≤ rank p)
    (hb : fuel + stack.length * (env.imports.length + 1) + k
            ≥ (env.fs.map (·.1)).eraseDups.length * (env.imports.length + 1) + env.imports.length + 1) :
    processIncludes env fuel refdir stack objs ≠ .error .outOfFuel :=
  processIncludes_ne_outOfFuel env hpf hpi rank hr1 hr2 fuel refdir stack objs k hnd hsub hk hA hb

/-- **Totality of `expand`.**  For every environment whose imported scopes are ranked (duplicate
    keys allowed) and every root, the include recursion ends within the fuel that `expand` provides. -/
theorem expand_total (env : IncEnv) (hpf : ParseFuelOK env.fs) (hpi : ImportsParseFuelOK env.imports)
    (hrk : ImportsRanked env) (root : Path) :
    expand env root ≠ .error .outOfFuel :=
  expand_ne_outOfFuel env hpf hpi hrk root

/-- the position in `env.imports` is a ranking: the decidable check `importsRankedB` suffices -/
theorem importsRanked_of_check (env : IncEnv) (h : importsRankedB env = true) : ImportsRanked env :=
  importsRanked_of_B env h

/-- **File-only case** (no importable scopes): the bound of the file-only model,
    `fuel + |stack| ≥ (number of distinct file names) + 1`, with no hypothesis besides the parser's. -/
theorem expand_never_out_of_fuel_files (env : IncEnv) (hi : env.imports = []) (hpf : ParseFuelOK env.fs)
    (fuel : Nat) (path : Path)
    (stack : List Path) (hnd : stack.Nodup) (hsub : ∀ p ∈ stack, p ∈ env.fs.map (·.1))
    (hb : fuel + stack.length ≥ (env.fs.map (·.1)).eraseDups.length + 1) :
    expandFile env fuel path stack ≠ .error .outOfFuel :=
  expandFile_ne_outOfFuel_files env hi hpf fuel path stack hnd hsub hb

theorem processIncludes_never_out_of_fuel_files (env : IncEnv) (hi : env.imports = [])
    (hpf : ParseFuelOK env.fs) (fuel : Nat)
    (refdir : Path) (stack : List Path) (objs : List Obj) (hnd : stack.Nodup)
    (hsub : ∀ p ∈ stack, p ∈ env.fs.map (·.1))
    (hb : fuel + stack.length ≥ (env.fs.map (·.1)).eraseDups.length + 1) :
    processIncludes env fuel refdir stack objs ≠ .error .outOfFuel :=
  processIncludes_ne_outOfFuel_files env hi hpf fuel refdir stack objs hnd hsub hb

theorem expand_total_files (env : IncEnv) (hi : env.imports = []) (hpf : ParseFuelOK env.fs)
    (root : Path) : expand env root ≠ .error .outOfFuel :=
  expand_ne_outOfFuel_files env hi hpf root

/-! ### 3. without include statements nothing changes -/

/-- **Identity on include-free lists.**  If no enabled definition named `include` occurs (at top
    level or inside enabled scopes), processing succeeds — for every environment, fuel, reference
    directory and stack — and returns the objects with every enabled scope rebuilt with `tmpl = 0`. -/
theorem no_include_identity (env : IncEnv) (fuel : Nat) (refdir : Path) (stack : List Path)
    (objs : List Obj) (h : NoInclude objs = true) :
    processIncludes env fuel refdir stack objs = .ok (resetTmpl objs) :=
  Phil.no_include_identity env fuel refdir stack objs h

/-- … and exactly the given objects when the enabled scopes already have `tmpl = 0` (parser output). -/
theorem no_include_identity_tmpl0 (env : IncEnv) (fuel : Nat) (refdir : Path) (stack : List Path)
    (objs : List Obj) (hn : NoInclude objs = true) (hz : AllTmplZero objs = true) :
    processIncludes env fuel refdir stack objs = .ok objs :=
  no_include_identity' env fuel refdir stack objs hn hz

/-! ### textual inlining -/

/-- **Inlining law.**  In a file `a` (not yet being expanded) whose text parses to include-free
    objects `pre`, an include statement `i` with file name `n`, and further objects `post`, the
    statement is replaced by the expansion of `resolvePath (directory of a) n`, performed with `a`
    pushed on the stack; errors of that expansion propagate. -/
theorem include_inlines (env : IncEnv) (f : Nat) (a : Path) (stack : List Path) (t : Str)
    (pre post : List Obj) (i : Obj) (n : Str)
    (hr : env.fs.read a = some t) (hp : parseObjs t = .ok (pre ++ i :: post)) (ha : a ∉ stack)
    (hpre : NoInclude pre = true) (hi : includeTarget i = some n) :
    expandFile env (f + 1) a stack =
      match expandFile env f (resolvePath a.dropLast n) (stack ++ [a]) with
      | .error e => .error e
      | .ok l => (processIncludes env f a.dropLast (stack ++ [a]) post).map
                    (fun r => resetTmpl pre ++ (l ++ r)) :=
  expandFile_split env f a stack t pre post i n hr hp ha hpre hi

/-- processing is compositional over concatenation of object lists -/
theorem processIncludes_append (env : IncEnv) (fuel : Nat) (refdir : Path) (stack : List Path)
    (a b : List Obj) :
    processIncludes env fuel refdir stack (a ++ b) =
      match processIncludes env fuel refdir stack a with
      | .error e => .error e
      | .ok l => (processIncludes env fuel refdir stack b).map (fun r => l ++ r) :=
  Phil.processIncludes_append env fuel refdir stack a b

/-! ### 4. the diamond -/

/-- **Diamond.**  A root whose text consists of two include statements naming the same include-free
    leaf file expands to the leaf's objects twice; no cycle error. -/
theorem diamond_ok (env : IncEnv) (r l : Path) (tr tl : Str) (i1 i2 : Obj) (n1 n2 : Str)
    (objsL : List Obj)
    (hr : env.fs.read r = some tr) (hpr : parseObjs tr = .ok [i1, i2])
    (h1 : includeTarget i1 = some n1) (h2 : includeTarget i2 = some n2)
    (hn1 : resolvePath r.dropLast n1 = l) (hn2 : resolvePath r.dropLast n2 = l)
    (hl : env.fs.read l = some tl) (hpl : parseObjs tl = .ok objsL)
    (hni : NoInclude objsL = true) (hne : l ≠ r) :
    expand env r = .ok (resetTmpl objsL ++ resetTmpl objsL) :=
  Phil.diamond_ok env r l tr tl i1 i2 n1 n2 objsL hr hpr h1 h2 hn1 hn2 hl hpl hni hne

/-! ### 5. path resolution -/

/-- **Relative names are resolved against the reference directory** (which `expandFile` sets to the
    directory of the including file, see `include_inlines`): a single ordinary component. -/
theorem resolvePath_relative (refdir : Path) (c : Str) (hslash : '/' ∉ c) (h0 : c ≠ [])
    (h1 : c ≠ ".".toList) (h2 : c ≠ "..".toList) :
    resolvePath refdir c = refdir ++ [c] :=
  Phil.resolvePath_relative refdir c hslash h0 h1 h2

/-- … and a name all of whose `/`-separated components are ordinary (not empty, `.` or `..`). -/
theorem resolvePath_relative_components (refdir : Path) (name : Str)
    (h : (splitOn '/' name).all plainComp = true) :
    resolvePath refdir name = refdir ++ splitOn '/' name :=
  resolvePath_relative_gen refdir name h

/-- **A name starting with `/` ignores the reference directory.** -/
theorem resolvePath_absolute (refdir : Path) (rest : Str) :
    resolvePath refdir ('/' :: rest) = normComponents (splitOn '/' rest) [] :=
  Phil.resolvePath_absolute refdir rest

theorem resolvePath_absolute_indep (refdir refdir' : Path) (rest : Str) :
    resolvePath refdir ('/' :: rest) = resolvePath refdir' ('/' :: rest) :=
  Phil.resolvePath_absolute_indep refdir refdir' rest

/-- **`..` pops the last component** (and is dropped at the root, as `normpath` does). -/
theorem normComponents_dotdot (cs : List Str) (acc : Path) :
    normComponents ("..".toList :: cs) acc = normComponents cs acc.dropLast :=
  Phil.normComponents_dotdot cs acc

/-! ### 6. the cycle error and the include graph -/

/-- **Soundness of the cycle error.**  If the expansion of `path` with stack `stack` ends with the
    cycle error, then a chain of include statements (`Includes`: an `include file` statement, or
    `include scope` statements leading to one) leads from `path` to a file `p` that is on its own
    stack `st` at that moment; `st` extends `stack`. -/
theorem cycle_error_sound (env : IncEnv) (hpc : ParseNoCycleErr env.fs)
    (hpi : ImportsParseNoCycleErr env.imports) (fuel : Nat) (path : Path) (stack : List Path)
    (h : expandFile env fuel path stack = .error (.runtime "include_cycle" none)) :
    ∃ p st, IncWalk env path stack p st ∧ stack <+: st ∧ p ∈ st := by
  obtain ⟨p, st, hw, hm⟩ := Phil.cycle_error_sound env hpc hpi fuel path stack h
  exact ⟨p, st, hw, hw.prefix, hm⟩

/-- The same without any hypothesis on the parser: the chain ends at a file on its own stack, or at
    a file whose parser outcome is itself the cycle error — or some imported scope's is. -/
theorem cycle_error_sound_gen (env : IncEnv) (fuel : Nat) (path : Path) (stack : List Path)
    (h : expandFile env fuel path stack = .error (.runtime "include_cycle" none)) :
    (∃ pt ∈ env.imports, parseObjs pt.2 = .error (.runtime "include_cycle" none)) ∨
    ∃ p st, IncWalk env path stack p st ∧ stack <+: st ∧
      (p ∈ st ∨ ∃ t, env.fs.read p = some t ∧ parseObjs t = .error (.runtime "include_cycle" none)) := by
  rcases Phil.cycle_error_sound_gen env fuel path stack h with hx | ⟨p, st, hw, hm⟩
  · exact .inl hx
  · exact .inr ⟨p, st, hw, hw.prefix, hm⟩

/-- **Every cycle is detected (1).**  If an expansion succeeds, no chain of include statements
    starting from it — through files and imported scopes — reaches a file that is on its own stack. -/
theorem ok_no_cycle (env : IncEnv) (a : Path) (st : List Path) (p : Path) (st' : List Path)
    (hw : IncWalk env a st p st') (fuel : Nat) (res : List Obj)
    (h : expandFile env fuel a st = .ok res) : p ∉ st' :=
  Phil.ok_no_cycle env hw fuel res h

/-- **Every cycle is detected (2).**  If some chain of include statements from the root returns to
    a file of the chain, `expand` ends with an error, and that error is not `outOfFuel`: the
    recursion is cut, it does not run until the fuel is gone.  (The error is the cycle error unless
    an earlier statement fails first, e.g. a missing file — as in the implementation.) -/
theorem cycle_detected (env : IncEnv) (hpf : ParseFuelOK env.fs) (hpi : ImportsParseFuelOK env.imports)
    (hrk : ImportsRanked env) (root p : Path) (st : List Path)
    (hw : IncWalk env root [] p st) (hp : p ∈ st) :
    ∃ e, expand env root = .error e ∧ e ≠ .outOfFuel := by
  obtain ⟨e, he⟩ := Phil.cycle_detected env root p st hw hp
  refine ⟨e, he, ?_⟩
  intro h
  subst h
  exact expand_total env hpf hpi hrk root he

theorem cycle_detected_files (env : IncEnv) (hi : env.imports = []) (hpf : ParseFuelOK env.fs)
    (root p : Path) (st : List Path) (hw : IncWalk env root [] p st) (hp : p ∈ st) :
    ∃ e, expand env root = .error e ∧ e ≠ .outOfFuel :=
  cycle_detected env hpf (hi ▸ importsParseFuelOK_nil) (importsRanked_nil env hi) root p st hw hp

/-! ### 7. `include scope`: the named Python-level scope is spliced the same way -/

/-- what `scopeTarget` recognises, two words: an enabled definition `include scope <p>` without `$` -/
theorem scopeTarget_two_words (m : Meta) (w1 w2 : Word) (hd : m.disabled = false)
    (hn : m.name = "include".toList) (hdol : containsDollar [w1, w2] = false)
    (hty : lower w1.value = "scope".toList) :
    scopeTarget (.defn m [w1, w2]) = some (w2.value, none) := by
  simp only [scopeTarget, hd, hn, hdol, hty]
  rfl

/-- … three words: `include scope <p> <q>` -/
theorem scopeTarget_three_words (m : Meta) (w1 w2 w3 : Word) (hd : m.disabled = false)
    (hn : m.name = "include".toList) (hdol : containsDollar [w1, w2, w3] = false)
    (hty : lower w1.value = "scope".toList) :
    scopeTarget (.defn m [w1, w2, w3]) = some (w2.value, some w3.value) := by
  simp only [scopeTarget, hd, hn, hdol, hty]
  rfl

/-- **Splicing law.**  An enabled statement `include scope p` (two words, no `$`) naming a known
    import whose text parses to `src` is replaced by the result of processing `src`'s own includes
    — one unit of fuel less, reference directory `env.cwd`, the *same* include stack — spliced before
    the processed rest of the list (`splice`: the first failing part's error, else concatenation). -/
theorem include_scope_inlines (env : IncEnv) (f : Nat) (refdir : Path) (stack : List Path) (o : Obj)
    (rest : List Obj) (p text : Str) (src : List Obj)
    (ho : scopeTarget o = some (p, none)) (hi : env.imported p = some text)
    (hp : parseObjs text = .ok src) :
    processIncludes env (f + 1) refdir stack (o :: rest) =
      splice (processIncludes env f env.cwd stack src)
        (processIncludes env (f + 1) refdir stack rest) := by
  rw [processIncludes_scope_cons env (f + 1) refdir stack o rest p none ho,
    includeScope_known env f stack p none _ text src hi hp]
  cases processIncludes env f env.cwd stack src <;> rfl

/-- … the result is `expanded ++ rest'` exactly when both parts succeed -/
theorem include_scope_inlines_ok (env : IncEnv) (f : Nat) (refdir : Path) (stack : List Path) (o : Obj)
    (rest : List Obj) (p text : Str) (src : List Obj)
    (ho : scopeTarget o = some (p, none)) (hi : env.imported p = some text)
    (hp : parseObjs text = .ok src) (res : List Obj) :
    processIncludes env (f + 1) refdir stack (o :: rest) = .ok res ↔
      ∃ expanded rest', processIncludes env f env.cwd stack src = .ok expanded ∧
        processIncludes env (f + 1) refdir stack rest = .ok rest' ∧ res = expanded ++ rest' := by
  rw [include_scope_inlines env f refdir stack o rest p text src ho hi hp]
  exact splice_eq_ok_iff _ _ _

/-- … and the error of the first failing part otherwise -/
theorem include_scope_inlines_error (env : IncEnv) (f : Nat) (refdir : Path) (stack : List Path)
    (o : Obj) (rest : List Obj) (p text : Str) (src : List Obj)
    (ho : scopeTarget o = some (p, none)) (hi : env.imported p = some text)
    (hp : parseObjs text = .ok src) (e : Err) :
    processIncludes env (f + 1) refdir stack (o :: rest) = .error e ↔
      processIncludes env f env.cwd stack src = .error e ∨
      ∃ expanded, processIncludes env f env.cwd stack src = .ok expanded ∧
        processIncludes env (f + 1) refdir stack rest = .error e := by
  rw [include_scope_inlines env f refdir stack o rest p text src ho hi hp]
  exact splice_eq_error_iff _ _ _

/-- **Sub-path.**  With a third word `q` the spliced objects are `selectPath expanded q`
    (= `scope.get(path=q)` on the *expanded* imported scope) when that selection is non-empty and
    `$`-free; an empty selection is the error "path not found" at the statement's line. -/
theorem include_scope_subpath (env : IncEnv) (f : Nat) (refdir : Path) (stack : List Path) (o : Obj)
    (rest : List Obj) (p q text : Str) (src expanded : List Obj)
    (ho : scopeTarget o = some (p, some q)) (hi : env.imported p = some text)
    (hp : parseObjs text = .ok src)
    (hexp : processIncludes env f env.cwd stack src = .ok expanded) :
    (selectPath expanded q = [] →
      processIncludes env (f + 1) refdir stack (o :: rest)
        = .error (.runtime "include_scope_not_found" o.meta.line)) ∧
    (selectPath expanded q ≠ [] → (selectPath expanded q).any (anyDollar 1000) = false →
      processIncludes env (f + 1) refdir stack (o :: rest)
        = splice (.ok (selectPath expanded q)) (processIncludes env (f + 1) refdir stack rest)) := by
  rw [processIncludes_scope_cons env (f + 1) refdir stack o rest p (some q) ho,
    includeScope_known env f stack p (some q) _ text src hi hp, hexp]
  constructor
  · intro h
    simp [Except.bind, selectSub, h]
  · intro h hd
    have : (selectPath expanded q).isEmpty = false := by
      cases hs : selectPath expanded q with
      | nil => exact absurd hs h
      | cons _ _ => rfl
    simp [Except.bind, selectSub, this, hd]

/-- … and an error while processing the imported scope's own includes propagates -/
theorem include_scope_subpath_error (env : IncEnv) (f : Nat) (refdir : Path) (stack : List Path)
    (o : Obj) (rest : List Obj) (p text : Str) (sub : Option Str) (src : List Obj) (e : Err)
    (ho : scopeTarget o = some (p, sub)) (hi : env.imported p = some text)
    (hp : parseObjs text = .ok src)
    (hexp : processIncludes env f env.cwd stack src = .error e) :
    processIncludes env (f + 1) refdir stack (o :: rest) = .error e := by
  rw [processIncludes_scope_cons env (f + 1) refdir stack o rest p sub ho,
    includeScope_known env f stack p sub _ text src hi hp, hexp]
  rfl

/-- **The imported scope's own includes are processed first.**  Whenever `include scope p q`
    succeeds, the spliced objects are the selection of `q` in the *expanded* imported scope — the
    outcome of processing `src`'s includes — not in `src` itself (see the example `envNested` below,
    where `selectPath src q` is empty). -/
theorem include_scope_expands_first (env : IncEnv) (f : Nat) (refdir : Path) (stack : List Path)
    (o : Obj) (p q text : Str) (src res : List Obj)
    (ho : scopeTarget o = some (p, some q)) (hi : env.imported p = some text)
    (hp : parseObjs text = .ok src)
    (hres : processIncludes env (f + 1) refdir stack [o] = .ok res) :
    ∃ expanded, processIncludes env f env.cwd stack src = .ok expanded ∧
      res = selectPath expanded q := by
  rw [processIncludes_scope_cons env (f + 1) refdir stack o [] p (some q) ho,
    includeScope_known env f stack p (some q) _ text src hi hp, processIncludes_nil] at hres
  cases hx : processIncludes env f env.cwd stack src with
  | error e => rw [hx] at hres; cases hres
  | ok expanded =>
    refine ⟨expanded, rfl, ?_⟩
    rw [hx] at hres
    simp only [Except.bind, selectSub] at hres
    split at hres
    · cases hres
    · split at hres
      · cases hres
      · simp [splice, Except.map] at hres
        exact hres.symm

/-- **Reference directory (1).**  What an `include scope` statement contributes does not depend on
    the reference directory of the list it stands in (the directory of the including file). -/
theorem include_scope_refdir_indep (env : IncEnv) (fuel : Nat) (refdir refdir' : Path)
    (stack : List Path) (o : Obj) (p : Str) (sub : Option Str) (ho : scopeTarget o = some (p, sub)) :
    processIncludes env fuel refdir stack [o] = processIncludes env fuel refdir' stack [o] := by
  rw [processIncludes_cons_splice, processIncludes_cons_splice, processIncludes_nil, processIncludes_nil,
    includeHere_scope_refdir_indep env fuel refdir refdir' stack o p sub ho]

/-- **Reference directory (2).**  A file name `n` inside the imported scope (include-free objects
    `pre`, the statement `i`, then `post`) is resolved against `env.cwd`
    (`reference_directory=None`), whatever `refdir` is. -/
theorem include_scope_refdir (env : IncEnv) (f : Nat) (refdir : Path) (stack : List Path) (o : Obj)
    (rest : List Obj) (p text : Str) (pre post : List Obj) (i : Obj) (n : Str)
    (ho : scopeTarget o = some (p, none)) (hi : env.imported p = some text)
    (hp : parseObjs text = .ok (pre ++ i :: post)) (hpre : NoInclude pre = true)
    (hin : includeTarget i = some n) :
    processIncludes env (f + 1) refdir stack (o :: rest) =
      splice
        (splice (.ok (resetTmpl pre))
          (splice (expandFile env f (resolvePath env.cwd n) stack)
            (processIncludes env f env.cwd stack post)))
        (processIncludes env (f + 1) refdir stack rest) := by
  rw [include_scope_inlines env f refdir stack o rest p text _ ho hi hp,
    processIncludes_split_splice env f env.cwd stack pre post i n hpre hin]

/-- **A file cycle through an imported scope is detected.**  File `a` (not yet being expanded)
    includes the scope `p`, whose text includes a file that resolves — against `env.cwd` — to `a`
    itself or to a file further up the stack: the cycle error (the imported scope is processed with
    the same include stack, on which `a` has been pushed). -/
theorem file_cycle_through_scope_detected (env : IncEnv) (f : Nat) (a q : Path) (stack : List Path)
    (t ts tq : Str) (pre post pre' post' oq : List Obj) (o i : Obj) (p : Str) (sub : Option Str) (n : Str)
    (hr : env.fs.read a = some t) (hp : parseObjs t = .ok (pre ++ o :: post)) (ha : a ∉ stack)
    (hpre : NoInclude pre = true) (ho : scopeTarget o = some (p, sub))
    (his : env.imported p = some ts) (hps : parseObjs ts = .ok (pre' ++ i :: post'))
    (hpre' : NoInclude pre' = true) (hi : includeTarget i = some n)
    (hq : resolvePath env.cwd n = q) (hmem : q ∈ stack ++ [a])
    (hrq : env.fs.read q = some tq) (hpq : parseObjs tq = .ok oq) :
    expandFile env (f + 3) a stack = .error (.runtime "include_cycle" none) :=
  expandFile_back_edge_through_scope env f a q stack t ts tq pre post pre' post' oq o i p sub n
    hr hp ha hpre ho his hps hpre' hi hq hmem hrq hpq

/-- the two-step chain `a → scope p → a` -/
theorem file_scope_file_cycle (env : IncEnv) (f : Nat) (a : Path) (t ts : Str)
    (pre post pre' post' : List Obj) (o i : Obj) (p : Str) (sub : Option Str) (n : Str)
    (hr : env.fs.read a = some t) (hp : parseObjs t = .ok (pre ++ o :: post))
    (hpre : NoInclude pre = true) (ho : scopeTarget o = some (p, sub))
    (his : env.imported p = some ts) (hps : parseObjs ts = .ok (pre' ++ i :: post'))
    (hpre' : NoInclude pre' = true) (hi : includeTarget i = some n)
    (hq : resolvePath env.cwd n = a) :
    expandFile env (f + 3) a [] = .error (.runtime "include_cycle" none) :=
  file_cycle_through_scope_detected env f a a [] t ts t pre post pre' post' _ o i p sub n
    hr hp (by simp) hpre ho his hps hpre' hi hq (by simp) hr hp

/-! ### concrete instances (checked by the kernel) -/

def pA : Path := ["d".toList, "a".toList]
def pB : Path := ["d".toList, "b".toList]

/-- `/d/a` includes itself; `/d/b` is unrelated -/
def fsSelf : IncEnv := { fs := [(pA, "x = 1\ninclude file a\n".toList), (pB, "y = 2\n".toList)] }

def objX : Obj := .defn { name := "x".toList, id := some 1, line := some 1 } [⟨"1".toList, none, some 1⟩]
def incAt (id line : Nat) (name : String) : Obj :=
  .defn { name := "include".toList, id := some id, line := some line }
    [⟨"file".toList, none, some line⟩, ⟨name.toList, none, some line⟩]

theorem parse_selfA : parseObjs "x = 1\ninclude file a\n".toList = .ok ([objX] ++ incAt 2 2 "a" :: []) := by
  rfl

/-- a self-including file is reported as a cycle -/
example : expand fsSelf pA = .error (.runtime "include_cycle" none) :=
  back_edge_is_cycle_error fsSelf 2 pA pA [] _ _ [objX] [] _ (incAt 2 2 "a") "a".toList
    rfl parse_selfA (by simp) rfl rfl rfl (by simp) rfl parse_selfA

/-- the same through the graph view: `/d/a` includes `/d/a` -/
example : IncWalk fsSelf pA [] pA [pA] ∧ pA ∈ [pA] :=
  ⟨.step (Includes.direct _ _ "a".toList rfl parse_selfA (by simp [includeTargets, includeTargetsObj, objX, incAt, includeTarget, containsDollar, lower]; decide) rfl)
      (.here _ _), by simp⟩

/-- a two-file cycle `/d/a → /d/b → /d/a` -/
def fsTwo : IncEnv := { fs := [(pA, "include file b\n".toList), (pB, "include file ../d/a\n".toList)] }

theorem parse_twoA : parseObjs "include file b\n".toList = .ok ([] ++ incAt 1 1 "b" :: []) := by rfl
theorem parse_twoB : parseObjs "include file ../d/a\n".toList = .ok ([] ++ incAt 1 1 "../d/a" :: []) := by rfl

example : expand fsTwo pA = .error (.runtime "include_cycle" none) := by
  have hb : expandFile fsTwo 2 pB ([] ++ [pA]) = .error (.runtime "include_cycle" none) :=
    back_edge_is_cycle_error fsTwo 0 pB pA [pA] _ _ [] [] _ (incAt 1 1 "../d/a") "../d/a".toList
      rfl parse_twoB (by decide) rfl rfl (by decide) (by simp) rfl parse_twoA
  have := include_inlines fsTwo 3 pA [] _ [] [] (incAt 1 1 "b") "b".toList rfl parse_twoA (by simp) rfl rfl
  have hres : resolvePath pA.dropLast "b".toList = pB := by decide
  have hb3 : expandFile fsTwo 3 pB ([] ++ [pA]) = .error (.runtime "include_cycle" none) :=
    back_edge_is_cycle_error fsTwo 1 pB pA [pA] _ _ [] [] _ (incAt 1 1 "../d/a") "../d/a".toList
      rfl parse_twoB (by decide) rfl rfl (by decide) (by simp) rfl parse_twoA
  rw [hres, hb3] at this
  exact this

/-- a diamond: `/d/r` includes `/d/l` twice -/
def pR : Path := ["d".toList, "r".toList]
def pL : Path := ["d".toList, "l".toList]
def fsDiamond : IncEnv :=
  { fs := [(pR, "include file l\ninclude file ./l\n".toList), (pL, "x = 1\ns { y = 2 }\n".toList)] }

def leafObjs : List Obj :=
  [objX,
   .scope { name := "s".toList, id := some 2, line := some 2 }
     [.defn { name := "y".toList, id := some 3, line := some 2 } [⟨"2".toList, none, some 2⟩]]]

example : expand fsDiamond pR = .ok (leafObjs ++ leafObjs) := by
  have h := diamond_ok fsDiamond pR pL _ _ (incAt 1 1 "l") (incAt 2 2 "./l") "l".toList "./l".toList
    leafObjs rfl (by rfl) rfl rfl (by decide) (by decide) rfl (by rfl) rfl (by decide)
  have e : resetTmpl leafObjs = leafObjs := resetTmpl_id leafObjs rfl
  rw [e] at h
  exact h

/-- the file system satisfies the parser hypothesis of the theorems above -/
theorem parseFuelOK_fsDiamond : ParseFuelOK fsDiamond.fs := by
  intro pt h
  simp only [fsDiamond, List.mem_cons, List.mem_nil_iff, or_false] at h
  rcases h with h | h <;> subst h
  · have : parseObjs (pR, "include file l\ninclude file ./l\n".toList).2
        = .ok [incAt 1 1 "l", incAt 2 2 "./l"] := by rfl
    rw [this]; simp
  · have : parseObjs (pL, "x = 1\ns { y = 2 }\n".toList).2 = .ok leafObjs := by rfl
    rw [this]; simp

example : expand fsDiamond pR ≠ .error .outOfFuel :=
  expand_total_files fsDiamond rfl parseFuelOK_fsDiamond pR

/-- the bound of `expand_never_out_of_fuel_files` is sharp: one file, fuel 1 (= number of files), and
    the file includes something: the model gives up -/
example : expandFile { fs := [(pA, "include file b\n".toList)] } 1 pA [] = .error .outOfFuel := by
  rw [expandFile_fresh _ 0 pA [] _ _ (by simp) rfl parse_twoA]
  show processIncludes _ 0 _ _ (incAt 1 1 "b" :: []) = _
  rw [processIncludes_cons]
  rfl

/-- names are resolved against the directory of the *including* file: `/d/r` includes `sub/m`, and
    `/d/sub/m` includes `leaf`, which is `/d/sub/leaf` (not `/d/leaf`, which does not exist) -/
def fsNested : IncEnv :=
  { fs := [(pR, "include file sub/m\n".toList),
           (["d".toList, "sub".toList, "m".toList], "include file leaf\n".toList),
           (["d".toList, "sub".toList, "leaf".toList], "x = 1\n".toList)] }

example : expand fsNested pR = .ok [objX] := by
  have hleaf : expandFile fsNested 3 ["d".toList, "sub".toList, "leaf".toList]
      ([] ++ [pR] ++ [["d".toList, "sub".toList, "m".toList]]) = .ok [objX] := by
    rw [expandFile_fresh _ 2 _ _ _ [objX] (by decide) rfl (by rfl)]
    exact Phil.no_include_identity _ _ _ _ _ rfl
  have hm : expandFile fsNested 4 ["d".toList, "sub".toList, "m".toList] ([] ++ [pR]) = .ok [objX] := by
    have := include_inlines fsNested 3 ["d".toList, "sub".toList, "m".toList] ([] ++ [pR]) _ [] []
      (incAt 1 1 "leaf") "leaf".toList rfl (by rfl) (by decide) rfl rfl
    have hres : resolvePath (["d".toList, "sub".toList, "m".toList] : Path).dropLast "leaf".toList
        = ["d".toList, "sub".toList, "leaf".toList] := by decide
    rw [hres] at this
    rw [this, hleaf, processIncludes_nil]
    rfl
  have := include_inlines fsNested 4 pR [] _ [] [] (incAt 1 1 "sub/m") "sub/m".toList rfl (by rfl)
    (by simp) rfl rfl
  have hres : resolvePath pR.dropLast "sub/m".toList = ["d".toList, "sub".toList, "m".toList] := by decide
  rw [hres] at this
  unfold expand
  show expandFile fsNested 5 pR [] = _
  rw [this, hm, processIncludes_nil]
  rfl

/-- path resolution on concrete names -/
example : resolvePath ["a".toList, "b".toList] "../c/./d//e".toList
    = ["a".toList, "c".toList, "d".toList, "e".toList] := by decide
example : resolvePath ["a".toList, "b".toList] "/c/../../d".toList = ["d".toList] := by decide
example : resolvePath ["a".toList, "b".toList] "x.phil".toList
    = ["a".toList, "b".toList, "x.phil".toList] :=
  resolvePath_relative _ _ (by decide) (by decide) (by decide) (by decide)

/-! #### `include scope` -/

def scopeAt (id line : Nat) (p : String) : Obj :=
  .defn { name := "include".toList, id := some id, line := some line }
    [⟨"scope".toList, none, some line⟩, ⟨p.toList, none, some line⟩]
def scopeSubAt (id line : Nat) (p q : String) : Obj :=
  .defn { name := "include".toList, id := some id, line := some line }
    [⟨"scope".toList, none, some line⟩, ⟨p.toList, none, some line⟩, ⟨q.toList, none, some line⟩]

theorem scope_no_dollar : "scope".toList.contains '$' = false := by decide
theorem scopeTarget_scopeAt (id line : Nat) (p : String) (h : p.toList.contains '$' = false) :
    scopeTarget (scopeAt id line p) = some (p.toList, none) :=
  scopeTarget_two_words _ _ _ rfl rfl
    (by simp only [containsDollar, List.any_cons, List.any_nil, h, scope_no_dollar]; rfl) rfl
theorem scopeTarget_scopeSubAt (id line : Nat) (p q : String) (h : p.toList.contains '$' = false)
    (h' : q.toList.contains '$' = false) :
    scopeTarget (scopeSubAt id line p q) = some (p.toList, some q.toList) :=
  scopeTarget_three_words _ _ _ _ rfl rfl
    (by simp only [containsDollar, List.any_cons, List.any_nil, h, h', scope_no_dollar]; rfl) rfl

/-- the scope `s { y = 2 }` as parsed from the import `m.inner` -/
def scopeS : Obj :=
  .scope { name := "s".toList, id := some 1, line := some 1 }
    [.defn { name := "y".toList, id := some 2, line := some 2 } [⟨"2".toList, none, some 2⟩]]
def objZ : Obj := .defn { name := "z".toList, id := some 2, line := some 2 } [⟨"3".toList, none, some 2⟩]

/-- `m.outer` is nothing but `include scope m.inner`; `m.inner` holds `s { y = 2 }` -/
def envNested : IncEnv :=
  { fs := [(pR, "include scope m.outer s\nz = 3\n".toList)],
    imports := [("m.outer".toList, "include scope m.inner\n".toList),
                ("m.inner".toList, "s {\n  y = 2\n}\n".toList)],
    cwd := ["d".toList] }

theorem parse_outer : parseObjs "include scope m.inner\n".toList = .ok [scopeAt 1 1 "m.inner"] := by rfl
theorem parse_inner : parseObjs "s {\n  y = 2\n}\n".toList = .ok [scopeS] := by rfl
theorem parse_nestedR :
    parseObjs "include scope m.outer s\nz = 3\n".toList = .ok [scopeSubAt 1 1 "m.outer" "s", objZ] := by rfl

/-- `include_scope_inlines` at work: `include scope m.inner` is replaced by the objects of `m.inner` -/
theorem expanded_outer (f : Nat) (refdir : Path) (stack : List Path) :
    processIncludes envNested (f + 1) refdir stack [scopeAt 1 1 "m.inner"] = .ok [scopeS] := by
  rw [include_scope_inlines envNested f refdir stack _ [] _ _ _ (scopeTarget_scopeAt 1 1 "m.inner" (by decide))
    rfl parse_inner, processIncludes_nil,
    Phil.no_include_identity envNested f _ _ [scopeS] rfl]
  rfl

/-- **the selection is taken after expansion**: in the text of `m.outer` there is no `s` at all … -/
example : selectPath [scopeAt 1 1 "m.inner"] "s".toList = [] := by decide
/-- … but in its expansion there is -/
theorem select_s : selectPath [scopeS] "s".toList = [scopeS] := by rfl

/-- … and `include scope m.outer s` splices it (`include_scope_subpath`, non-empty case) -/
theorem nested_subpath (f : Nat) (refdir : Path) (stack : List Path) :
    processIncludes envNested (f + 2) refdir stack [scopeSubAt 1 1 "m.outer" "s", objZ]
      = .ok [scopeS, objZ] := by
  have h := (include_scope_subpath envNested (f + 1) refdir stack _ [objZ] _ _ _ _ [scopeS]
    (scopeTarget_scopeSubAt 1 1 "m.outer" "s" (by decide) (by decide)) rfl parse_outer
    (expanded_outer f _ stack)).2 (by rw [select_s]; simp) (by rw [select_s]; rfl)
  rw [h, select_s, Phil.no_include_identity envNested _ _ _ [objZ] rfl]
  rfl

example : expand envNested pR = .ok [scopeS, objZ] := by
  unfold expand
  show expandFile envNested 7 pR [] = _
  rw [expandFile_fresh envNested 6 pR [] _ _ (by simp) rfl parse_nestedR]
  exact nested_subpath 4 _ _

/-- `include_scope_expands_first` applies to it: the spliced objects *are* the selection from the
    expansion of `m.outer` (its text itself has no `s`, see above) -/
example : ∃ expanded, processIncludes envNested 1 envNested.cwd [] [scopeAt 1 1 "m.inner"] = .ok expanded ∧
    [scopeS] = selectPath expanded "s".toList := by
  have h := (include_scope_subpath envNested 1 [] [] _ [] _ _ _ _ [scopeS]
    (scopeTarget_scopeSubAt 1 1 "m.outer" "s" (by decide) (by decide)) rfl parse_outer
    (expanded_outer 0 _ [])).2 (by rw [select_s]; simp) (by rw [select_s]; rfl)
  rw [select_s, processIncludes_nil] at h
  exact include_scope_expands_first envNested 1 [] [] (scopeSubAt 1 1 "m.outer" "s") _ _ _ _ [scopeS]
    (scopeTarget_scopeSubAt 1 1 "m.outer" "s" (by decide) (by decide)) rfl parse_outer h

/-- `include_scope_subpath`, empty case: a path that selects nothing is an error at the statement's line -/
example (f : Nat) (refdir : Path) (stack : List Path) :
    processIncludes envNested (f + 2) refdir stack [scopeSubAt 1 1 "m.outer" "zz"]
      = .error (.runtime "include_scope_not_found" (some 1)) :=
  (include_scope_subpath envNested (f + 1) refdir stack _ [] _ _ _ _ [scopeS]
    (scopeTarget_scopeSubAt 1 1 "m.outer" "zz" (by decide) (by decide)) rfl parse_outer (expanded_outer f _ stack)).1 (by decide)

/-- the imports of `envNested` are ranked by position (`m.outer` refers to the later `m.inner`), so
    `expand_total` applies -/
theorem importsRanked_envNested : ImportsRanked envNested := importsRanked_of_check envNested (by decide +kernel)

example : expand envNested pR ≠ .error .outOfFuel := by
  apply expand_total envNested ?_ ?_ importsRanked_envNested
  · intro pt h
    simp only [envNested, List.mem_cons, List.mem_nil_iff, or_false] at h
    subst h
    show parseObjs "include scope m.outer s\nz = 3\n".toList ≠ _
    rw [parse_nestedR]; simp
  · intro pt h
    simp only [envNested, List.mem_cons, List.mem_nil_iff, or_false] at h
    rcases h with h | h <;> subst h
    · show parseObjs "include scope m.inner\n".toList ≠ _
      rw [parse_outer]; simp
    · show parseObjs "s {\n  y = 2\n}\n".toList ≠ _
      rw [parse_inner]; simp

/-- **reference directory**: `/d/r` includes the scope `m.lib`, whose text includes the relative name
    `leaf`: it is `/w/leaf` (current directory `/w`), not `/d/leaf` next to the including file -/
def envCwd : IncEnv :=
  { fs := [(pR, "include scope m.lib\n".toList),
           (["d".toList, "leaf".toList], "y = 2\n".toList),
           (["w".toList, "leaf".toList], "x = 1\n".toList)],
    imports := [("m.lib".toList, "include file leaf\n".toList)],
    cwd := ["w".toList] }

theorem parse_libR : parseObjs "include scope m.lib\n".toList = .ok ([] ++ scopeAt 1 1 "m.lib" :: []) := by rfl
theorem parse_lib : parseObjs "include file leaf\n".toList = .ok ([] ++ incAt 1 1 "leaf" :: []) := by rfl

example : expand envCwd pR = .ok [objX] := by
  unfold expand
  show expandFile envCwd 9 pR [] = _
  rw [expandFile_fresh envCwd 8 pR [] _ _ (by simp) rfl parse_libR]
  show processIncludes envCwd (7 + 1) _ _ (scopeAt 1 1 "m.lib" :: []) = _
  rw [include_scope_refdir envCwd 7 _ _ _ [] _ _ [] [] (incAt 1 1 "leaf") "leaf".toList
    (scopeTarget_scopeAt 1 1 "m.lib" (by decide)) rfl parse_lib rfl rfl]
  have hres : resolvePath envCwd.cwd "leaf".toList = ["w".toList, "leaf".toList] := by decide
  rw [hres, expandFile_fresh envCwd 6 _ _ _ [objX] (by decide) rfl (by rfl),
    Phil.no_include_identity envCwd 6 _ _ [objX] rfl, processIncludes_nil, processIncludes_nil]
  rfl

/-- **a file cycle through an imported scope**: `/d/a` includes the scope `m.back`, whose text
    includes `a` — with current directory `/d` that is `/d/a` again -/
def envBack : IncEnv :=
  { fs := [(pA, "include scope m.back\n".toList)],
    imports := [("m.back".toList, "include file a\n".toList)],
    cwd := ["d".toList] }

theorem parse_backA : parseObjs "include scope m.back\n".toList = .ok ([] ++ scopeAt 1 1 "m.back" :: []) := by rfl
theorem parse_back : parseObjs "include file a\n".toList = .ok ([] ++ incAt 1 1 "a" :: []) := by rfl

example : expand envBack pA = .error (.runtime "include_cycle" none) :=
  file_scope_file_cycle envBack 2 pA _ _ [] [] [] [] (scopeAt 1 1 "m.back") (incAt 1 1 "a") _ none
    "a".toList rfl parse_backA rfl (scopeTarget_scopeAt 1 1 "m.back" (by decide)) rfl parse_back rfl rfl (by decide)

/-- the same through the graph view: `/d/a` includes `/d/a`, by way of the scope `m.back` -/
example : IncWalk envBack pA [] pA [pA] ∧ pA ∈ [pA] :=
  ⟨.step ⟨_, _, rfl, parse_backA,
      .scope "m.back".toList _ _ (by decide) rfl parse_back
        (.file "a".toList (by simp [includeTargets, includeTargetsObj, incAt, includeTarget, containsDollar, lower]; decide)
          (by decide))⟩
      (.here _ _), by simp⟩

/-- **`ImportsRanked` is needed**: an imported scope that includes itself — Python recurses without
    bound (no cycle detection for scopes), the model gives up -/
def envLoop : IncEnv :=
  { fs := [(pA, "include scope m.loop\n".toList)],
    imports := [("m.loop".toList, "include scope m.loop\n".toList)] }

example : importsRankedB envLoop = false := by decide +kernel

theorem parse_loop : parseObjs "include scope m.loop\n".toList = .ok ([] ++ scopeAt 1 1 "m.loop" :: []) := by rfl

/-- whatever the fuel, the statement `include scope m.loop` exhausts it -/
theorem loop_out_of_fuel (f : Nat) (refdir : Path) (stack : List Path) :
    processIncludes envLoop f refdir stack [scopeAt 1 1 "m.loop"] = .error .outOfFuel := by
  induction f generalizing refdir with
  | zero =>
    rw [processIncludes_cons_splice,
      includeHere_scope envLoop 0 refdir stack _ _ _ (scopeTarget_scopeAt 1 1 "m.loop" (by decide))]
    rfl
  | succ f ih =>
    rw [include_scope_inlines envLoop f refdir stack _ [] _ _ _
      (scopeTarget_scopeAt 1 1 "m.loop" (by decide)) rfl parse_loop]
    show splice (processIncludes envLoop f envLoop.cwd stack [scopeAt 1 1 "m.loop"]) _ = _
    rw [ih]; rfl

example : expand envLoop pA = .error .outOfFuel := by
  unfold expand
  rw [expandFile_fresh envLoop _ pA [] _ _ (by simp) rfl parse_loop]
  exact loop_out_of_fuel _ _ _

end Phil.C13

/-! ### axioms -/
#print axioms Phil.C13.cycle_refused
#print axioms Phil.C13.back_edge_is_cycle_error
#print axioms Phil.C13.nodup_subset_length_le_distinct
#print axioms Phil.C13.expand_never_out_of_fuel
#print axioms Phil.C13.processIncludes_never_out_of_fuel
#print axioms Phil.C13.expand_total
#print axioms Phil.C13.importsRanked_of_check
#print axioms Phil.C13.expand_never_out_of_fuel_files
#print axioms Phil.C13.processIncludes_never_out_of_fuel_files
#print axioms Phil.C13.expand_total_files
#print axioms Phil.C13.no_include_identity
#print axioms Phil.C13.no_include_identity_tmpl0
#print axioms Phil.C13.include_inlines
#print axioms Phil.C13.processIncludes_append
#print axioms Phil.C13.diamond_ok
#print axioms Phil.C13.resolvePath_relative
#print axioms Phil.C13.resolvePath_relative_components
#print axioms Phil.C13.resolvePath_absolute
#print axioms Phil.C13.resolvePath_absolute_indep
#print axioms Phil.C13.normComponents_dotdot
#print axioms Phil.C13.cycle_error_sound
#print axioms Phil.C13.cycle_error_sound_gen
#print axioms Phil.C13.ok_no_cycle
#print axioms Phil.C13.cycle_detected
#print axioms Phil.C13.cycle_detected_files
#print axioms Phil.C13.scopeTarget_two_words
#print axioms Phil.C13.scopeTarget_three_words
#print axioms Phil.C13.include_scope_inlines
#print axioms Phil.C13.include_scope_inlines_ok
#print axioms Phil.C13.include_scope_inlines_error
#print axioms Phil.C13.include_scope_subpath
#print axioms Phil.C13.include_scope_subpath_error
#print axioms Phil.C13.include_scope_expands_first
#print axioms Phil.C13.include_scope_refdir_indep
#print axioms Phil.C13.include_scope_refdir
#print axioms Phil.C13.file_cycle_through_scope_detected
#print axioms Phil.C13.file_scope_file_cycle
#print axioms Phil.C13.parse_selfA
#print axioms Phil.C13.parse_twoA
#print axioms Phil.C13.parse_twoB
#print axioms Phil.C13.parseFuelOK_fsDiamond
#print axioms Phil.C13.scope_no_dollar
#print axioms Phil.C13.scopeTarget_scopeAt
#print axioms Phil.C13.scopeTarget_scopeSubAt
#print axioms Phil.C13.parse_outer
#print axioms Phil.C13.parse_inner
#print axioms Phil.C13.parse_nestedR
#print axioms Phil.C13.expanded_outer
#print axioms Phil.C13.select_s
#print axioms Phil.C13.nested_subpath
#print axioms Phil.C13.importsRanked_envNested
#print axioms Phil.C13.parse_libR
#print axioms Phil.C13.parse_lib
#print axioms Phil.C13.parse_backA
#print axioms Phil.C13.parse_back
#print axioms Phil.C13.parse_loop
#print axioms Phil.C13.loop_out_of_fuel
