/-
  C02 — all surface spellings parse to the same tree: building blocks of parser soundness.
  What `collect_assigned_words` returns for the simplest spellings of a one-word value: terminated
  by a newline, by the end of the text, or by `;`.
  Property theorems only; lemmas are in Phil/Proofs/ParseLemmas.lean.
-/
import Phil.Proofs.ParseLemmas
set_option linter.unusedSimpArgs false
namespace Phil.C02
open Phil

/-- B1 (general form).  After `name =`: blanks `sp`, one plain word `w` (`plainWord`: non-empty, no
    white space, none of `{ } ;`, not starting with a quote, not the lone words `\` and `#`), then
    text `rest` in front of which the unquoted scanner stops and which ends the value (`EndsValue`:
    end of input, or an unquoted word other than `;`/`#` on another line).  The collector returns
    exactly the word `w` with the line of the lead word and backs up: `rest` is not consumed. -/
theorem collectAssigned_single_word (lead : Word) (w sp rest : Str) (l : Nat)
    (hlead : lead.line = some l) (hsp : Blanks sp) (hw : plainWord w = true)
    (hr : stopsAt valueSettings rest = true) (hend : EndsValue ⟨rest, l⟩ l) :
    collectAssigned ⟨sp ++ w ++ rest, l⟩ lead
      = .ok ([{ value := w, quote := none, line := some l }], ⟨rest, l⟩) := by
  have h := collectAssigned_plain w sp rest l lead hsp.isSpace (by simpa [hsp.nlCount] using hlead)
    hw hr (by simpa [hsp.nlCount] using hend)
  simpa [hsp.nlCount] using h

/-- B1.  `name = w⏎…`: a one-word value terminated by a newline.  Whatever follows the newline —
    nothing, blank lines, or (after any white space) a character that is not a quote, `;` or `#` —
    the value is exactly `[w]` on line `l`, and the parser state is restored to the position in
    front of the newline (`backup()`), line counter unchanged.
    (A quoted word at the start of the next line would be a continuation of the value, `;` would be
    consumed and `#` would start a comment: these are separate spellings.) -/
theorem collectAssigned_single_word_newline (lead : Word) (w sp rest : Str) (l : Nat)
    (hlead : lead.line = some l) (hsp : Blanks sp) (hw : plainWord w = true)
    (hnext : ∀ c, firstNonSpace rest = some c → isQuoteChar c = false ∧ c ≠ ';' ∧ c ≠ '#') :
    collectAssigned ⟨sp ++ w ++ '\n' :: rest, l⟩ lead
      = .ok ([{ value := w, quote := none, line := some l }], ⟨'\n' :: rest, l⟩) :=
  collectAssigned_single_word lead w sp ('\n' :: rest) l hlead hsp hw (by rfl)
    (EndsValue_next_line rest l hnext)

/-- B1, end of text: `name = w` with nothing after the word. -/
theorem collectAssigned_single_word_eof (lead : Word) (w sp : Str) (l : Nat)
    (hlead : lead.line = some l) (hsp : Blanks sp) (hw : plainWord w = true) :
    collectAssigned ⟨sp ++ w, l⟩ lead
      = .ok ([{ value := w, quote := none, line := some l }], ⟨[], l⟩) := by
  have h := collectAssigned_single_word lead w sp [] l hlead hsp hw (by rfl)
    (EndsValue_eof [] l l (by intro d hd; simp at hd))
  simpa using h

/-- B2.  `name = w ;…`: a one-word value terminated by `;` (after any white space `sp2`, even line
    breaks): the value is exactly `[w]` and the `;` is consumed — the state afterwards is the text
    right after the `;`, the line counter advanced by the newlines of `sp2`. -/
theorem collectAssigned_semicolon (lead : Word) (w sp sp2 rest : Str) (l : Nat)
    (hlead : lead.line = some l) (hsp : Blanks sp) (hsp2 : ∀ d ∈ sp2, isSpace d = true)
    (hw : plainWord w = true) :
    collectAssigned ⟨sp ++ w ++ sp2 ++ ';' :: rest, l⟩ lead
      = .ok ([{ value := w, quote := none, line := some l }], ⟨rest, l + nlCount sp2⟩) := by
  have h := collectAssigned_plain_semicolon w sp sp2 rest l lead hsp.isSpace hsp2
    (by simpa [hsp.nlCount] using hlead) hw
  simpa [hsp.nlCount] using h

/-- B3.  `name = w # comment⏎…`: a stand-alone `#` (blanks before it, and the comment text `cmt` empty
    or starting with white space or one of `{ } ;`) followed by comment text accepted by `commentOk`
    (no newline, no word starting with a quote character, last word not a lone `\`) changes nothing:
    the value is exactly `[w]`, as in `collectAssigned_single_word_newline`, and the state is restored
    to the newline, up to trailing blanks `tb` of the comment that are left unread (and are invisible
    to every later read, `nextWord_inline_space`).  The next line may start with any character that
    is not a quote — in comment mode even `;` and `#` end the value.
    (The exclusions are real: a word-initial quote inside the comment is scanned as a quoted word and
    can swallow following lines — finding D20 — and a final lone `\` continues the comment.) -/
theorem trailing_comment_ignored (lead : Word) (w sp sp2 cmt rest : Str) (l : Nat)
    (hlead : lead.line = some l) (hsp : Blanks sp) (hsp2 : Blanks sp2) (hne : sp2 ≠ [])
    (hw : plainWord w = true) (hstop : stopsAt valueSettings cmt = true)
    (hcmt : commentOk false true cmt = true)
    (hnext : ∀ c, firstNonSpace rest = some c → isQuoteChar c = false) :
    ∃ tb, InlineSpace tb ∧
      collectAssigned ⟨sp ++ w ++ sp2 ++ '#' :: cmt ++ '\n' :: rest, l⟩ lead
        = .ok ([{ value := w, quote := none, line := some l }], ⟨tb ++ '\n' :: rest, l⟩) := by
  obtain ⟨tb, htb, h⟩ := collectAssigned_plain_comment w sp sp2 cmt rest l lead hsp.inline hsp2.inline
    hne hlead hw hstop hcmt hnext
  refine ⟨tb, htb, ?_⟩
  rw [← h]
  simp

/-- B3, corollary: with or without the trailing comment the collected words are the same and the
    next word any tokenizer setting reads afterwards is the same. -/
theorem trailing_comment_same_as_none (lead : Word) (w sp sp2 cmt rest : Str) (l : Nat)
    (hlead : lead.line = some l) (hsp : Blanks sp) (hsp2 : Blanks sp2) (hne : sp2 ≠ [])
    (hw : plainWord w = true) (hstop : stopsAt valueSettings cmt = true)
    (hcmt : commentOk false true cmt = true)
    (hnext : ∀ c, firstNonSpace rest = some c → isQuoteChar c = false ∧ c ≠ ';' ∧ c ≠ '#') :
    ∃ ws ci1 ci2,
      collectAssigned ⟨sp ++ w ++ sp2 ++ '#' :: cmt ++ '\n' :: rest, l⟩ lead = .ok (ws, ci1) ∧
      collectAssigned ⟨sp ++ w ++ '\n' :: rest, l⟩ lead = .ok (ws, ci2) ∧
      ∀ st, nextWord st ci1 = nextWord st ci2 := by
  obtain ⟨tb, htb, h⟩ := trailing_comment_ignored lead w sp sp2 cmt rest l hlead hsp hsp2 hne hw
    hstop hcmt (fun c hc => (hnext c hc).1)
  exact ⟨_, _, _, h, collectAssigned_single_word_newline lead w sp rest l hlead hsp hw hnext,
    fun st => nextWord_inline_space st tb _ l htb⟩

/-! ### concrete instances -/

theorem blanks_example : Blanks " \t ".toList := by
  intro d hd
  have : " \t ".toList = [' ', '\t', ' '] := by rfl
  rw [this] at hd
  simp at hd
  rcases hd with e | e | e <;> simp [e]

example : collectAssigned ⟨" \t ".toList ++ "1.5e-3/x'y\"#".toList ++ '\n' :: "\n  next_def = 2".toList, 7⟩
      { value := "a.b".toList, line := some 7 }
    = .ok ([{ value := "1.5e-3/x'y\"#".toList, quote := none, line := some 7 }],
           ⟨'\n' :: "\n  next_def = 2".toList, 7⟩) :=
  collectAssigned_single_word_newline _ _ _ _ 7 rfl blanks_example (by decide)
    (by intro c hc
        have : firstNonSpace "\n  next_def = 2".toList = some 'n' := by rfl
        rw [this] at hc
        cases hc
        decide)

example : collectAssigned ⟨" \t ".toList ++ "*foo".toList, 3⟩ { value := "a".toList, line := some 3 }
    = .ok ([{ value := "*foo".toList, quote := none, line := some 3 }], ⟨[], 3⟩) :=
  collectAssigned_single_word_eof _ _ _ 3 rfl blanks_example (by decide)

example : collectAssigned ⟨" \t ".toList ++ "None".toList ++ " \n ".toList ++ ';' :: " b = 2".toList, 3⟩
      { value := "a".toList, line := some 3 }
    = .ok ([{ value := "None".toList, quote := none, line := some 3 }],
           ⟨" b = 2".toList, 3 + nlCount " \n ".toList⟩) :=
  collectAssigned_semicolon _ _ _ _ _ 3 rfl blanks_example
    (by intro d hd
        have : " \n ".toList = [' ', '\n', ' '] := by rfl
        rw [this] at hd
        simp at hd
        rcases hd with e | e | e <;> subst e <;> rfl)
    (by decide)

example : ∃ tb, InlineSpace tb ∧
    collectAssigned ⟨" \t ".toList ++ "1.5".toList ++ " \t ".toList
        ++ '#' :: " it's {fine}; x=\"1\" \\ ok  ".toList ++ '\n' :: "; b = 2".toList, 7⟩
      { value := "a".toList, line := some 7 }
    = .ok ([{ value := "1.5".toList, quote := none, line := some 7 }],
           ⟨tb ++ '\n' :: "; b = 2".toList, 7⟩) :=
  trailing_comment_ignored _ _ _ _ _ _ 7 rfl blanks_example blanks_example (by decide) (by decide)
    (by rfl) (by decide)
    (by intro c hc
        have : firstNonSpace "; b = 2".toList = some ';' := by rfl
        rw [this] at hc
        cases hc
        decide)

/-- the reader rejects the comment texts of finding D20 and a final continuation backslash -/
example : commentOk false true " the \" char".toList = false := by decide
example : commentOk false true " 'multi".toList = false := by decide
example : commentOk false true " foo \\".toList = false := by decide
example : commentOk false true " foo \\ ".toList = false := by decide
example : commentOk false true " foo\\ x\\y \\z".toList = true := by decide

end Phil.C02
