/-
  Phil.Props.Translated — the definitions that harness/translate.py regenerates from the Python source on every
  run (Phil/Generated/Translated.lean, semantics of the subset in Phil/Generated/PyPrelude.lean) are EQUAL, on all
  inputs, to the hand-written model functions the property theorems are about.  A changed source changes the
  generated definition; either these proofs still check (harmless rewrite) or the obligation breaks.
-/
import Phil.Generated.Translated
import Phil.CmdLine
import Phil.Proofs.ParseIds
import Phil.Proofs.ParseLemmas
namespace Phil.Translated

/-! ### command_line.argument_interpreter.get_path_score  (C14) -/

theorem findSub_eq_isInfix (p s : Str) : findSub p s = Py.isInfix p s := by
  induction s with
  | nil => rfl
  | cons c cs ih => simp only [findSub, Py.isInfix, ih]

theorem find_neg (t s : Str) : decide (Py.find t s < 0) = !findSub s t := by
  rw [findSub_eq_isInfix]
  cases h : Py.isInfix s t
  · simpa using (Py.find_neg_iff t s).mpr h
  · have : ¬ Py.find t s < 0 := fun hlt => by
      have := (Py.find_neg_iff t s).mp hlt
      simp [h] at this
    simpa using this

theorem find_whole (t s : Str) : (Py.find t s == 0 && Py.len s == Py.len t) = (s == t) := by
  by_cases he : s = t
  · subst he
    have : Py.find s s = 0 := (Py.find_zero_iff s s).mpr (by simp [Py.startswith, startsWith])
    simp [this]
  · have hne : (s == t) = false := by simpa using he
    rw [hne]
    by_cases hl : Py.len s = Py.len t
    · have hz : ¬ Py.find t s = 0 := by
        intro hz
        have hs := (Py.find_zero_iff t s).mp hz
        simp only [Py.startswith, startsWith, beq_iff_eq] at hs
        have hl' : s.length = t.length := by simp only [Py.len] at hl; omega
        rw [hl', List.take_length] at hs
        exact he hs.symm
      simp [hz]
    · simp [hl]

theorem findSub_self (t : Str) : findSub t t = true := by
  rw [findSub_eq_isInfix]; exact (Py.isInfix_iff t t).mpr ⟨[], [], by simp⟩

/-- the translated `get_path_score` is the model's `getPathScore` (all home scopes, all strings) -/
theorem get_path_score_eq (h : Option Str) (s t : Str) :
    Gen.get_path_score h s t = ((getPathScore h s t : Nat) : Int) := by
  unfold Gen.get_path_score getPathScore
  simp only [find_neg, find_whole, Py.startswith, Py.endswith]
  cases h with
  | none =>
    simp only [List.singleton_append]
    by_cases h1 : findSub s t = true <;> by_cases h2 : s = t <;> by_cases h3 : endsWith ('.' :: s) t = true <;>
      by_cases h4 : endsWith s t = true <;> simp [h1, h2, h3, h4, findSub_self]
  | some hh =>
    simp only [List.singleton_append, List.append_assoc]
    by_cases h1 : findSub s t = true <;> by_cases h2 : s = t <;> by_cases h3 : endsWith ('.' :: s) t = true <;>
      by_cases h4 : endsWith s t = true <;> by_cases h5 : hh ++ '.' :: s = t <;>
      by_cases h6 : startsWith (hh ++ ['.']) t = true <;> simp [h1, h2, h3, h4, h5, h6, findSub_self]

example : Gen.get_path_score (some "h".toList) "b".toList "h.a.b".toList = 6 := by decide


/-! ### common.is_reserved_identifier  (C02, C16) -/

theorem is_reserved_identifier_eq (s : Str) : Gen.is_reserved_identifier s = isReserved s := by
  unfold Gen.is_reserved_identifier isReserved
  simp only [Py.len, Py.startswith, Py.endswith, startsWith, endsWith, List.length_cons, List.length_nil]
  by_cases h : s.length < 5
  · have h1 : ((s.length : Int) < 5) := by omega
    have h2 : ¬ (5 ≤ s.length) := by omega
    simp [h1, h2]
  · have h1 : ¬ ((s.length : Int) < 5) := by omega
    have h2 : (5 ≤ s.length) := by omega
    have h3 : 2 ≤ s.length := by omega
    simp [h1, h2, h3]

example : Gen.is_reserved_identifier "__phil__".toList = true := by decide

/-! ### tokenizer.escape_python_str / quote_python_str  (C01, C03) -/

/-- the translated `escape_python_str` (two successive `str.replace`) is the model's one-pass `escape`, for every
    quote character other than the backslash -/
theorem escape_python_str_eq (q : Char) (hq : q ≠ '\\') (s : Str) :
    Gen.escape_python_str [q] s = escape q s := by
  unfold Gen.escape_python_str
  rw [Py.replace_single]
  have hq' : ¬ '\\' = q := fun h => hq h.symm
  induction s with
  | nil => rfl
  | cons c cs ih =>
    rw [Py.replace1_cons, Py.replace1_append, ih]
    by_cases hc : c = '\\'
    · subst hc
      simp [escape, Py.replace1, hq']
    · by_cases hcq : c = q
      · subst hcq; simp [escape, Py.replace1, hc]
      · simp [escape, Py.replace1, hc, hcq]

/-- sharpness of `q ≠ '\\'`: with the backslash as quote character Python doubles twice -/
theorem escape_python_str_backslash_differs :
    Gen.escape_python_str ['\\'] ['\\'] ≠ escape '\\' ['\\'] := by decide

theorem index_token (q : Quote) : Py.index q.token 0 = [q.char] := by cases q <;> decide

/-- the translated `quote_python_str` on the four quote tokens is the model's `quoteStr` -/
theorem quote_python_str_eq (q : Quote) (s : Str) : Gen.quote_python_str q.token s = quoteStr q s := by
  have hq : q.char ≠ '\\' := by cases q <;> decide
  simp only [Gen.quote_python_str, quoteStr, index_token, escape_python_str_eq q.char hq, List.append_assoc]

example : Gen.quote_python_str "\"".toList "a\"b\\".toList = "\"a\\\"b\\\\\"".toList := by decide

/-! ### tokens.is_plain_none / is_plain_auto -/

theorem is_plain_none_eq (ws : List Word) : Gen.is_plain_none ws = isPlainNone ws := by
  unfold Gen.is_plain_none isPlainNone
  match ws with
  | [] => simp [Py.len]
  | [w] => simp [Py.len, Py.first, Py.lower]
  | w :: w2 :: rest =>
    have : ¬ ((rest.length : Int) + 1 + 1 = 1) := by omega
    simp [Py.len, this]

theorem is_plain_auto_eq (ws : List Word) : Gen.is_plain_auto ws = isPlainAuto ws := by
  unfold Gen.is_plain_auto isPlainAuto
  match ws with
  | [] => simp [Py.len]
  | [w] => simp [Py.len, Py.first, Py.lower]
  | w :: w2 :: rest =>
    have : ¬ ((rest.length : Int) + 1 + 1 = 1) := by omega
    simp [Py.len, this]


/-! ### tokens.is_standard_identifier  (C02, C16) -/

theorem ascii_ext (p q : Char → Bool) (hlow : ∀ n : Fin 128, p (Char.ofNat n) = q (Char.ofNat n))
    (hp : ∀ c : Char, 128 ≤ c.toNat → p c = false) (hq : ∀ c : Char, 128 ≤ c.toNat → q c = false) (c : Char) :
    p c = q c := by
  by_cases h : c.toNat < 128
  · have := hlow ⟨c.toNat, h⟩
    simpa [Char.ofNat_toNat] using this
  · rw [hp c (by omega), hq c (by omega)]

theorem contains_false_of_big (set : List Char) (hall : set.all (fun d => decide (d.toNat < 128)) = true) (c : Char)
    (hc : 128 ≤ c.toNat) : set.contains c = false := by
  cases h : set.contains c with
  | false => rfl
  | true =>
    have hm : c ∈ set := by simpa using h
    have := List.all_eq_true.mp hall c hm
    simp at this; omega

theorem isIdStart_big (c : Char) (hc : 128 ≤ c.toNat) : isIdStart c = false := by
  have h1 : c ≠ '_' := by intro h; subst h; simp at hc
  simp [isIdStart, isUpperAscii, isLowerAscii, h1]; omega

theorem isIdCont_big (c : Char) (hc : 128 ≤ c.toNat) : isIdCont c = false := by
  have h1 : c ≠ '.' := by intro h; subst h; simp at hc
  simp [isIdCont, isIdStart_big c hc, isDigit, h1]; omega

/-- the module-level set `standard_identifier_start_characters` of tokens.py is the model's `isIdStart` -/
theorem inStart (c : Char) : Py.inChars [c] Gen.standard_identifier_start_characters = isIdStart c :=
  ascii_ext (fun c => Py.inChars [c] Gen.standard_identifier_start_characters) isIdStart (by decide +kernel)
    (fun c hc => contains_false_of_big _ (by decide +kernel) c hc) isIdStart_big c

/-- the module-level set `standard_identifier_continuation_characters` is the model's `isIdCont` -/
theorem inCont (c : Char) : Py.inChars [c] Gen.standard_identifier_continuation_characters = isIdCont c :=
  ascii_ext (fun c => Py.inChars [c] Gen.standard_identifier_continuation_characters) isIdCont (by decide +kernel)
    (fun c hc => contains_false_of_big _ (by decide +kernel) c hc) isIdCont_big c

theorem any_not {α : Type} (l : List α) (p : α → Bool) : l.any (fun x => !p x) = !l.all p := by
  induction l with
  | nil => rfl
  | cons x xs ih => simp [ih, Bool.not_and]

theorem all_congr_mem {α : Type} (l : List α) (p q : α → Bool) (h : ∀ x ∈ l, p x = q x) : l.all p = l.all q := by
  induction l with
  | nil => rfl
  | cons x xs ih =>
    simp only [List.all_cons, h x (List.mem_cons_self ..), ih (fun y hy => h y (List.mem_cons_of_mem _ hy))]

theorem fuel_nil (n : Nat) : Gen.is_standard_identifier_fuel n [] = false := by
  cases n <;> simp [Gen.is_standard_identifier_fuel, Py.len]

/-- one unfolding of the translated function on a non-empty string -/
theorem fuel_step (n : Nat) (c : Char) (cs : Str) :
    Gen.is_standard_identifier_fuel (n + 1) (c :: cs) =
      (isIdStart c && cs.all isIdCont &&
        (decide ((splitOn '.' (c :: cs)).length ≤ 1) ||
          (splitOn '.' (c :: cs)).all (fun sub => Gen.is_standard_identifier_fuel n sub))) := by
  rw [Gen.is_standard_identifier_fuel]
  simp only [Py.len, Py.index_zero_cons, Py.sliceFrom_one, Py.chars_any, Py.split1]
  simp only [inStart, inCont, List.length_cons, any_not]
  have h0 : ¬ ((cs.length : Int) + 1 = 0) := by omega
  by_cases h3 : (splitOn '.' (c :: cs)).length ≤ 1
  · have h3' : ¬ (((splitOn '.' (c :: cs)).length : Int) > 1) := by omega
    cases isIdStart c <;> cases cs.all isIdCont <;> simp [h0, h3, h3']
  · have h3' : (((splitOn '.' (c :: cs)).length : Int) > 1) := by omega
    cases isIdStart c <;> cases cs.all isIdCont <;>
      cases (splitOn '.' (c :: cs)).all (fun sub => Gen.is_standard_identifier_fuel n sub) <;> simp [h0, h3, h3']

/-- on a dot-free string one level of fuel suffices and the translated function is `isSimpleIdent` -/
theorem fuel_simple (n : Nat) (sub : Str) (h : '.' ∉ sub) :
    Gen.is_standard_identifier_fuel (n + 1) sub = isSimpleIdent sub := by
  cases sub with
  | nil => rw [fuel_nil]; rfl
  | cons c cs =>
    rw [fuel_step, splitOn_not_mem '.' (c :: cs) h]
    have hall : cs.all isIdCont = cs.all (fun d => isIdStart d || isDigit d) := by
      apply all_congr_mem
      intro d hd
      have : d ≠ '.' := by intro e; subst e; exact h (List.mem_cons_of_mem _ hd)
      have h' : (d == '.') = false := by simpa using this
      simp only [isIdCont, h', Bool.or_false]
    simp [isSimpleIdent, hall]

theorem fuel_enough (n : Nat) (s : Str) : Gen.is_standard_identifier_fuel (n + 2) s = isStdIdent s := by
  cases s with
  | nil => rw [fuel_nil]; rfl
  | cons c cs =>
    rw [fuel_step]
    have hall : (splitOn '.' (c :: cs)).all (fun sub => Gen.is_standard_identifier_fuel (n + 1) sub)
        = (splitOn '.' (c :: cs)).all isSimpleIdent := by
      apply all_congr_mem
      intro sub hsub
      exact fuel_simple n sub (Phil.C12.splitOn_comp_pid '.' (c :: cs) sub hsub)
    simp [isStdIdent, hall]

/-- the translated (recursive, fuel-bounded) `is_standard_identifier` is the model's `isStdIdent` on all strings;
    in particular the translator's depth bound `len(string) + 1` suffices -/
theorem is_standard_identifier_eq (s : Str) : Gen.is_standard_identifier s = isStdIdent s := by
  unfold Gen.is_standard_identifier Py.fuel
  cases s with
  | nil => rw [fuel_nil]; rfl
  | cons c cs => exact fuel_enough cs.length (c :: cs)

example : Gen.is_standard_identifier "a.b_1.c".toList = true := by decide
example : Gen.is_standard_identifier "a..b".toList = false := by decide

end Phil.Translated

#print axioms Phil.Translated.get_path_score_eq
#print axioms Phil.Translated.is_reserved_identifier_eq
#print axioms Phil.Translated.escape_python_str_eq
#print axioms Phil.Translated.escape_python_str_backslash_differs
#print axioms Phil.Translated.quote_python_str_eq
#print axioms Phil.Translated.is_plain_none_eq
#print axioms Phil.Translated.is_plain_auto_eq
#print axioms Phil.Translated.inStart
#print axioms Phil.Translated.inCont
#print axioms Phil.Translated.is_standard_identifier_eq
