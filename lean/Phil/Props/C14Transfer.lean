/-
  C14 (value-transfer clause) — "… The value words reach the addressed parameter exactly as they would
  from a file, and processing a list of arguments and fetching equals fetching the individually
  interpreted arguments in order."

  Phil/Props/C14.lean proves WHICH parameter an argument addresses (`choosePath`); this file proves
  WHAT the successful result of `argument_interpreter.process_arg` (`processArg`) is.
  Property theorems only; the lemmas are in Phil/Proofs/ArgTransfer.lean (suffix `_at`).

  `process_arg` parses the argument, renames every definition of it to the chosen full target path,
  prints it with `as_str()` (attributes level 0, width 79) and parses the concatenation.

  1. `process_arg_single`        one definition `src = ws` → the chain of scopes of the target path
                                 holding one definition with exactly the words `ws`;
     `process_arg_single_plain`  the same under the width-independent word condition;
     `process_arg_printed_form`  the same with the hypotheses on the argument in closed form
                                 (the argument is the text `src = w1 … wk`);
  2. `process_arg_as_from_file`  = parsing the file line `full.path = ws` (up to ids/positions);
     `process_arg_fits_is_file_parse`  lines of at most 77 columns: LITERALLY the parse of the file
                                 text (ids, positions, failures included), any words;
  3. `process_arg_many`, `process_arg_first_refusal`  several definitions in one argument;
  4. `fetch_of_args_is_fetch_of_list` (+ `fetch_args_split`, `process_args_then_fetch`);
  5. kernel-checked examples, replayed on the Python library (all agree).

  Domain of 1–3 (the domain of the closed print → parse theorems, Phil/Props/C01Nested.lean):
  the components of the target path are `goodName`s, the full path is not a reserved identifier
  (`__a.b__`), the words are `goodWord`s (quoted words of any content, plain unquoted words), there
  is at least one word, and `wrapOK 79 …` — the exact condition under which the value printed at
  width 79 is read back (finding D6: no continuation ` \` directly after a word containing a newline,
  no unquoted word directly after such a word); `∀ w ∈ ws.dropLast, '\n' ∉ w.value` suffices.
  The definition of the argument may carry attributes (they are not printed at level 0, hence
  dropped) unless it is `.deprecated` (then nothing is printed: see `deprecated_argument_has_no_effect`).
-/
import Phil.Proofs.ArgTransfer
import Phil.Props.C01RoundTrip
set_option linter.unusedSimpArgs false
set_option linter.unusedVariables false
namespace Phil.C14
open Phil

attribute [local instance] Phil.C01.objDecEqInst Phil.C01.exceptDecEqRT

/-- equality test on outcomes; used by the concrete examples only (`decide +kernel`) -/
local instance argOutcomeDecEq_at : DecidableEq ArgOutcome := fun a b =>
  match a, b with
  | .ok x, .ok y => if h : x = y then isTrue (by rw [h]) else isFalse (fun e => h (by cases e; rfl))
  | .sorry_ k p, .sorry_ k' p' =>
    if h : k = k' ∧ p = p' then isTrue (by rw [h.1, h.2])
    else isFalse (fun e => h (by cases e; exact ⟨rfl, rfl⟩))
  | .runtime x, .runtime y =>
    if h : x = y then isTrue (by rw [h]) else isFalse (fun e => h (by cases e; rfl))
  | .ok _, .sorry_ _ _ => isFalse (fun e => by cases e)
  | .ok _, .runtime _ => isFalse (fun e => by cases e)
  | .sorry_ _ _, .ok _ => isFalse (fun e => by cases e)
  | .sorry_ _ _, .runtime _ => isFalse (fun e => by cases e)
  | .runtime _, .ok _ => isFalse (fun e => by cases e)
  | .runtime _, .sorry_ _ _ => isFalse (fun e => by cases e)

/-! ### the tree a value ends up in

  `nestIn id b [m1, …, mk] x` (Phil/Proofs/DottedNames.lean) is `m1 { m2 { … mk { x } } }` as
  `scope.adopt` builds it for the dotted name `m1.….mk.x`: every scope holds exactly one object,
  `merge_names` is False for `m1` and True below.  `dottedName [m1, …, mk] nm` is `m1.….mk.nm`. -/

/-- the parameter `tms.tnm` holding exactly the words `ws` (values and quote kinds; no ids, no source
    positions): what the file line `tms.tnm = ws` means -/
def addressed_at (tms : List Str) (tnm : Str) (ws : List Word) : Obj :=
  nestIn none false tms (.defn { name := tnm, mergeNames := !tms.isEmpty } (ws.map Word.erase))

example : addressed_at ["refine".toList, "ncs".toList] "max".toList [{ value := ['3'], line := some 7 }]
    = .scope { name := "refine".toList }
        [.scope { name := "ncs".toList, mergeNames := true }
          [.defn { name := "max".toList, mergeNames := true } [{ value := ['3'] }]]] := by
  decide +kernel

/-- `addressed_at` is the erased chain of the lemma file -/
theorem addressed_eq_at (tms : List Str) (tnm : Str) (ws : List Word) :
    addressed_at tms tnm ws = (chainOf_at (tms, tnm, ws)).erase := by
  rw [chainOf_erase_at]; rfl

/-! ### 1. one definition -/

/-- **The value words reach the addressed parameter.**  Let the argument text parse, and let its
    parse hold exactly ONE active definition: `src = ws` (`src` its full dotted path inside the
    argument, `m` its object data — any id, any source position, any attributes but `.deprecated`).
    If the selection step chooses index `i` for `src` (with or without the expert-level warning),
    `targets[i]` is the dotted path `tms.tnm` of good components, and the words are good words
    satisfying the wrapping condition for width 79, then `process_arg` succeeds and its result is —
    up to ids and source positions — the single tree `addressed_at tms tnm ws`: the scopes of the
    target path nested in each other, holding one definition named by the last component with
    EXACTLY the words `ws` (values and quote kinds, in order).  All objects of the result carry
    `primary_id` 1. -/
theorem process_arg_single (home : Option Str) (targets : List Str) (experts : List Int) (arg : Str)
    (objs : List Obj) (src : Str) (m : Meta) (ws : List Word) (i : Nat) (wn : Bool)
    (tms : List Str) (tnm : Str)
    (hparse : parseObjs arg = .ok objs) (hone : allDefinitions objs = [(src, m, ws)])
    (hdep : (m.attrs.get "deprecated").truthy = false)
    (hch : choosePath home targets experts src = .chosen i wn)
    (htp : targets[i]? = some (dottedName tms tnm))
    (hpath : ∀ n ∈ tms, goodName n = true) (hname : goodName tnm = true)
    (hres : isReserved (dottedName tms tnm) = false)
    (hne : ws ≠ []) (hwords : ∀ x ∈ ws, goodWord x = true)
    (hwrap : wrapOK 79 (defIndent (dottedName tms tnm)) ws (defHead (dottedName tms tnm)) true = true) :
    ∃ r, processArg home targets experts arg = .ok r ∧
      eraseList r = [addressed_at tms tnm ws] ∧
      idsList r = List.replicate (tms.length + 1) (some 1) := by
  have hen : m.disabled = false :=
    allDefinitions_enabled_at objs (src, m, ws) (by rw [hone]; simp)
  exact processArg_single_at home targets experts arg objs (src, m, ws) (tms, tnm) hparse hone
    ⟨⟨i, wn, hch, htp⟩, hen, hdep, ⟨hpath, hname, hres, hne, hwords, hwrap⟩⟩

/-- the attribute-free, width-independent form: the definition of the argument carries no
    attributes, and only the LAST word may contain a newline character -/
theorem process_arg_single_plain (home : Option Str) (targets : List Str) (experts : List Int)
    (arg : Str) (objs : List Obj) (src : Str) (m : Meta) (ws : List Word) (i : Nat) (wn : Bool)
    (tms : List Str) (tnm : Str)
    (hparse : parseObjs arg = .ok objs) (hone : allDefinitions objs = [(src, m, ws)])
    (hattrs : m.attrs = [])
    (hch : choosePath home targets experts src = .chosen i wn)
    (htp : targets[i]? = some (dottedName tms tnm))
    (hpath : ∀ n ∈ tms, goodName n = true) (hname : goodName tnm = true)
    (hres : isReserved (dottedName tms tnm) = false)
    (hne : ws ≠ []) (hwords : ∀ x ∈ ws, goodWord x = true)
    (hnl : ∀ w ∈ ws.dropLast, '\n' ∉ w.value) :
    ∃ r, processArg home targets experts arg = .ok r ∧
      eraseList r = [addressed_at tms tnm ws] ∧
      idsList r = List.replicate (tms.length + 1) (some 1) :=
  process_arg_single home targets experts arg objs src m ws i wn tms tnm hparse hone
    (attrs_nil_notDeprecated_at m hattrs) hch htp hpath hname hres hne hwords
    (wrapOK_of_noNl 79 _ ws _ true (fun _ => rfl) (fun w hw => nlCount_of_not_mem (hnl w hw)))

/-- **The same with the argument in closed form.**  The argument is the text `src = w1 … wk`
    (one blank around `=` and between the words, a final newline: the printed form), `src` the dotted
    name `sms.snm` of good components; no hypothesis mentions the parser.  (Other spellings of the
    same definition — `max=3`, no final newline — are covered by `process_arg_single`; see the
    examples.) -/
theorem process_arg_printed_form (home : Option Str) (targets : List Str) (experts : List Int)
    (sms : List Str) (snm : Str) (ws : List Word) (i : Nat) (wn : Bool) (tms : List Str) (tnm : Str)
    (hspath : ∀ n ∈ sms, goodName n = true) (hsname : goodName snm = true)
    (hsres : isReserved (dottedName sms snm) = false)
    (hch : choosePath home targets experts (dottedName sms snm) = .chosen i wn)
    (htp : targets[i]? = some (dottedName tms tnm))
    (hpath : ∀ n ∈ tms, goodName n = true) (hname : goodName tnm = true)
    (hres : isReserved (dottedName tms tnm) = false)
    (hne : ws ≠ []) (hwords : ∀ x ∈ ws, goodWord x = true)
    (hwrap : wrapOK 79 (defIndent (dottedName tms tnm)) ws (defHead (dottedName tms tnm)) true = true) :
    ∃ r, processArg home targets experts
          (dottedName sms snm ++ " =".toList ++ wordsText ws ++ "\n".toList) = .ok r ∧
      eraseList r = [addressed_at tms tnm ws] ∧
      idsList r = List.replicate (tms.length + 1) (some 1) := by
  have hgood : ChainGood_at argWidth_at (tms, tnm, ws) := ⟨hpath, hname, hres, hne, hwords, hwrap⟩
  obtain ⟨objs, d, hparse, hone, hd1, hd2, hd3, hd4⟩ := allDefinitions_fileLine_at (sms, snm, ws)
    ⟨hspath, hsname, hsres, hne, hwords, hgood.toFile.chain⟩
  obtain ⟨r, hr, he, hi⟩ := processArg_single_at home targets experts _ objs d (tms, tnm) hparse hone
    ⟨⟨i, wn, by rw [hd1]; exact hch, htp⟩, hd2, attrs_nil_notDeprecated_at _ hd3,
      chainGood_congr_at hd4 hgood⟩
  refine ⟨r, hr, ?_, hi⟩
  rw [he, hd4]
  rfl

/-! ### 2. exactly as from a file -/

/-- **As from a file.**  In the setting of `process_arg_single`, the file line
    `full.target.path = w1 … wk` parses, and the result of `process_arg` and the parse of that file
    line are the same tree with the same ids; they can differ in source line numbers only (and only
    when `definition.show` wraps the value at width 79). -/
theorem process_arg_as_from_file (home : Option Str) (targets : List Str) (experts : List Int)
    (arg : Str) (objs : List Obj) (src : Str) (m : Meta) (ws : List Word) (i : Nat) (wn : Bool)
    (tms : List Str) (tnm : Str)
    (hparse : parseObjs arg = .ok objs) (hone : allDefinitions objs = [(src, m, ws)])
    (hdep : (m.attrs.get "deprecated").truthy = false)
    (hch : choosePath home targets experts src = .chosen i wn)
    (htp : targets[i]? = some (dottedName tms tnm))
    (hpath : ∀ n ∈ tms, goodName n = true) (hname : goodName tnm = true)
    (hres : isReserved (dottedName tms tnm) = false)
    (hne : ws ≠ []) (hwords : ∀ x ∈ ws, goodWord x = true)
    (hwrap : wrapOK 79 (defIndent (dottedName tms tnm)) ws (defHead (dottedName tms tnm)) true = true) :
    ∃ r f, processArg home targets experts arg = .ok r ∧
      parseObjs (dottedName tms tnm ++ " =".toList ++ wordsText ws ++ "\n".toList) = .ok f ∧
      eraseList r = eraseList f ∧ idsList r = idsList f := by
  obtain ⟨r, hr, he, hi⟩ := process_arg_single home targets experts arg objs src m ws i wn tms tnm
    hparse hone hdep hch htp hpath hname hres hne hwords hwrap
  have hgood : ChainGood_at argWidth_at (tms, tnm, ws) := ⟨hpath, hname, hres, hne, hwords, hwrap⟩
  obtain ⟨f, hf, hef, hif⟩ := parse_fileLines_at [(tms, tnm, ws)] (by
    intro c hc; rw [List.mem_singleton.mp hc]; exact hgood.toFile)
  simp only [List.flatMap_cons, List.flatMap_nil, List.append_nil] at hf
  refine ⟨r, f, hr, hf, ?_, ?_⟩
  · rw [he, hef, List.map_cons, List.map_nil, eraseList_cons, eraseList_nil, addressed_eq_at]
  · rw [hi, hif]
    exact (expIdsSeq_single_chain_at (tms, tnm, ws)).symm

/-- **Lines that fit: literally the parse of the file text.**  Let the parse of the argument hold the
    active definitions `d1 … dn` (n ≥ 1), each addressed by the selection step to a target path `tp_k`
    (ANY string but `include`), none `.deprecated`, and let every line `tp_k = words_k` have at most
    77 characters (so `definition.show` wraps nothing at the default width 79).  Then the outcome of
    `process_arg` IS the outcome of parsing the file text consisting of the lines `tp_k = words_k`:
    the same objects with the same ids and source positions if it parses, the same RuntimeError if
    it does not.  No hypothesis on the words or on the target paths. -/
theorem process_arg_fits_is_file_parse (home : Option Str) (targets : List Str) (experts : List Int)
    (arg : Str) (objs : List Obj) (dts : List (ArgDef_at × Str)) (hne : dts ≠ [])
    (hparse : parseObjs arg = .ok objs) (hdefs : allDefinitions objs = dts.map (·.1))
    (hchosen : ∀ p ∈ dts, ∃ i wn, choosePath home targets experts p.1.1 = .chosen i wn ∧
      targets[i]? = some p.2)
    (hdep : ∀ p ∈ dts, (p.1.2.1.attrs.get "deprecated").truthy = false)
    (hinc : ∀ p ∈ dts, p.2 ≠ "include".toList)
    (hfit : ∀ p ∈ dts, (p.2 ++ " =".toList ++ wordsText p.1.2.2).length ≤ 77) :
    processArg home targets experts arg =
      match parseObjs (dts.flatMap (fun p => p.2 ++ " =".toList ++ wordsText p.1.2.2 ++ "\n".toList)) with
      | .ok r => .ok r
      | .error e => .runtime e :=
  processArg_fits_at home targets experts arg objs dts hne hparse hdefs (fun p hp =>
    ⟨hchosen p hp,
     allDefinitions_enabled_at objs p.1 (by rw [hdefs]; exact List.mem_map_of_mem hp),
     hdep p hp, hinc p hp, by have := hfit p hp; exact Int.ofNat_le.mpr this⟩)

/-! ### 3. several definitions in one argument -/

/-- **An argument with several definitions** (`a=1;b=2`).  Let the parse of the argument hold the
    active definitions `d1 … dn` (n ≥ 1, `dts` pairs each with its target `(scopes, name)`), each
    transferred (`Transfers_at`: chosen by the selection step independently of the others, not
    `.deprecated`, good target components, good words, wrapping condition).  Then `process_arg`
    succeeds; its result is, up to ids and source positions, the list of the trees
    `addressed_at target_k words_k` in the order of the definitions; and for ANY individual
    arguments `a1 … an` whose parses hold the one definition `d'_k` with the words of `d_k` (up to
    source lines) transferred to the same target, the results `r1 … rn` of the individual arguments
    exist and the joint result is their concatenation `r1 ++ … ++ rn` (up to ids and positions: the
    individual results all carry id 1, the joint result the ids 1 … n). -/
theorem process_arg_many (home : Option Str) (targets : List Str) (experts : List Int) (arg : Str)
    (objs : List Obj) (dts : List (ArgDef_at × (List Str × Str))) (hne : dts ≠ [])
    (hparse : parseObjs arg = .ok objs) (hdefs : allDefinitions objs = dts.map (·.1))
    (h : ∀ p ∈ dts, Transfers_at home targets experts p.1 p.2) :
    ∃ r, processArg home targets experts arg = .ok r ∧
      eraseList r = dts.map (fun p => addressed_at p.2.1 p.2.2 p.1.2.2) ∧
      ∀ args : List Str,
        ListRel_at (fun (a : Str) (p : ArgDef_at × (List Str × Str)) =>
          ∃ o d', parseObjs a = .ok o ∧ allDefinitions o = [d'] ∧
            Transfers_at home targets experts d' p.2 ∧
            d'.2.2.map Word.erase = p.1.2.2.map Word.erase) args dts →
        ∃ rs, ListRel_at (fun a rk => processArg home targets experts a = .ok rk) args rs ∧
          eraseList r = eraseList rs.flatten := by
  obtain ⟨r, hr, he, _⟩ := processDefs_transfer_at home targets experts dts hne h
  refine ⟨r, ?_, ?_, ?_⟩
  · rw [processArg_eq_at, hparse]
    dsimp only
    rw [hdefs]
    exact hr
  · rw [he, eraseList_eq_map, List.map_map, List.map_map]
    apply List.map_congr_left
    intro p _
    exact (addressed_eq_at p.2.1 p.2.2 p.1.2.2).symm
  · intro args hF
    obtain ⟨rs, hrs, hers⟩ := processArg_individual_at home targets experts args dts hF
    exact ⟨rs, hrs, by rw [he, hers]⟩

/-- **The first refusal wins.**  If the definitions of the argument are `pre ++ d :: post`, every
    definition of `pre` is accepted by the selection step, and `d` is refused — unknown, or
    ambiguous with the best indices `best` — the whole argument is refused with that refusal,
    whatever `post` holds. -/
theorem process_arg_first_refusal (home : Option Str) (targets : List Str) (experts : List Int)
    (arg : Str) (objs : List Obj) (pre post : List ArgDef_at) (d : ArgDef_at)
    (hparse : parseObjs arg = .ok objs) (hdefs : allDefinitions objs = pre ++ d :: post)
    (hpre : ∀ x ∈ pre, ∃ i wn, choosePath home targets experts x.1 = .chosen i wn) :
    (choosePath home targets experts d.1 = .unknown →
      processArg home targets experts arg = .sorry_ "unknown" []) ∧
    (∀ best, choosePath home targets experts d.1 = .ambiguous best →
      processArg home targets experts arg = .sorry_ "ambiguous" (best.filterMap (targets[·]?))) := by
  have hacc : ∀ x ∈ pre, ∃ t, argDefnText_at home targets experts x = .ok t := by
    intro x hx
    obtain ⟨i, wn, hc⟩ := hpre x hx
    exact argDefnText_ok_of_chosen_at home targets experts x i wn hc
  have key : ∀ out, argDefnText_at home targets experts d = .error out →
      processArg home targets experts arg = out := by
    intro out hout
    rw [processArg_eq_at, hparse]
    dsimp only
    rw [hdefs]
    exact processDefs_refusal_at home targets experts pre post d out hacc hout
  constructor
  · intro hu
    apply key
    unfold argDefnText_at
    rw [hu]
  · intro best hb
    apply key
    unfold argDefnText_at
    rw [hb]

/-! ### 4. processing a list of arguments and fetching

  `process(args=[a1, …, an])` interprets the arguments one by one (`process_args`; for plain
  `name=value` arguments it is `process_arg` of each) and returns the list of results;
  `master.fetch(sources=[r1, …, rn])` is `fetchRoot e diff master [r1, …, rn]` on the lists of
  top-level objects. -/

/-- `process_args` on plain `name=value` arguments: the results in order, or the first refusal -/
def processArgList_at (home : Option Str) (targets : List Str) (experts : List Int) :
    List Str → Except ArgOutcome (List (List Obj))
  | [] => .ok []
  | a :: as =>
    match processArg home targets experts a with
    | .ok r =>
      (match processArgList_at home targets experts as with
       | .ok rs => .ok (r :: rs)
       | .error out => .error out)
    | out => .error out

/-- **Fetching the results of a list of arguments = fetching their concatenation.**  The fetch of the
    sources `[r1, …, rn]` (the interpreted arguments, in order) equals the fetch of the ONE source
    `r1 ++ … ++ rn`: the same result, the same consumed definitions, the same error if any. -/
theorem fetch_of_args_is_fetch_of_list (e : Envs) (diff : Bool) (master : List Obj)
    (rs : List (List Obj)) :
    fetchRoot e diff master rs = fetchRoot e diff master [rs.flatten] :=
  fetchRoot_flatten e diff master _ _ (by simp)

/-- the split law (`Phil.C05.split_law`) for argument results: the arguments may be grouped in any
    way — all sources, two groups, one source — without changing the fetch -/
theorem fetch_args_split (e : Envs) (diff : Bool) (master : List Obj) (rs1 rs2 : List (List Obj)) :
    fetchRoot e diff master (rs1 ++ rs2) = fetchRoot e diff master [rs1.flatten, rs2.flatten] ∧
    fetchRoot e diff master [rs1.flatten, rs2.flatten]
      = fetchRoot e diff master [rs1.flatten ++ rs2.flatten] :=
  ⟨fetchRoot_flatten e diff master _ _ (by simp), (split_law e diff master _ _).symm⟩

/-- one more argument: fetching `r :: rs` is fetching the two sources `r` and `rs` concatenated -/
theorem fetch_args_cons (e : Envs) (diff : Bool) (master : List Obj) (r : List Obj)
    (rs : List (List Obj)) :
    fetchRoot e diff master (r :: rs) = fetchRoot e diff master [r, rs.flatten] :=
  fetchRoot_flatten e diff master _ _ (by simp)

/-- **Processing a list and fetching.**  When the list of arguments is interpreted successfully, its
    results are the results of the individual arguments in order, and fetching them (as the list of
    sources `process` returns) equals fetching the concatenation of the interpreted arguments. -/
theorem process_args_then_fetch (home : Option Str) (targets : List Str) (experts : List Int)
    (args : List Str) (rs : List (List Obj))
    (h : processArgList_at home targets experts args = .ok rs) (e : Envs) (diff : Bool)
    (master : List Obj) :
    ListRel_at (fun a r => processArg home targets experts a = .ok r) args rs ∧
    fetchRoot e diff master rs = fetchRoot e diff master [rs.flatten] := by
  refine ⟨?_, fetch_of_args_is_fetch_of_list e diff master rs⟩
  induction args generalizing rs with
  | nil =>
    rw [processArgList_at] at h
    cases h
    exact .nil
  | cons a as ih =>
    rw [processArgList_at] at h
    cases ha : processArg home targets experts a with
    | ok r =>
      rw [ha] at h
      dsimp only at h
      cases has : processArgList_at home targets experts as with
      | ok rs' =>
        rw [has] at h
        cases h
        exact .cons ha (ih rs' has)
      | error out => rw [has] at h; cases h
    | sorry_ k p => rw [ha] at h; cases h
    | runtime x => rw [ha] at h; cases h

/-! ### 5. examples (kernel-checked; every one replayed on the Python library, which agrees)

  Master `refine { ncs { max = None } max_cycles = None } out { max = None }`, i.e. the parameter paths
  `refine.ncs.max`, `refine.max_cycles`, `out.max`; home scope `refine`.  Python:
  `master.command_line_argument_interpreter(home_scope="refine").process(arg=…)` — the same trees
  (names, `merge_names`, words, quote kinds, `primary_id`s, line numbers), the same refusals. -/

/-- the master of the examples -/
def exMasterText_at : Str :=
  "refine {\n  ncs {\n    max = None\n  }\n  max_cycles = None\n}\nout {\n  max = None\n}\n".toList

def exMaster_at : List Obj :=
  match parseObjs exMasterText_at with
  | .ok objs => objs
  | .error _ => []

/-- its parameter paths, home scope `refine` -/
def exTargets_at : List Str :=
  ["refine.ncs.max".toList, "refine.max_cycles".toList, "out.max".toList]
def exHome_at : Option Str := some "refine".toList

/-- the target paths and expert levels `process_arg` computes from the master -/
example : targetEntries exMaster_at (expertLevels exMaster_at)
    = [("refine.ncs.max".toList, 0), ("refine.max_cycles".toList, 0), ("out.max".toList, 0)] := by
  decide +kernel

example : processArg exHome_at exTargets_at [0, 0, 0] "max=3".toList
    = .ok [.scope { name := "refine".toList, id := some 1 }
        [.scope { name := "ncs".toList, id := some 1, mergeNames := true }
          [.defn { name := "max".toList, id := some 1, line := some 1, mergeNames := true }
            [{ value := ['3'], line := some 1 }]]]] := by decide +kernel

example : processArg exHome_at exTargets_at [0, 0, 0] "ncs.max = \"a b\" c".toList
    = .ok [.scope { name := "refine".toList, id := some 1 }
        [.scope { name := "ncs".toList, id := some 1, mergeNames := true }
          [.defn { name := "max".toList, id := some 1, line := some 1, mergeNames := true }
            [{ value := "a b".toList, quote := some .d1, line := some 1 },
             { value := ['c'], line := some 1 }]]]] := by decide +kernel

example : processArg exHome_at exTargets_at [0, 0, 0] "out.max=1;max_cycles=2".toList
    = .ok [.scope { name := "out".toList, id := some 1 }
          [.defn { name := "max".toList, id := some 1, line := some 1, mergeNames := true }
            [{ value := ['1'], line := some 1 }]],
        .scope { name := "refine".toList, id := some 2 }
          [.defn { name := "max_cycles".toList, id := some 2, line := some 2, mergeNames := true }
            [{ value := ['2'], line := some 2 }]]] := by decide +kernel

example : processArg exHome_at exTargets_at [0, 0, 0] "m=1".toList
    = .sorry_ "ambiguous" ["refine.ncs.max".toList, "refine.max_cycles".toList] := by decide +kernel
example : processArg none exTargets_at [0, 0, 0] "max=3".toList
    = .sorry_ "ambiguous" ["refine.ncs.max".toList, "out.max".toList] := by decide +kernel
example : processArg exHome_at exTargets_at [0, 0, 0] "foo=1".toList = .sorry_ "unknown" [] := by
  decide +kernel
example : processArg exHome_at exTargets_at [0, 0, 0] "max=1;foo=2;m=3".toList
    = .sorry_ "unknown" [] := by decide +kernel
example : processArg exHome_at exTargets_at [0, 0, 0] "max=1;m=3;foo=2".toList
    = .sorry_ "ambiguous" ["refine.ncs.max".toList, "refine.max_cycles".toList] := by decide +kernel
theorem deprecated_argument_has_no_effect :
    processArg exHome_at exTargets_at [0, 0, 0] "max=3\n.deprecated=True".toList
      = .sorry_ "no_effect" [] := by decide +kernel
example : processArg exHome_at exTargets_at [0, 0, 0] "max=3\n.help=hello".toList
    = processArg exHome_at exTargets_at [0, 0, 0] "max=3".toList := by decide +kernel

/-- the result of an argument of the examples -/
def exResult_at (a : String) : List Obj :=
  match processArg exHome_at exTargets_at [0, 0, 0] a.toList with
  | .ok r => r
  | _ => []

example : (match fetchRoot envNone false exMaster_at
      [exResult_at "max=3", exResult_at "ncs.max = \"a b\" c", exResult_at "out.max=1;max_cycles=2"] with
    | .ok (ro, _) => asStr {} ro
    | .error e => .error e)
    = .ok ("refine {\n  ncs {\n    max = \"a b\" c\n  }\n  max_cycles = 2\n}\nout {\n  max = 1\n}\n").toList := by
  decide +kernel

/-! ### the examples through the theorems (non-vacuity) -/

/-- non-vacuity of `process_arg_single`: `max=3` (home scope `refine`) -/
example : ∃ r, processArg exHome_at exTargets_at [0, 0, 0] "max=3".toList = .ok r ∧
    eraseList r = [.scope { name := "refine".toList }
        [.scope { name := "ncs".toList, mergeNames := true }
          [.defn { name := "max".toList, mergeNames := true } [{ value := ['3'] }]]]] ∧
    idsList r = [some 1, some 1, some 1] := by
  obtain ⟨r, h1, h2, h3⟩ := process_arg_single exHome_at exTargets_at [0, 0, 0] "max=3".toList
    [.defn { name := "max".toList, id := some 1, line := some 1 } [{ value := ['3'], line := some 1 }]]
    "max".toList { name := "max".toList, id := some 1, line := some 1 }
    [{ value := ['3'], line := some 1 }] 0 false ["refine".toList, "ncs".toList] "max".toList
    (by decide +kernel) (by decide +kernel) (by decide +kernel) (by decide +kernel) (by decide +kernel)
    (by decide +kernel) (by decide +kernel) (by decide +kernel) (by simp) (by decide +kernel)
    (by decide +kernel)
  exact ⟨r, h1, h2.trans (by decide +kernel), h3⟩

/-- non-vacuity of `process_arg_printed_form`: `ncs.max = "a b" c` -/
example : ∃ r, processArg exHome_at exTargets_at [0, 0, 0] "ncs.max = \"a b\" c\n".toList = .ok r ∧
    eraseList r = [.scope { name := "refine".toList }
        [.scope { name := "ncs".toList, mergeNames := true }
          [.defn { name := "max".toList, mergeNames := true }
            [{ value := "a b".toList, quote := some .d1 }, { value := ['c'] }]]]] := by
  obtain ⟨r, h1, h2, _⟩ := process_arg_printed_form exHome_at exTargets_at [0, 0, 0]
    ["ncs".toList] "max".toList [{ value := "a b".toList, quote := some .d1 }, { value := ['c'] }]
    0 false ["refine".toList, "ncs".toList] "max".toList
    (by decide +kernel) (by decide +kernel) (by decide +kernel) (by decide +kernel) (by decide +kernel)
    (by decide +kernel) (by decide +kernel) (by decide +kernel) (by simp) (by decide +kernel)
    (by decide +kernel)
  have e : dottedName ["ncs".toList] "max".toList ++ " =".toList ++
      wordsText [{ value := "a b".toList, quote := some .d1 }, { value := ['c'] }] ++ "\n".toList
      = "ncs.max = \"a b\" c\n".toList := by decide +kernel
  rw [e] at h1
  exact ⟨r, h1, h2.trans (by decide +kernel)⟩

/-- non-vacuity of `process_arg_as_from_file`: the result of `max=3` against the file line
    `refine.ncs.max = 3` -/
example : ∃ r f, processArg exHome_at exTargets_at [0, 0, 0] "max=3".toList = .ok r ∧
    parseObjs "refine.ncs.max = 3\n".toList = .ok f ∧ eraseList r = eraseList f ∧ idsList r = idsList f := by
  obtain ⟨r, f, h1, h2, h3, h4⟩ := process_arg_as_from_file exHome_at exTargets_at [0, 0, 0]
    "max=3".toList
    [.defn { name := "max".toList, id := some 1, line := some 1 } [{ value := ['3'], line := some 1 }]]
    "max".toList { name := "max".toList, id := some 1, line := some 1 }
    [{ value := ['3'], line := some 1 }] 0 false ["refine".toList, "ncs".toList] "max".toList
    (by decide +kernel) (by decide +kernel) (by decide +kernel) (by decide +kernel) (by decide +kernel)
    (by decide +kernel) (by decide +kernel) (by decide +kernel) (by simp) (by decide +kernel)
    (by decide +kernel)
  have e : dottedName ["refine".toList, "ncs".toList] "max".toList ++ " =".toList ++
      wordsText [{ value := ['3'], line := some 1 }] ++ "\n".toList = "refine.ncs.max = 3\n".toList := by
    decide +kernel
  rw [e] at h2
  exact ⟨r, f, h1, h2, h3, h4⟩

/-- the two definitions of `out.max=1;max_cycles=2`, each with its target -/
def exD1_at : ArgDef_at × (List Str × Str) :=
  (("out.max".toList, { name := "max".toList, id := some 1, line := some 1, mergeNames := true },
      [{ value := ['1'], line := some 1 }]), (["out".toList], "max".toList))
def exD2_at : ArgDef_at × (List Str × Str) :=
  (("max_cycles".toList, { name := "max_cycles".toList, id := some 2, line := some 1 },
      [{ value := ['2'], line := some 1 }]), (["refine".toList], "max_cycles".toList))

theorem exD1_transfers_at : Transfers_at exHome_at exTargets_at [0, 0, 0] exD1_at.1 exD1_at.2 :=
  ⟨⟨2, false, by decide +kernel, by decide +kernel⟩, rfl, rfl,
    ⟨show ∀ n ∈ ["out".toList], goodName n = true by decide +kernel, by decide +kernel,
     by decide +kernel, by simp [exD1_at], by decide +kernel, by decide +kernel⟩⟩

/-- (the same holds whatever id and source line the parser gave the definition) -/
theorem exD2_transfers_at (i l : Option Nat) : Transfers_at exHome_at exTargets_at [0, 0, 0]
    ("max_cycles".toList, { name := "max_cycles".toList, id := i, line := l },
      [{ value := ['2'], line := some 1 }]) exD2_at.2 :=
  ⟨⟨1, false,
      show choosePath exHome_at exTargets_at [0, 0, 0] "max_cycles".toList = .chosen 1 false by
        decide +kernel,
      by decide +kernel⟩, rfl, rfl,
    ⟨show ∀ n ∈ ["refine".toList], goodName n = true by decide +kernel,
     show goodName "max_cycles".toList = true by decide +kernel,
     show isReserved (dottedName ["refine".toList] "max_cycles".toList) = false by decide +kernel,
     by simp,
     show ∀ x ∈ [({ value := ['2'], line := some 1 } : Word)], goodWord x = true by decide +kernel,
     show wrapOK 79 (defIndent (dottedName ["refine".toList] "max_cycles".toList))
       [{ value := ['2'], line := some 1 }]
       (defHead (dottedName ["refine".toList] "max_cycles".toList)) true = true by decide +kernel⟩⟩

/-- non-vacuity of `process_arg_many`: `out.max=1;max_cycles=2` against `out.max=1` and
    `max_cycles=2` -/
example : ∃ r r1 r2, processArg exHome_at exTargets_at [0, 0, 0] "out.max=1;max_cycles=2".toList = .ok r ∧
    processArg exHome_at exTargets_at [0, 0, 0] "out.max=1".toList = .ok r1 ∧
    processArg exHome_at exTargets_at [0, 0, 0] "max_cycles=2".toList = .ok r2 ∧
    eraseList r = eraseList (r1 ++ r2) ∧
    eraseList r = [.scope { name := "out".toList }
                     [.defn { name := "max".toList, mergeNames := true } [{ value := ['1'] }]],
                   .scope { name := "refine".toList }
                     [.defn { name := "max_cycles".toList, mergeNames := true } [{ value := ['2'] }]]] := by
  obtain ⟨r, h1, h2, h3⟩ := process_arg_many exHome_at exTargets_at [0, 0, 0]
    "out.max=1;max_cycles=2".toList
    [.scope { name := "out".toList, id := some 1 }
       [.defn { name := "max".toList, id := some 1, line := some 1, mergeNames := true }
          [{ value := ['1'], line := some 1 }]],
     .defn { name := "max_cycles".toList, id := some 2, line := some 1 } [{ value := ['2'], line := some 1 }]]
    [exD1_at, exD2_at] (by simp) (by decide +kernel) (by decide +kernel) (by
      intro p hp
      simp only [List.mem_cons, List.not_mem_nil, or_false] at hp
      rcases hp with rfl | rfl
      · exact exD1_transfers_at
      · exact exD2_transfers_at _ _)
  obtain ⟨rs, hrs, he⟩ := h3 ["out.max=1".toList, "max_cycles=2".toList]
    (.cons ⟨[.scope { name := "out".toList, id := some 1 }
               [.defn { name := "max".toList, id := some 1, line := some 1, mergeNames := true }
                  [{ value := ['1'], line := some 1 }]]],
            exD1_at.1, by decide +kernel, by decide +kernel, exD1_transfers_at, rfl⟩
      (.cons ⟨[.defn { name := "max_cycles".toList, id := some 1, line := some 1 }
                 [{ value := ['2'], line := some 1 }]],
              ("max_cycles".toList, { name := "max_cycles".toList, id := some 1, line := some 1 },
                [{ value := ['2'], line := some 1 }]),
              by decide +kernel, by decide +kernel, exD2_transfers_at _ _, rfl⟩ .nil))
  cases hrs with
  | cons ha hrest =>
    cases hrest with
    | cons hb hnil =>
      cases hnil
      rename_i r1 r2
      refine ⟨r, r1, r2, h1, ha, hb, ?_, h2.trans (by decide +kernel)⟩
      rw [he]
      simp

/-- non-vacuity of `process_arg_first_refusal`: in `max=1;foo=2;m=3` the unknown `foo` refuses the
    argument (the ambiguous `m` after it is never looked at) -/
example : processArg exHome_at exTargets_at [0, 0, 0] "max=1;foo=2;m=3".toList = .sorry_ "unknown" [] :=
  (process_arg_first_refusal exHome_at exTargets_at [0, 0, 0] "max=1;foo=2;m=3".toList
    [.defn { name := "max".toList, id := some 1, line := some 1 } [{ value := ['1'], line := some 1 }],
     .defn { name := "foo".toList, id := some 2, line := some 1 } [{ value := ['2'], line := some 1 }],
     .defn { name := "m".toList, id := some 3, line := some 1 } [{ value := ['3'], line := some 1 }]]
    [("max".toList, { name := "max".toList, id := some 1, line := some 1 }, [{ value := ['1'], line := some 1 }])]
    [("m".toList, { name := "m".toList, id := some 3, line := some 1 }, [{ value := ['3'], line := some 1 }])]
    ("foo".toList, { name := "foo".toList, id := some 2, line := some 1 }, [{ value := ['2'], line := some 1 }])
    (by decide +kernel) (by decide +kernel)
    (by intro x hx; rw [List.mem_singleton.mp hx]; exact ⟨0, false, by decide +kernel⟩)).1
    (by decide +kernel)

/-- non-vacuity of `process_arg_fits_is_file_parse`: `max=3` is, literally, the parse of the file line
    `refine.ncs.max = 3` -/
example : processArg exHome_at exTargets_at [0, 0, 0] "max=3".toList
    = (match parseObjs "refine.ncs.max = 3\n".toList with
       | .ok r => .ok r
       | .error e => .runtime e) :=
  process_arg_fits_is_file_parse exHome_at exTargets_at [0, 0, 0] "max=3".toList
    [.defn { name := "max".toList, id := some 1, line := some 1 } [{ value := ['3'], line := some 1 }]]
    [(("max".toList, { name := "max".toList, id := some 1, line := some 1 },
        [{ value := ['3'], line := some 1 }]), "refine.ncs.max".toList)]
    (by simp) (by decide +kernel) (by decide +kernel)
    (by intro p hp; rw [List.mem_singleton.mp hp]; exact ⟨0, false, by decide +kernel, by decide +kernel⟩)
    (by intro p hp; rw [List.mem_singleton.mp hp]; rfl)
    (by intro p hp; rw [List.mem_singleton.mp hp]; decide +kernel)
    (by intro p hp; rw [List.mem_singleton.mp hp]; decide +kernel)

/-! ### the wrapping hypothesis is necessary -/

/-- 70 times `z` -/
def exLong_at : Str := List.replicate 70 'z'

/-- **An argument that parses, addresses a parameter, and still fails (finding D6 reached through
    `process_arg`).**  `max = "y⏎z" "zzz…z"` (a quoted word containing a newline, then a long quoted
    word) parses, and `max` addresses `refine.ncs.max`; but the re-rendered line
    `refine.ncs.max = "y⏎z" "zzz…z"` is longer than 77 columns, `definition.show` wraps in front of the
    last word, the continuation ` \` follows a word containing a newline, and the text
    `complete_definitions` does not parse: `process_arg` raises RuntimeError (not Sorry) —
    Python: `Syntax error: improper definition name "\" (command line argument, line 2)`.
    `wrapOK 79 …` — the hypothesis of `process_arg_single` — is false here. -/
theorem wrapped_argument_fails_at :
    (∃ objs, parseObjs ("max = \"y\nz\" \"".toList ++ exLong_at ++ "\"".toList) = .ok objs) ∧
    processArg exHome_at exTargets_at [0, 0, 0] ("max = \"y\nz\" \"".toList ++ exLong_at ++ "\"".toList)
      = .runtime (.runtime "improper_definition_name" (some 2)) ∧
    wrapOK 79 (defIndent "refine.ncs.max".toList)
      [{ value := "y\nz".toList, quote := some .d1 }, { value := exLong_at, quote := some .d1 }]
      (defHead "refine.ncs.max".toList) true = false := by
  refine ⟨?_, by decide +kernel, by decide +kernel⟩
  have : (match parseObjs ("max = \"y\nz\" \"".toList ++ exLong_at ++ "\"".toList) with
      | .ok _ => true | .error _ => false) = true := by decide +kernel
  split at this
  · exact ⟨_, by assumption⟩
  · cases this

#print axioms addressed_eq_at
#print axioms process_arg_single
#print axioms process_arg_single_plain
#print axioms process_arg_printed_form
#print axioms process_arg_as_from_file
#print axioms process_arg_fits_is_file_parse
#print axioms process_arg_many
#print axioms process_arg_first_refusal
#print axioms fetch_of_args_is_fetch_of_list
#print axioms fetch_args_split
#print axioms fetch_args_cons
#print axioms process_args_then_fetch
#print axioms deprecated_argument_has_no_effect
#print axioms exD1_transfers_at
#print axioms exD2_transfers_at
#print axioms wrapped_argument_fails_at

end Phil.C14
