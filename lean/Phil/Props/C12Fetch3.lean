/-
  C12 / C08 / C06 — `$variables` in DIFF mode: the fetch-level closed form of `fetch_diff`
  (`scope.fetch(diff=True)`) on sources with variables.  Property theorems only; the lemmas are in
  Phil/Proofs/FetchVars3.lean.  Continues Phil/Props/C12Fetch2.lean §4 (which had the one-step statements
  `diff_mode_keeps_undefined`, `diff_mode_instances` only).

  `treeDiffFetch e sm master S`: the error of the first offending source object in MASTER order — the
  `resolve_variables` error recorded at a matching definition, or "incompatible" for a clash of kinds —
  else the difference `treeDiff e master S` (Phil/Proofs/DiffTree.lean, the specification behind C08),
  computed from the RESOLVED words, with the consumed ids `treeUsed master S`.
  `denoteDoc env true doc`: the document in which every definition carries its diff-mode denotation
  `denote env doc pos true` (a variable of its own words that no earlier definition defines stands for
  the word `"$name"`; inside referenced definitions the environment is consulted as usual).
  Validation: 400 random source texts (helpers, references, chains, `$(s.b)`, undefined variables,
  self-references, single-quoted `$`, references to scopes, clashes of kinds) against the master
  `a = 1 ; s { b = 2 ; c = 3 }`: `treeDiffFetch` on the denoted document = Python `master.fetch_diff`
  (printed difference, or the error with its line) in all 400 cases, 160 of them errors.
-/
import Phil.Proofs.FetchVars3
import Phil.Props.C12Fetch2
import Phil.Props.C08Tree
set_option linter.unusedVariables false
namespace Phil.C12Fetch3
open Phil Phil.C12 Phil.C12Fetch Phil.C12Fetch2

/-! ## 1. the closed form -/

/-- **`fetch_diff` on ANY annotated sources** (no hypothesis that the source definitions resolve): for a
    nested master whose definitions may be `.multiple` (`TreeMultiMaster`; every `TreeMaster` is one),
    fuel beyond the nesting depth plus one, named source scopes (true of parser outputs) and defined
    keys, `fetchScope … diff=true …` is `treeDiffFetch`.  The diff analogue of `fetch_tree_vars_total`;
    `diff_tree_total` (C08) is the special case of sources whose definitions all resolve
    (`agrees_with_diff_tree_total`). -/
theorem fetch_diff_any_sources (e : Envs) (fuel : Nat) (sm : Meta) (mkids srcs : List Obj)
    (hf : TreeMultiMaster mkids) (hfuel : depthL mkids + 1 < fuel) (hsd : sm.disabled = false)
    (hsrc : ScopesNamed srcs) (hkeys : KeysAll_dt e mkids srcs) :
    fetchScope e fuel true sm mkids srcs = treeDiffFetch e sm mkids srcs :=
  diff_tree_vars_total e fuel sm mkids srcs hf hfuel hsd hsrc hkeys

/-- the same on the plain class `TreeMaster` of `fetch_tree_vars_total` -/
theorem fetch_diff_any_sources_plain (e : Envs) (fuel : Nat) (sm : Meta) (mkids srcs : List Obj)
    (hf : TreeMaster mkids) (hfuel : depthL mkids + 1 < fuel) (hsd : sm.disabled = false)
    (hsrc : ScopesNamed srcs) (hkeys : KeysAll_dt e mkids srcs) :
    fetchScope e fuel true sm mkids srcs = treeDiffFetch e sm mkids srcs :=
  diff_tree_vars_total e fuel sm mkids srcs hf.toMulti hfuel hsd hsrc hkeys

/-- on sources whose definitions all resolve (`SrcTree`) the closed form is the one of C08 -/
theorem agrees_with_diff_tree_total (e : Envs) (sm : Meta) (mkids srcs : List Obj) (hs : SrcTree srcs) :
    treeDiffFetch e sm mkids srcs =
      if noClash mkids srcs then .ok (.scope { sm with tmpl := 0 } (treeDiff e mkids srcs), treeUsed mkids srcs)
      else .error incompatibleErr :=
  treeDiffFetch_of_srcTree_fv3 e sm mkids srcs hs

/-- **`master.fetch_diff(sources)` with `$variables`**: the difference of the documents pre-resolved in
    diff mode (what the library computes lazily) is `treeDiffFetch` on the DENOTED documents. -/
theorem fetch_diff_with_variables (e : Envs) (env : Env) (master : List Obj) (docs : List (List Obj))
    (hf : TreeMultiMaster master) (hd : depthL master ≤ 1000) (hdocs : ∀ d ∈ docs, DocIds d)
    (hnamed : ScopesNamed docs.flatten)
    (hkeys : KeysAll_dt e master (docs.map (denoteDoc env true)).flatten) :
    fetchRoot e true master (docs.map (preResolve env true)) =
      treeDiffFetch e { name := [], id := some 0 } master (docs.map (denoteDoc env true)).flatten :=
  fetchRoot_diff_preResolved_fv3 e env master docs hf hd hdocs hnamed hkeys

/-- … for PARSED source texts: hypotheses left are the master class and the keys -/
theorem fetch_diff_with_variables_of_texts (e : Envs) (env : Env) (master : List Obj) (texts : List Str)
    (docs : List (List Obj)) (hp : texts.mapM parseObjs = .ok docs)
    (hf : TreeMultiMaster master) (hd : depthL master ≤ 1000)
    (hkeys : KeysAll_dt e master (docs.map (denoteDoc env true)).flatten) :
    fetchRoot e true master (docs.map (preResolve env true)) =
      treeDiffFetch e { name := [], id := some 0 } master (docs.map (denoteDoc env true)).flatten :=
  have hw := parsed_docs_wellformed texts docs hp
  fetchRoot_diff_preResolved_fv3 e env master docs hf hd hw.1 hw.2.2 hkeys

/-! ## 2. consequences: C12 (errors), C08 (the difference), C06 (consumed ids) -/

/-- **the error of a failing difference** is the first error in master order among the source objects
    matching master objects: a definition whose diff-mode resolution raised (recorded by the
    denotation), or a clash of kinds -/
theorem fetch_diff_error (e : Envs) (env : Env) (master : List Obj) (docs : List (List Obj))
    (hf : TreeMultiMaster master) (hd : depthL master ≤ 1000) (hdocs : ∀ d ∈ docs, DocIds d)
    (hnamed : ScopesNamed docs.flatten)
    (hkeys : KeysAll_dt e master (docs.map (denoteDoc env true)).flatten) (E : Err) :
    fetchRoot e true master (docs.map (preResolve env true)) = .error E ↔
      firstErr master (docs.map (denoteDoc env true)).flatten = some E := by
  rw [fetch_diff_with_variables e env master docs hf hd hdocs hnamed hkeys]
  unfold treeDiffFetch
  cases firstErr master (docs.map (denoteDoc env true)).flatten with
  | none => simp
  | some E' => simp

/-- **C08-facing corollary: the difference of sources with variables is the difference of their denoted
    documents.**  If `fetch_diff` succeeds, its result is the specification `treeDiff` of C08 applied to
    the documents denoted in diff mode, no source object raised, and the consumed ids are `treeUsed`. -/
theorem difference_of_denoted_documents (e : Envs) (env : Env) (master : List Obj) (docs : List (List Obj))
    (hf : TreeMultiMaster master) (hd : depthL master ≤ 1000) (hdocs : ∀ d ∈ docs, DocIds d)
    (hnamed : ScopesNamed docs.flatten)
    (hkeys : KeysAll_dt e master (docs.map (denoteDoc env true)).flatten)
    (D : Obj) (used : List Nat)
    (h : fetchRoot e true master (docs.map (preResolve env true)) = .ok (D, used)) :
    firstErr master (docs.map (denoteDoc env true)).flatten = none ∧
    D = .scope { name := [], id := some 0 } (treeDiff e master (docs.map (denoteDoc env true)).flatten) ∧
    used = treeUsed master (docs.map (denoteDoc env true)).flatten := by
  rw [fetch_diff_with_variables e env master docs hf hd hdocs hnamed hkeys] at h
  unfold treeDiffFetch at h
  cases hfe : firstErr master (docs.map (denoteDoc env true)).flatten with
  | some E' => rw [hfe] at h; cases h
  | none =>
    rw [hfe] at h
    simp only [Except.ok.injEq, Prod.mk.injEq] at h
    exact ⟨rfl, h.1.symm, h.2.symm⟩

/-- **the laws of C08 for a difference with variables** (`S` = the denoted documents, `D` the
    difference): merging `D` back gives the restored working set of `S`; the difference of the restored
    working set is `D` again; the working set fetched from `S` has the difference `D`. -/
theorem difference_with_variables_laws (e : Envs) (env : Env) (master : List Obj) (docs : List (List Obj))
    (hf : TreeMultiMaster master) (hr : RefetchTree master) (hd : depthL master ≤ 1000)
    (hdocs : ∀ d ∈ docs, DocIds d) (hnamed : ScopesNamed docs.flatten)
    (hkeys : KeysAll_dt e master (docs.map (denoteDoc env true)).flatten)
    (D : Obj) (used : List Nat)
    (h : fetchRoot e true master (docs.map (preResolve env true)) = .ok (D, used)) :
    treeMultiResult e master D.children = treeRestored e master (docs.map (denoteDoc env true)).flatten ∧
    treeDiff e master (treeRestored e master (docs.map (denoteDoc env true)).flatten) = D.children ∧
    treeDiff e master (treeMultiResult e master (docs.map (denoteDoc env true)).flatten) = D.children := by
  obtain ⟨_, rfl, _⟩ := difference_of_denoted_documents e env master docs hf hd hdocs hnamed hkeys D used h
  exact ⟨treeMultiResult_treeDiff_dt e master _ hf hr, treeDiff_treeRestored_dt e master _ hf hr,
    treeDiff_working_dt e master _ hf hr⟩

/-! ## 3. non-vacuity and sharpness (kernel-checked; replayed on the Python library) -/

/-- helper `q`, a reference that reproduces the master default, an undefined variable -/
def srcTextD : String := "q = 1\na = $q\ns.b = $X\n"

theorem srcTextD_parse : [srcTextD.toList].mapM parseObjs = .ok [parsed srcTextD] := by
  rw [mapM_cons_vs, parsed_ok srcTextD (by decide +kernel), mapM_nil_vs]

/-- the closed form on the parsed text, master `a = 1 ; s { b = 2 ; c = 3 }`, any environment -/
example (env : Env) (hk : KeysAll_dt env12 mT (denoteDoc env true (parsed srcTextD))) :
    fetchRoot env12 true mT [preResolve env true (parsed srcTextD)] =
      treeDiffFetch env12 { name := [], id := some 0 } mT (denoteDoc env true (parsed srcTextD)) := by
  have h := fetch_diff_with_variables_of_texts env12 env mT _ _ srcTextD_parse
    (treeMultiMasterB_sound mT (by decide +kernel)) (by decide +kernel) (by simpa using hk)
  simpa using h

/-- the value on the instance (Python, replayed: `master.fetch_diff(source)` prints `s {⏎  b = "$X"⏎}`):
    `a = $q` resolves to the master default and is dropped; `s.b = $X` stays as the word `"$X"`; keys
    defined; ids 2 (`a`), 1 (`q`, consulted), 3 (`s.b`) consumed -/
theorem srcTextD_difference :
    keysAllB_dt env12 mT (denoteDoc C12Fetch.noEnv true (parsed srcTextD)) = true ∧
    (treeDiffFetch env12 { name := [], id := some 0 } mT (denoteDoc C12Fetch.noEnv true (parsed srcTextD))).toOption.map
        (fun r => ((asStr {} r.1).toOption.map String.ofList, r.2))
      = some (some "s {\n  b = \"$X\"\n}\n", [2, 1, 3]) := by
  decide +kernel

/-- **errors come in MASTER order, not source order**: `s.b = $u` fails on line 1 (`u = $X`), `a = $v`
    on line 3 (`v = $Y`); the master lists `a` first, so line 3 is reported.  Python (replayed):
    `Undefined variable: $Y (input line 3)`. -/
theorem error_in_master_order :
    errOf (treeDiffFetch env12 { name := [], id := some 0 } mT
      (denoteDoc C12Fetch.noEnv true (parsed "u = $X\ns.b = $u\nv = $Y\na = $v\n")))
      = some (Err.runtime "undefined_variable" (some 3)) ∧
    errOf (fetchRoot env12 true mT [preResolve C12Fetch.noEnv true (parsed "u = $X\ns.b = $u\nv = $Y\na = $v\n")])
      = some (Err.runtime "undefined_variable" (some 3)) := by
  decide +kernel

/-- **why the keys must be defined** (`KeysAll_dt`): with the master `a = 1 .type = int` and the source
    `a = x` no variable fails, the specification yields a difference, but the comparison of the rendered
    values fails first.  Python (replayed): `RuntimeError: Error interpreting a="x" as a numeric
    expression`. -/
theorem keys_needed :
    let mI : List Obj := C06.objsOf "a = 1\n  .type = int\n"
    treeMultiMasterB mI = true ∧
    keysAllB_dt env12 mI (denoteDoc C12Fetch.noEnv true (parsed "a = x\n")) = false ∧
    (fetchRoot env12 true mI [preResolve C12Fetch.noEnv true (parsed "a = x\n")]).toBool = false ∧
    (treeDiffFetch env12 { name := [], id := some 0 } mI (denoteDoc C12Fetch.noEnv true (parsed "a = x\n"))).toBool
      = true := by
  decide +kernel

/-- **why source scopes must be named** (`ScopesNamed`; true of every parser output): an unnamed source
    scope — constructible through the API only — is looked through by `scope.fetch`, so its `a = 5`
    reaches the master's `a`; the specification does not see it.  Python (replayed with
    `freephil.scope(name="", objects=[…])`): the difference is `a = 5`. -/
theorem scopes_named_needed :
    let badSrc : List Obj := [.scope { name := [] } [.defn { name := ['a'], id := some 1 } [{ value := ['5'] }]]]
    (fetchRoot env12 true mT [badSrc]).toOption.map (fun r => (asStr {} r.1).toOption.map String.ofList)
      = some (some "a = 5\n") ∧
    (treeDiffFetch env12 { name := [], id := some 0 } mT badSrc).toOption.map
      (fun r => (asStr {} r.1).toOption.map String.ofList) = some (some "") := by
  decide +kernel

/-- **why the fuel bound is `depthL + 1 < fuel`**: the master has depth 1; fuel 2 is not enough in diff
    mode (the key of a definition one level down is rendered with the fuel of its loop), fuel 3 is. -/
theorem fuel_bound_sharp :
    depthL mT = 1 ∧
    errOf (fetchScope env12 2 true { name := [], id := some 0 } mT (denoteDoc C12Fetch.noEnv true (parsed "s.b = $X\n")))
      = some .outOfFuel ∧
    (fetchScope env12 3 true { name := [], id := some 0 } mT (denoteDoc C12Fetch.noEnv true (parsed "s.b = $X\n"))).toOption.map
        (fun r => ((asStr {} r.1).toOption.map String.ofList, r.2))
      = some (some "s {\n  b = \"$X\"\n}\n", [1]) ∧
    (treeDiffFetch env12 { name := [], id := some 0 } mT (denoteDoc C12Fetch.noEnv true (parsed "s.b = $X\n"))).toOption.map
        (fun r => ((asStr {} r.1).toOption.map String.ofList, r.2))
      = some (some "s {\n  b = \"$X\"\n}\n", [1]) := by
  decide +kernel

/-! ## 4. C06 with variables, SEVERAL source texts: the ids are shifted per document

  Every `parse` numbers its definitions from 1, so the ids of two parsed documents clash
  (`two_texts_share_ids`).  The driver — like the library, where the marks are object identities —
  keeps them apart: document `i` is pre-resolved in its own frame and its ids (primary ids and recorded
  consulted ids) are increased by `1000000 * (i + 1)` (`offsetIds` of Main.lean; structurally:
  `shiftList`).  `shiftedDocs env false dks`: the denoted documents, shifted; `Separated dks`: every later
  shift exceeds the shift plus the size of an earlier document. -/

/-- **the id-shift lemma**: separated shifts make the ids of the entries of `all_definitions` of ALL
    documents present and pairwise distinct -/
theorem shifted_ids_distinct (env : Env) (diff : Bool) (dks : List (List Obj × Nat))
    (hdocs : ∀ dk ∈ dks, DocIds dk.1)
    (hsome : ∀ dk ∈ dks, ∀ x ∈ allDefinitions (denoteDoc env diff dk.1), x.2.1.id ≠ none)
    (hnd : ∀ dk ∈ dks, ((allDefinitions (denoteDoc env diff dk.1)).map (fun x => x.2.1.id)).Nodup)
    (hsep : Separated dks) :
    (∀ x ∈ allDefinitions (shiftedDocs env diff dks).flatten, x.2.1.id ≠ none) ∧
    ((allDefinitions (shiftedDocs env diff dks).flatten).map (fun x => x.2.1.id)).Nodup :=
  shiftedDocs_ids_fv3 env diff dks hdocs hsome hnd hsep

/-- the entries of `all_definitions` of a shifted document are the shifted entries: paths and words are
    untouched -/
theorem all_definitions_shifted (k : Nat) (doc : List Obj) :
    allDefinitions (shiftList k doc) = (allDefinitions doc).map (shiftEntry k) :=
  allDefinitions_shift_fv3 k doc

/-- **C06 with variables, several PARSED source texts (the reported list, exactly).**  Texts parsed
    separately, pre-resolved each in its own document, ids shifted by `ks` (separated): after a
    successful fetch an entry of `all_definitions(sources)` is reported iff its path names no master
    definition and no entry whose path names a master definition consulted it.  Hypotheses: the master
    class and the separation of the shifts. -/
theorem unused_exact_of_texts_shifted (e : Envs) (env : Env) (master : List Obj) (texts : List Str)
    (docs : List (List Obj)) (hp : texts.mapM parseObjs = .ok docs) (ks : List Nat)
    (hlen : ks.length = docs.length) (hsep : Separated (docs.zip ks))
    (hf : TreeMaster master) (hd : depthL master ≤ 1000) (hinc : NoIncludeTree master)
    (ro : Obj) (used : List Nat)
    (h : fetchRoot e false master ((docs.zip ks).map (fun dk => shiftList dk.2 (preResolve env false dk.1)))
          = .ok (ro, used))
    (x : Str × Meta × List Word) :
    x ∈ C06.unusedOf (shiftedDocs env false (docs.zip ks)).flatten used ↔
      x ∈ allDefinitions (shiftedDocs env false (docs.zip ks)).flatten ∧
        x.1 ∉ (allDefinitions master).map (·.1) ∧
        ∀ y ∈ allDefinitions (shiftedDocs env false (docs.zip ks)).flatten,
          y.1 ∈ (allDefinitions master).map (·.1) →
            ∀ i, x.2.1.id = some i → i ∉ srcRefs (.defn y.2.1 y.2.2) := by
  have hm := mapM_parse_mem_pv texts docs hp
  have hmem : ∀ dk ∈ docs.zip ks, ∃ t, parseObjs t = .ok dk.1 := fun dk hdk => hm dk.1 (List.of_mem_zip hdk).1
  exact unused_shifted_exact_fv3 e env master (docs.zip ks) hf hd hinc
    (fun dk hdk => by obtain ⟨t, ht⟩ := hmem dk hdk; exact parse_docIds t _ ht)
    (fun dk hdk => by obtain ⟨t, ht⟩ := hmem dk hdk; exact parse_scopesNamed_pv t _ ht)
    (fun dk hdk => by obtain ⟨t, ht⟩ := hmem dk hdk; exact (parse_allDefinitions_ids_pv env false t _ ht).1)
    (fun dk hdk => by obtain ⟨t, ht⟩ := hmem dk hdk; exact (parse_allDefinitions_ids_pv env false t _ ht).2)
    hsep ro used h x

/-- the shifts of the driver for `n` documents, starting with document number `i` -/
def driverShifts : Nat → Nat → List Nat
  | _, 0 => []
  | i, n + 1 => 1000000 * (i + 1) :: driverShifts (i + 1) n

theorem driverShifts_ge : ∀ (n i k : Nat), k ∈ driverShifts i n → 1000000 * (i + 1) ≤ k
  | 0, i, k, h => by rw [driverShifts] at h; cases h
  | n + 1, i, k, h => by
    rw [driverShifts, List.mem_cons] at h
    rcases h with rfl | h
    · exact Nat.le_refl _
    · have := driverShifts_ge n (i + 1) k h
      omega

/-- **the driver's shifts are separated** as long as every document has fewer than 1000000 objects -/
theorem driverShifts_separated : ∀ (docs : List (List Obj)) (i : Nat), (∀ d ∈ docs, sizeList d < 1000000) →
    Separated (docs.zip (driverShifts i docs.length))
  | [], i, _ => by simp [Separated]
  | d :: rest, i, h => by
    rw [List.length_cons, driverShifts, List.zip_cons_cons, Separated]
    refine ⟨fun dk' hdk' => ?_, driverShifts_separated rest (i + 1) (fun d' hd' => h d' (List.mem_cons_of_mem _ hd'))⟩
    have h1 := driverShifts_ge rest.length (i + 1) dk'.2 (List.of_mem_zip hdk').2
    have h2 := h d List.mem_cons_self
    simp only
    omega

/-- two texts: `q` is consulted by `a = $q`, `z` and `w` name no master parameter -/
def multiT1 : String := "q = 5\na = $q\nz = 1\n"
def multiT2 : String := "s.b = 7\nw = 2\n"

/-- non-vacuity and sharpness in one (Python, replayed: `master.fetch(sources=[…, …],
    track_unused_definitions=True)` reports `z` and `w`; the compiled model with the driver's shifts:
    consumed 1000002, 1000001, 2000001, reported `z`, `w`).  Kernel-checked on the closed form with the
    separated shifts 10, 20: the fetch consumes 12 (`a`), 11 (`q`, consulted), 21 (`s.b`) and the reported
    entries are those with the ids 13 (`z`) and 22 (`w`).  WITHOUT a shift the consumed ids are 2, 1, 1 and
    `w` — id 2 in its own document — is taken for consumed because `a` has id 2 in the other document:
    only `z` would be reported. -/
theorem shift_needed :
    (treeFetch { name := [], id := some 0 } mT (shiftList 10 (denoteDoc C12Fetch.noEnv false (parsed multiT1)) ++
        shiftList 20 (denoteDoc C12Fetch.noEnv false (parsed multiT2)))).toOption.map (·.2) = some [12, 11, 21] ∧
    (C06.unusedOf (shiftList 10 (denoteDoc C12Fetch.noEnv false (parsed multiT1)) ++
        shiftList 20 (denoteDoc C12Fetch.noEnv false (parsed multiT2))) [12, 11, 21]).map (fun x => x.2.1.id)
      = [some 13, some 22] ∧
    (treeFetch { name := [], id := some 0 } mT (denoteDoc C12Fetch.noEnv false (parsed multiT1) ++
        denoteDoc C12Fetch.noEnv false (parsed multiT2))).toOption.map (·.2) = some [2, 1, 1] ∧
    (C06.unusedOf (denoteDoc C12Fetch.noEnv false (parsed multiT1) ++
        denoteDoc C12Fetch.noEnv false (parsed multiT2)) [2, 1, 1]).map (fun x => x.2.1.id) = [some 3] := by
  decide +kernel

/-- executable form of `NoIncludeTree` -/
def noIncludeB (l : List Obj) : Bool := allActive (fun o => !o.isDefn || o.name != "include".toList) l

theorem noIncludeB_sound (l : List Obj) (h : noIncludeB l = true) : NoIncludeTree l := by
  intro d hd hdef
  have := allActive_sound _ hd h
  simpa [hdef] using this

theorem multiTexts_parse : [multiT1.toList, multiT2.toList].mapM parseObjs = .ok [parsed multiT1, parsed multiT2] := by
  rw [mapM_cons_vs, parsed_ok multiT1 (by decide +kernel), mapM_cons_vs, parsed_ok multiT2 (by decide +kernel),
    mapM_nil_vs]

/-- the theorem applies to the two parsed texts with the driver's shifts -/
example (env : Env) (ro : Obj) (used : List Nat)
    (h : fetchRoot env12 false mT (([parsed multiT1, parsed multiT2].zip (driverShifts 0 2)).map
          (fun dk => shiftList dk.2 (preResolve env false dk.1))) = .ok (ro, used))
    (x : Str × Meta × List Word) :
    x ∈ C06.unusedOf (shiftedDocs env false ([parsed multiT1, parsed multiT2].zip (driverShifts 0 2))).flatten used ↔
      x ∈ allDefinitions (shiftedDocs env false ([parsed multiT1, parsed multiT2].zip (driverShifts 0 2))).flatten ∧
        x.1 ∉ (allDefinitions mT).map (·.1) ∧
        ∀ y ∈ allDefinitions (shiftedDocs env false ([parsed multiT1, parsed multiT2].zip (driverShifts 0 2))).flatten,
          y.1 ∈ (allDefinitions mT).map (·.1) →
            ∀ i, x.2.1.id = some i → i ∉ srcRefs (.defn y.2.1 y.2.2) :=
  unused_exact_of_texts_shifted env12 env mT _ _ multiTexts_parse (driverShifts 0 2) rfl
    (driverShifts_separated [parsed multiT1, parsed multiT2] 0 (by decide +kernel))
    (treeMasterB_sound mT (by decide +kernel)) (by decide +kernel) (noIncludeB_sound mT (by decide +kernel)) ro used h x

end Phil.C12Fetch3

#print axioms Phil.C12Fetch3.fetch_diff_any_sources
#print axioms Phil.C12Fetch3.fetch_diff_any_sources_plain
#print axioms Phil.C12Fetch3.agrees_with_diff_tree_total
#print axioms Phil.C12Fetch3.fetch_diff_with_variables
#print axioms Phil.C12Fetch3.fetch_diff_with_variables_of_texts
#print axioms Phil.C12Fetch3.fetch_diff_error
#print axioms Phil.C12Fetch3.difference_of_denoted_documents
#print axioms Phil.C12Fetch3.difference_with_variables_laws
#print axioms Phil.C12Fetch3.srcTextD_parse
#print axioms Phil.C12Fetch3.srcTextD_difference
#print axioms Phil.C12Fetch3.error_in_master_order
#print axioms Phil.C12Fetch3.keys_needed
#print axioms Phil.C12Fetch3.scopes_named_needed
#print axioms Phil.C12Fetch3.fuel_bound_sharp
#print axioms Phil.C12Fetch3.shifted_ids_distinct
#print axioms Phil.C12Fetch3.all_definitions_shifted
#print axioms Phil.C12Fetch3.unused_exact_of_texts_shifted
#print axioms Phil.C12Fetch3.driverShifts_ge
#print axioms Phil.C12Fetch3.driverShifts_separated
#print axioms Phil.C12Fetch3.shift_needed
#print axioms Phil.C12Fetch3.multiTexts_parse
#print axioms Phil.C12Fetch3.noIncludeB_sound
