/-
  C01 (part) — printing a PHIL tree and re-parsing the text reproduces the tree (up to ids and source
  positions) and the second print is byte-identical: the unbounded theorems for TREES OF NESTED SCOPES
  (any depth, any number of children, empty scopes, dottedName "merged" chains `a.b.c {` / `a.b = 1`
  as `scope.adopt` builds them), at every print width.  Property theorems only; the lemmas are in
  Phil/Proofs/PrintParseNested.lean and Phil/Proofs/DottedNames.lean.  The flat case (a root scope
  holding definitions only) is Phil/Props/C01RoundTrip.lean; it is the special case `RTDefn.toTree`.

  What is covered: trees whose objects are enabled, carry no attributes, have good undotted names
  (`goodName`), printed at attributes level 0 with the empty prefix.
  What is not covered: attributes (level > 0), disabled objects, a non-empty prefix, templates.
-/
import Phil.Proofs.PrintParseNested
import Phil.Props.C01RoundTrip
set_option linter.unusedSimpArgs false
namespace Phil.C01
open Phil

attribute [local instance] objDecEqInst exceptDecEqRT

/-! ### the class of trees

  * `PlainMetaPP mg m`: the object data `m` is `{ name, id, line, mergeNames := mg }` — enabled, no
    attributes, `is_template = 0`; `primary_id` and source line are arbitrary.
  * `RTNode ms x` (Phil/Proofs/PrintParseNested.lean, by recursion on the tree): `x` stands below the
    chain `ms` of scopes that merge their names into its printed name.
      - a definition: `PlainMetaPP (ms ≠ []) m`, `goodName m.name`, the printed dottedName name
        `dottedName ms m.name` is not a reserved identifier, at least one word, every word `goodWord`;
      - a scope: `PlainMetaPP (ms ≠ []) m`, `goodName m.name`, and its children are
          either (proper scope, printed `name {` … `}`) any number — also none — of trees `RTNode []`,
            the printed dottedName name not being reserved,
          or (dottedName chain) exactly one tree `RTNode (ms ++ [m.name])`, whose `merge_names` is True.
  * `RTTree x := RTNode [] x`: an object of the root scope or of a proper scope. -/

/-- the class of trees the nested round trip is proved for -/
def RTTree (x : Obj) : Prop := RTNode [] x

instance (x : Obj) : Decidable (RTTree x) := by unfold RTTree; exact inferInstance

/-- `RTTree` for a definition, spelled out: exactly the flat class `RTDefn` -/
theorem RTTree_defn (m : Meta) (ws : List Word) :
    RTTree (.defn m ws) ↔
      (PlainMetaPP false m ∧ goodName m.name = true ∧ ws ≠ [] ∧ ∀ w ∈ ws, goodWord w = true) := by
  unfold RTTree RTNode
  constructor
  · rintro ⟨h1, h2, _, h4, h5⟩; exact ⟨h1, h2, h4, h5⟩
  · rintro ⟨h1, h2, h4, h5⟩; exact ⟨h1, h2, goodName_not_reserved h2, h4, h5⟩

/-- `RTTree` for a scope, spelled out -/
theorem RTTree_scope (m : Meta) (os : List Obj) :
    RTTree (.scope m os) ↔
      (PlainMetaPP false m ∧ goodName m.name = true ∧
        ((∀ c ∈ os, RTTree c) ∨ ∃ c, os = [c] ∧ RTNode [m.name] c)) := by
  unfold RTTree
  rw [RTNode]
  have hres : ∀ h : goodName m.name = true, isReserved (dottedName [] m.name) = false :=
    fun h => goodName_not_reserved h
  constructor
  · rintro ⟨h1, h2, h3⟩
    refine ⟨h1, h2, ?_⟩
    rcases h3 with ⟨_, h3⟩ | h3
    · exact Or.inl ((RTAll_iff os).mp h3)
    · cases os with
      | nil => unfold RTOne at h3; exact h3.elim
      | cons c cs => unfold RTOne at h3; exact Or.inr ⟨c, by rw [h3.2], h3.1⟩
  · rintro ⟨h1, h2, h3⟩
    refine ⟨h1, h2, ?_⟩
    rcases h3 with h3 | ⟨c, rfl, h3⟩
    · exact Or.inl ⟨hres h2, (RTAll_iff os).mpr h3⟩
    · exact Or.inr (by unfold RTOne; exact ⟨h3, rfl⟩)

/-- the flat class of Phil/Props/C01RoundTrip.lean is the definition case of `RTTree` -/
theorem RTDefn.toTree {x : Obj} (h : RTDefn x) : RTTree x := by
  obtain ⟨nm, ws, i, l, rfl⟩ := h.plain
  exact (RTTree_defn _ _).mpr ⟨rfl, h.name, h.nonempty, h.words⟩

theorem rtAll_of_forall {objs : List Obj} (h : ∀ x ∈ objs, RTTree x) : RTAll objs :=
  (RTAll_iff objs).mpr h

/-! ### what is printed

  `treeText w x ms ind` (by recursion on the tree) is the text printed for `x` at print width `w`
  with pending merged names `ms` at indentation `ind`:
    * a definition: `ind ++ dottedName-name ++ " =" ++ wrapTail … ++ "\n"` (the value, wrapped at `w`
      exactly as in the flat case, continuation lines indented by `ind` plus the width of `name =`);
    * a proper scope: `ind ++ dottedName-name ++ " {\n"`, the children at indentation `ind ++ "  "`,
      `ind ++ "}\n"` (an empty scope: the two lines `name {` and `}`);
    * a scope whose first child merges names: the children, with the scope's name pending.
  `kidsText w objs [] []` is the text of a whole document. -/

/-- **The printer on the class.**  At attributes level 0 the root scope of a document of `RTTree`s
    prints as `kidsText` — at every width, to any depth. -/
theorem print_tree (o : ShowOpts) (hl : o.level = 0) (objs : List Obj) (h : ∀ x ∈ objs, RTTree x) :
    asStr o (rootOf objs) = .ok (kidsText o.width objs [] []) :=
  asStr_trees o (by omega) objs (rtAll_of_forall h)

/-! ### the round trip -/

/-- **Nested scopes at any width, exact condition.**  For every print width: if every definition of
    every tree satisfies `wrapOK` for that width *at the indentation and with the dottedName name it is
    printed with* (`WrapsOK`, by recursion on the tree: the indentation grows by two blanks per proper
    scope), then the printed text parses and the parser returns the same trees up to ids and source
    positions (`eraseList`: same nesting, names, `merge_names` flags, words with values and quote
    styles).  Ids: `idsList objs'` (document order, a scope before its children) is
    `expIdsSeq 1 objs` — one id per printed item (definition line or `name {` header) counted from 1
    in document order; the scopes of a dottedName chain `a.b.c` share the id of their item. -/
theorem print_parse_tree_exact (o : ShowOpts) (hl : o.level = 0) (objs : List Obj)
    (h : ∀ x ∈ objs, RTTree x) (hok : ∀ x ∈ objs, WrapsOK o.width x [] []) :
    ∃ text objs', asStr o (rootOf objs) = .ok text ∧ text = kidsText o.width objs [] [] ∧
      parseObjs text = .ok objs' ∧ eraseList objs' = eraseList objs ∧
      idsList objs' = (expIdsSeq 1 objs).map some := by
  obtain ⟨objs', h2, h3, h4⟩ := parseObjs_trees o.width objs (rtAll_of_forall h)
    ((WrapsOKs_iff o.width objs [] []).mpr hok)
  exact ⟨_, objs', print_tree o hl objs h, rfl, h2, h3, h4⟩

/-- **C01 for nested scopes, whatever print width is used.**  If in every definition of every tree
    only the LAST word may contain a newline character, then for EVERY print width (also widths at
    which every word is wrapped, zero and negative widths) printing the root scope and parsing the
    text succeeds and reproduces the trees up to ids and source positions; ids as in
    `print_parse_tree_exact`. -/
theorem print_parse_tree (o : ShowOpts) (hl : o.level = 0) (objs : List Obj)
    (h : ∀ x ∈ objs, RTTree x) (hnl : ∀ x ∈ objs, x.allDefns NlOnlyLast) :
    ∃ text objs', asStr o (rootOf objs) = .ok text ∧ parseObjs text = .ok objs' ∧
      eraseList objs' = eraseList objs ∧ idsList objs' = (expIdsSeq 1 objs).map some := by
  obtain ⟨text, objs', h1, _, h2, h3, h4⟩ := print_parse_tree_exact o hl objs h
    (fun x hx => wrapsOK_of_nlOnlyLast o.width x [] [] (hnl x hx))
  exact ⟨text, objs', h1, h2, h3, h4⟩

/-- **Nested scopes, nothing wrapped.**  If every printed definition line — indentation, dottedName name,
    ` =` and all words — fits into `width - 2` columns (`Fits`, the indentation included) and in no
    definition an unquoted word directly follows a word that contains a newline (`ChainOK`, as in the
    flat case), the text is `flatKids objs [] []` (no continuation lines) and the round trip holds. -/
theorem print_parse_tree_nowrap (o : ShowOpts) (hl : o.level = 0) (objs : List Obj)
    (h : ∀ x ∈ objs, RTTree x) (hfit : ∀ x ∈ objs, Fits o.width x [] [])
    (hchain : ∀ x ∈ objs, x.allDefns ChainOK) :
    asStr o (rootOf objs) = .ok (flatKids objs [] []) ∧
    ∃ objs', parseObjs (flatKids objs [] []) = .ok objs' ∧
      eraseList objs' = eraseList objs ∧ idsList objs' = (expIdsSeq 1 objs).map some := by
  have htext : kidsText o.width objs [] [] = flatKids objs [] [] := by
    have : ∀ os : List Obj, (∀ x ∈ os, Fits o.width x [] []) →
        kidsText o.width os [] [] = flatKids os [] [] := by
      intro os
      induction os with
      | nil => intro _; rfl
      | cons x xs ih =>
        intro hf
        rw [kidsText, flatKids, (fits_tree o.width x [] [] (hf x (by simp))).1,
          ih (fun y hy => hf y (by simp [hy]))]
    exact this objs hfit
  obtain ⟨text, objs', h1, h1', h2, h3, h4⟩ := print_parse_tree_exact o hl objs h
    (fun x hx => (fits_tree o.width x [] [] (hfit x hx)).2 (hchain x hx))
  subst h1'
  rw [htext] at h1 h2
  exact ⟨h1, objs', h2, h3, h4⟩

/-- **Ids without dottedName chains.**  When no scope merges its name (`noChains`), every object is a
    printed item and the parser numbers the objects `1, 2, …, n` in document order (a scope before its
    children), `n` the number of objects of the document. -/
theorem tree_ids_noChains (objs : List Obj) (h : ∀ x ∈ objs, x.noChains) :
    expIdsSeq 1 objs = List.range' 1 (nodesList objs) := by
  have : ∀ (os : List Obj), (∀ x ∈ os, x.noChains) → ∀ i,
      itemsList os = nodesList os ∧ expIdsSeq i os = List.range' i (nodesList os) := by
    intro os
    induction os with
    | nil => intro _ i; exact ⟨rfl, rfl⟩
    | cons x xs ih =>
      intro hx i
      obtain ⟨a1, a2⟩ := expIds_noChains x (hx x (by simp))
      obtain ⟨b1, b2⟩ := ih (fun y hy => hx y (by simp [hy])) (i + x.nodes)
      refine ⟨by rw [itemsList, nodesList, a1, b1], ?_⟩
      rw [expIdsSeq, nodesList, a2, a1, b2, ← List.range'_append_1]
  exact (this objs h 1).2

/-! ### the second print is byte-identical -/

/-- **Print, parse, print again (nested).**  In the setting of `print_parse_tree_exact` (in particular
    in the setting of `print_parse_tree`, at every width): the re-parsed root prints byte-identically
    to the original root — at the same width and at every other width, level and prefix. -/
theorem second_print_identical_tree (o : ShowOpts) (hl : o.level = 0) (objs : List Obj)
    (h : ∀ x ∈ objs, RTTree x) (hok : ∀ x ∈ objs, WrapsOK o.width x [] []) :
    ∃ text root', asStr o (rootOf objs) = .ok text ∧ parse text = .ok root' ∧
      asStr o root' = .ok text ∧
      ∀ (o' : ShowOpts) (pre : Str), asStr o' root' pre = asStr o' (rootOf objs) pre := by
  obtain ⟨text, objs', h1, _, h2, h3, _⟩ := print_parse_tree_exact o hl objs h hok
  have herase : (rootOf objs').erase = (rootOf objs).erase := by
    simp only [rootOf, Obj.erase_scope, h3]
  refine ⟨text, rootOf objs', h1, by rw [parse_eq, h2]; rfl, ?_, fun o' pre => ?_⟩
  · rw [show_congr_positions o _ _ herase, h1]
  · exact show_congr_positions o' _ _ herase pre

/-- the width-independent form -/
theorem second_print_identical_tree_any_width (o : ShowOpts) (hl : o.level = 0) (objs : List Obj)
    (h : ∀ x ∈ objs, RTTree x) (hnl : ∀ x ∈ objs, x.allDefns NlOnlyLast) :
    ∃ text root', asStr o (rootOf objs) = .ok text ∧ parse text = .ok root' ∧
      asStr o root' = .ok text ∧
      ∀ (o' : ShowOpts) (pre : Str), asStr o' root' pre = asStr o' (rootOf objs) pre :=
  second_print_identical_tree o hl objs h
    (fun x hx => wrapsOK_of_nlOnlyLast o.width x [] [] (hnl x hx))

/-! ### non-vacuity: a concrete nested document through the theorems

  ```
  x = 1
  a {
    y = "p q" 'r' "u⏎v"
    e {
    }
    c.d {
      z = 3
    }
    f.g = 4 5
  }
  w = 4
  ```
  (`c` holds the single scope `d` with `merge_names`, `f` the single definition `g` with `merge_names`;
  the scope `a` carries an arbitrary id and line, which the printer ignores.)  Replayed on the Python
  library: the same texts at widths 79 and 14, the same ids 1 2 3 4 5 5 6 7 7 8. -/

def exTree : List Obj :=
  [ .defn { name := ['x'] } [{ value := ['1'] }],
    .scope { name := ['a'], id := some 9, line := some 3 }
      [ .defn { name := ['y'] } [{ value := "p q".toList, quote := some .d1 },
          { value := ['r'], quote := some .s1 }, { value := "u\nv".toList, quote := some .d1 }],
        .scope { name := ['e'] } [],
        .scope { name := ['c'] }
          [.scope { name := ['d'], mergeNames := true } [.defn { name := ['z'] } [{ value := ['3'] }]]],
        .scope { name := ['f'] }
          [.defn { name := ['g'], mergeNames := true } [{ value := ['4'] }, { value := ['5'] }]] ],
    .defn { name := ['w'] } [{ value := ['4'] }] ]

theorem exTree_ok : ∀ x ∈ exTree, RTTree x := by decide +kernel
theorem exTree_nl : ∀ x ∈ exTree, x.allDefns NlOnlyLast := by decide +kernel

/-- the text at the default width -/
example : asStr {} (rootOf exTree)
    = .ok ("x = 1\na {\n  y = \"p q\" 'r' \"u\nv\"\n  e {\n  }\n  c.d {\n    z = 3\n  }\n" ++
           "  f.g = 4 5\n}\nw = 4\n").toList := by decide +kernel

/-- the text at width 14: the value of `y` is wrapped inside the scope, continuation lines indented by
    the two blanks of the scope and the width of `y =` -/
example : asStr { width := 14 } (rootOf exTree)
    = .ok ("x = 1\na {\n  y = \"p q\" \\\n      'r' \\\n      \"u\nv\"\n  e {\n  }\n  c.d {\n" ++
           "    z = 3\n  }\n  f.g = 4 5\n}\nw = 4\n").toList := by decide +kernel

/-- the ids the theorem promises for the example: the chain scopes `c`,`d` share 5 and `f`,`g` share 7 -/
example : expIdsSeq 1 exTree = [1, 2, 3, 4, 5, 5, 6, 7, 7, 8] := by decide +kernel

/-- through `print_parse_tree` at width 14: the wrapped text parses back to the tree, ids as above -/
example : ∃ objs', parseObjs ("x = 1\na {\n  y = \"p q\" \\\n      'r' \\\n      \"u\nv\"\n  e {\n  }\n" ++
      "  c.d {\n    z = 3\n  }\n  f.g = 4 5\n}\nw = 4\n").toList = .ok objs' ∧
    eraseList objs' = eraseList exTree ∧
    idsList objs' = [some 1, some 2, some 3, some 4, some 5, some 5, some 6, some 7, some 7, some 8] := by
  obtain ⟨text, objs', h1, h2, h3, h4⟩ := print_parse_tree { width := 14 } rfl exTree exTree_ok exTree_nl
  have e : asStr { width := 14 } (rootOf exTree)
      = .ok ("x = 1\na {\n  y = \"p q\" \\\n      'r' \\\n      \"u\nv\"\n  e {\n  }\n  c.d {\n" ++
             "    z = 3\n  }\n  f.g = 4 5\n}\nw = 4\n").toList := by decide +kernel
  rw [e] at h1
  cases h1
  exact ⟨objs', h2, h3, by rw [h4]; decide +kernel⟩

/-- through `print_parse_tree_nowrap` at the default width -/
example : ∃ objs', parseObjs ("x = 1\na {\n  y = \"p q\" 'r' \"u\nv\"\n  e {\n  }\n  c.d {\n    z = 3\n" ++
      "  }\n  f.g = 4 5\n}\nw = 4\n").toList = .ok objs' ∧ eraseList objs' = eraseList exTree := by
  obtain ⟨_, objs', h2, h3, _⟩ := print_parse_tree_nowrap {} rfl exTree exTree_ok
    (by decide +kernel) (by decide +kernel)
  have e : flatKids exTree [] [] = ("x = 1\na {\n  y = \"p q\" 'r' \"u\nv\"\n  e {\n  }\n  c.d {\n" ++
      "    z = 3\n  }\n  f.g = 4 5\n}\nw = 4\n").toList := by decide +kernel
  rw [e] at h2
  exact ⟨objs', h2, h3⟩

/-- print, parse, print again at width 14 -/
example : ∃ text root', asStr { width := 14 } (rootOf exTree) = .ok text ∧ parse text = .ok root' ∧
    asStr { width := 14 } root' = .ok text :=
  let ⟨text, root', h1, h2, h3, _⟩ :=
    second_print_identical_tree_any_width { width := 14 } rfl exTree exTree_ok exTree_nl
  ⟨text, root', h1, h2, h3⟩

/-- a document without dottedName chains: ids 1..n -/
example : expIdsSeq 1 [Obj.scope { name := ['a'] } [.defn { name := ['y'] } [{ value := ['2'] }],
      .scope { name := ['b'] } []], .defn { name := ['w'] } [{ value := ['4'] }]] = [1, 2, 3, 4] := by
  rw [tree_ids_noChains _ (by decide +kernel)]
  decide +kernel

/-! ### sharp edges (kernel-checked in the model; each replayed on the Python library, which agrees) -/

/-- the definition `a = xxxxx "y⏎z" "zzzzzzz"` -/
def edgeDefn : Obj := .defn { name := ['a'] } [{ value := "xxxxx".toList },
  { value := "y\nz".toList, quote := some .d1 }, { value := "zzzzzzz".toList, quote := some .d1 }]

/-- **The indentation counts.**  The definition `a = xxxxx "y⏎z" "zzzzzzz"` round-trips at width 27 as
    an object of the root scope (nothing is wrapped), but NOT one level deeper: inside `s { … }` the
    two blanks of indentation make the printer wrap in front of the last word, the continuation ` \`
    then follows a word containing a newline (finding D6) and the text does not parse
    (Python: `Syntax error: improper definition name "\" (input line 3)`).  `WrapsOK` — the
    hypothesis of `print_parse_tree_exact` — tells the two apart. -/
theorem indentation_changes_wrapping :
    asStr { width := 27 } (rootOf [edgeDefn]) = .ok "a = xxxxx \"y\nz\" \"zzzzzzz\"\n".toList ∧
    parseObjs "a = xxxxx \"y\nz\" \"zzzzzzz\"\n".toList
      = .ok [.defn { name := ['a'], id := some 1, line := some 1 }
          [{ value := "xxxxx".toList, line := some 1 },
           { value := "y\nz".toList, quote := some .d1, line := some 1 },
           { value := "zzzzzzz".toList, quote := some .d1, line := some 2 }]] ∧
    WrapsOK 27 edgeDefn [] [] ∧
    asStr { width := 27 } (rootOf [.scope { name := ['s'] } [edgeDefn]])
      = .ok "s {\n  a = xxxxx \"y\nz\" \\\n      \"zzzzzzz\"\n}\n".toList ∧
    parseObjs "s {\n  a = xxxxx \"y\nz\" \\\n      \"zzzzzzz\"\n}\n".toList
      = .error (.runtime "improper_definition_name" (some 3)) ∧
    ¬ WrapsOK 27 (.scope { name := ['s'] } [edgeDefn]) [] [] := by
  decide +kernel

/-- **A dottedName chain may print a reserved identifier.**  The scope `__a` holding the single
    definition `b__` with `merge_names` (neither name is reserved) prints as `__a.b__ = 1`; the
    parser tests the FULL dottedName name and refuses it (Python: `Reserved identifier: "__a.b__" (input
    line 1)`).  Hence the hypothesis `isReserved (dottedName ms name) = false` in `RTNode`. -/
theorem dotted_chain_prints_reserved_name :
    asStr {} (rootOf [.scope { name := "__a".toList }
        [.defn { name := "b__".toList, mergeNames := true } [{ value := ['1'] }]]])
      = .ok "__a.b__ = 1\n".toList ∧
    parseObjs "__a.b__ = 1\n".toList = .error (.runtime "reserved" (some 1)) ∧
    goodName "__a".toList = true ∧ goodName "b__".toList = true ∧
    ¬ RTTree (.scope { name := "__a".toList }
        [.defn { name := "b__".toList, mergeNames := true } [{ value := ['1'] }]]) := by
  decide +kernel

/-- **A merging scope with two children is split.**  The scope `a` holding `b` and `c`, both with
    `merge_names`, prints as `a.b = 1` / `a.c = 2`; the parser builds TWO scopes `a` (ids 1 and 2),
    so the tree is not reproduced — although the second print IS byte-identical.  Hence "exactly one
    child" in the dottedName-chain case of `RTNode`. -/
theorem merging_scope_with_two_children_is_split :
    let t : List Obj := [.scope { name := ['a'] }
      [.defn { name := ['b'], mergeNames := true } [{ value := ['1'] }],
       .defn { name := ['c'], mergeNames := true } [{ value := ['2'] }]]]
    asStr {} (rootOf t) = .ok "a.b = 1\na.c = 2\n".toList ∧
    parseObjs "a.b = 1\na.c = 2\n".toList
      = .ok [.scope { name := ['a'], id := some 1 }
               [.defn { name := ['b'], id := some 1, line := some 1, mergeNames := true }
                  [{ value := ['1'], line := some 1 }]],
             .scope { name := ['a'], id := some 2 }
               [.defn { name := ['c'], id := some 2, line := some 2, mergeNames := true }
                  [{ value := ['2'], line := some 2 }]]] ∧
    (∀ objs', parseObjs "a.b = 1\na.c = 2\n".toList = .ok objs' →
      eraseList objs' ≠ eraseList t ∧ asStr {} (rootOf objs') = asStr {} (rootOf t)) ∧
    ¬ (∀ x ∈ t, RTTree x) := by
  refine ⟨by decide +kernel, by decide +kernel, ?_, by decide +kernel⟩
  intro objs' h
  have e : parseObjs "a.b = 1\na.c = 2\n".toList
      = .ok [.scope { name := ['a'], id := some 1 }
               [.defn { name := ['b'], id := some 1, line := some 1, mergeNames := true }
                  [{ value := ['1'], line := some 1 }]],
             .scope { name := ['a'], id := some 2 }
               [.defn { name := ['c'], id := some 2, line := some 2, mergeNames := true }
                  [{ value := ['2'], line := some 2 }]]] := by decide +kernel
  rw [e] at h
  cases h
  decide +kernel

/-- **The last component of a dottedName name escapes the reserved-identifier test.**  `a.__b__ = 1` is
    accepted (model and Python) and yields a definition named `__b__` inside `a`, although
    `a {` / `__b__ = 1` / `}` is refused; such trees do print and re-parse, but they are outside
    `RTTree` (`goodName` excludes reserved names). -/
theorem reserved_last_component_accepted :
    parseObjs "a.__b__ = 1\n".toList
      = .ok [.scope { name := ['a'], id := some 1 }
          [.defn { name := "__b__".toList, id := some 1, line := some 1, mergeNames := true }
            [{ value := ['1'], line := some 1 }]]] ∧
    asStr {} (rootOf [.scope { name := ['a'], id := some 1 }
          [.defn { name := "__b__".toList, id := some 1, line := some 1, mergeNames := true }
            [{ value := ['1'], line := some 1 }]]]) = .ok "a.__b__ = 1\n".toList ∧
    parseObjs "a {\n  __b__ = 1\n}\n".toList = .error (.runtime "reserved" (some 2)) := by
  decide +kernel

/-- an unclosed scope and a stray closing brace (the parser model on the edges of the block structure) -/
example : parseObjs "a {\n".toList = .error (.runtime "no_matching_brace" (some 1)) ∧
    parseObjs "a {\n}\n}\n".toList = .error (.runtime "unexpected_end" none) := by decide +kernel

#print axioms RTTree_defn
#print axioms RTTree_scope
#print axioms RTDefn.toTree
#print axioms print_tree
#print axioms print_parse_tree_exact
#print axioms print_parse_tree
#print axioms print_parse_tree_nowrap
#print axioms tree_ids_noChains
#print axioms second_print_identical_tree
#print axioms second_print_identical_tree_any_width
#print axioms exTree_ok
#print axioms indentation_changes_wrapping
#print axioms dotted_chain_prints_reserved_name
#print axioms merging_scope_with_two_children_is_split
#print axioms reserved_last_component_accepted

end Phil.C01
