/-
  C20 (concrete kernel) — the kernel laws of Phil/Props/C20.lean discharged for the fetch model.

    "After any sequence of edits through the parameter index …, popping a state restores exactly the
     working parameters that were current at the matching push.  Applying the same edit twice in a
     row leaves the working parameters as after the first application."

  Phil/Props/C20.lean proves these for an ARBITRARY kernel under two named laws: `pop_restores_exact`
  needs `k.refetch w = w` on the pushed working set, `same_edit_twice` needs `IdemKernel k e`.  Here
  both laws are PROVED for `concreteKernel c` (Phil/IndexConcrete.lean: merge = parse the edit, refusal
  check, deletion of the instances of the `.multiple` objects the edit mentions, fetch of
  `[old, edit]`; refetch = fetch of `[working]`) on flat contexts, so no law hypothesis is left.

  Class covered (unbounded: every such context, every history, every edit of the class):
    * contexts `FlatCtx c`: the master is a `FlatMultiMaster` (enabled definitions with pairwise
      distinct non-empty names, not `.deprecated`, not choices, `.multiple` or not, any type), fit for
      re-fetching (`RefetchOK`: not template-marked, `$`-free), and `c.multiple` lists exactly the
      names of the `.multiple` master definitions; the theorems hold for every `Envs`;
    * edits `DefEdit e`: if the text parses at all, it parses to root-level definitions without `$`
      (of any names and values; when the merge fails — the text does not parse, the key of a
      `.multiple` candidate cannot be computed — the edit is refused and changes nothing);
    * working sets `Reached c w`: `w` is the result of `master.fetch(sources = D)` for some
      definition-only, `$`-free `D`.  `Reached` is an INVARIANT of the histories made of `update`,
      `push`, `pop`, `set_state`, `get_python_object` (`reached_invariant`), and the initial working
      set `master.fetch()` is reached.
  `update_from_python` is outside the invariant, and necessarily so: it installs `master.format(obj)`,
  which in general is not a fetch result, and then "pop restores exactly" is FALSE — in the model
  (`pop_not_exact_after_fromPython`) and in the library (replay in the doc comment there).

    1. `reached_is_closed_form`          — structural characterisation of reached working sets
    2. `refetch_exact`                   — `refetch w = w` on reached working sets
    3. `merge_reached`, `init_reached`, `reached_invariant`
    4. `pop_restores_concrete` (+ `_reachable`, `_stack`)
    5. `same_edit_twice_concrete` (the kernel law on reached working sets; + `_state`, `_reachable`),
       `idem_needs_reached` (the law over ALL working sets is false in the model)
    6. kernel-checked instances on a literal context (int, `.multiple` str, bool)
  Lemmas: Phil/Proofs/IndexConcreteLemmas.lean (suffix `_ick`).
-/
import Phil.Props.C20
import Phil.Proofs.IndexConcreteLemmas
set_option linter.unusedVariables false
namespace Phil.C20
open Phil Phil.Index

variable {W P E : Type}

/-! ### 1. reached working sets -/

/-- **Structure of a reached working set.**  On a flat context a reached working set is the closed
    form of the fetch: one block per master definition in master order — `[lastWins …]` for a
    non-multiple definition, `multiBlock …` (template, then the surviving instances) for a `.multiple`
    one — for some good source list `D` whose keys are defined; it is itself a good source list. -/
theorem reached_is_closed_form (c : IndexCtx) (hc : FlatCtx c) (w : List Obj) (h : Reached c w) :
    (∃ D, GoodSrc D ∧ KeysOK c D ∧
      w = c.master.flatMap (blockOf c.envs (rootFuel c.master) D)) ∧ GoodSrc w :=
  ⟨reached_closed_ick hc h, reached_goodSrc_ick hc h⟩

/-- … and conversely every such closed form is reached -/
theorem closed_form_is_reached (c : IndexCtx) (hc : FlatCtx c) (D : List Obj) (hD : GoodSrc D)
    (hk : KeysOK c D) : Reached c (c.master.flatMap (blockOf c.envs (rootFuel c.master) D)) :=
  closed_reached_ick hc hD hk

/-! ### 2. `push_state`'s re-fetch is the identity on reached working sets -/

/-- **refetch law.**  `master.fetch(source = w) = w` for every reached working set. -/
theorem refetch_exact (c : IndexCtx) (hc : FlatCtx c) (w : List Obj) (h : Reached c w) :
    (concreteKernel c).refetch w = w :=
  refetch_exact_ick hc h

/-! ### 3. `Reached` is an invariant -/

/-- every successful merge of a definition-only edit from a reached working set yields a reached
    working set -/
theorem merge_reached (c : IndexCtx) (hc : FlatCtx c) (w : List Obj) (hw : Reached c w)
    (e : Str) (he : DefEdit e) (w' : List Obj) (h : (concreteKernel c).merge w e = some w') :
    Reached c w' :=
  merge_reached_ick hc hw he h

/-- what such a merge computes: the edit alone fetches (refusal check), the keys of all candidates are
    defined, and the new working set is the closed form on `old ++ edit`, `old` being the working set
    without the non-template objects whose name the edit mentions and the master declares `.multiple` -/
theorem merge_closed_form (c : IndexCtx) (hc : FlatCtx c) (w : List Obj) (hw : Reached c w)
    (e : Str) (edit : List Obj) (hp : parseObjs e = .ok edit) (he : GoodSrc edit) (w' : List Obj)
    (h : (concreteKernel c).merge w e = some w') :
    oldOf c edit w = w.filter (fun o => o.meta.tmpl != 0 || !(redundantOf c edit).contains o.name) ∧
    (∀ p, p ∈ redundantOf c edit ↔ (∃ o ∈ edit, o.name = p) ∧ p ∈ c.multiple) ∧
    w' = c.master.flatMap (blockOf c.envs (rootFuel c.master) (oldOf c edit w ++ edit)) :=
  ⟨oldOf_eq_filter_ick c edit w (reached_goodSrc_ick hc hw).isDefn,
   mem_redundantOf_ick c edit he.isDefn,
   (merge_some_ick hc (reached_goodSrc_ick hc hw) hp he h).2.2⟩

/-- the initial working set `master.fetch()` is reached -/
theorem init_reached (c : IndexCtx) (hc : FlatCtx c) (r : Obj) (u : List Nat)
    (h : fetchRoot c.envs false c.master [] = .ok (r, u)) : Reached c r.children :=
  init_reached_ick hc h

/-- **the invariant.**  From a state whose working set and saved states are reached, every history
    of `update` (definition-only edits), `push`, `pop`, `set_state`, `get_python_object` leads to such
    a state. -/
theorem reached_invariant (c : IndexCtx) (hc : FlatCtx c) (s : State (List Obj) PVal)
    (ops : List (Op PVal Str)) (hg : GoodOps ops) (hs : StateReached c s) :
    StateReached c (run (concreteKernel c) s ops) :=
  run_reached_ick hc ops s hg hs

/-- from the initial state -/
theorem reached_invariant_init (c : IndexCtx) (hc : FlatCtx c) (w : List Obj) (hw : Reached c w)
    (ops : List (Op PVal Str)) (hg : GoodOps ops) :
    Reached c (run (concreteKernel c) (init (concreteKernel c) w) ops).working :=
  (run_reached_ick hc ops _ hg (init_stateReached_ick hw)).1

/-! ### 4. pop restores exactly — no law hypothesis left -/

/-- **C20, pop restores (concrete kernel).**  On a flat context, from any state whose working set is
    reached, for EVERY balanced inner history (any edits, `update_from_python` included), the working
    set after the matching `pop` EQUALS the working set at the `push`. -/
theorem pop_restores_concrete (c : IndexCtx) (hc : FlatCtx c) (s : State (List Obj) PVal)
    (hs : Reached c s.working) (inner : List (Op PVal Str)) (hb : Balanced inner) :
    (run (concreteKernel c) s (.push :: (inner ++ [.pop]))).working = s.working :=
  pop_restores_exact (concreteKernel c) s inner hb (refetch_exact_ick hc hs)

/-- the stack is restored as well -/
theorem pop_restores_concrete_stack (c : IndexCtx) (s : State (List Obj) PVal)
    (inner : List (Op PVal Str)) (hb : Balanced inner) :
    (run (concreteKernel c) s (.push :: (inner ++ [.pop]))).states = s.states :=
  (pop_restores (concreteKernel c) s inner hb).2.1

/-- **anywhere in a history from the initial state**: after a prefix of definition-only edits, pushes,
    pops, `set_state`s and `get_python_object`s, a `push`, any balanced inner history and the matching
    `pop`, the working set is the one current at the `push`. -/
theorem pop_restores_concrete_reachable (c : IndexCtx) (hc : FlatCtx c) (w : List Obj) (hw : Reached c w)
    (pre inner : List (Op PVal Str)) (hg : GoodOps pre) (hb : Balanced inner) :
    (run (concreteKernel c) (init (concreteKernel c) w) (pre ++ .push :: (inner ++ [.pop]))).working
      = (run (concreteKernel c) (init (concreteKernel c) w) pre).working := by
  rw [run_append]
  exact pop_restores_concrete c hc _ (reached_invariant_init c hc w hw pre hg) inner hb

/-- `set_state i` makes the `i`-th saved state itself current (its re-fetch is the identity) -/
theorem set_state_exact (c : IndexCtx) (hc : FlatCtx c) (s : State (List Obj) PVal)
    (hs : StateReached c s) (i : Nat) (w : List Obj) (hi : s.states[i]? = some w) :
    (step (concreteKernel c) s (.setState i)).1.working = w := by
  rw [step_setState_some _ s i w hi]
  exact refetch_exact_ick hc (hs.2 w (List.mem_of_getElem? hi))

/-! ### 5. the same edit twice — the kernel law proved -/

/-- the kernel law restricted to the working sets satisfying `R` -/
def IdemKernelOn (k : Kernel W P E) (R : W → Prop) (e : E) : Prop :=
  ∀ w w', R w → k.merge w e = some w' → k.merge w' e = some w'

/-- **C20, edit idempotence (the kernel law of the concrete kernel).**  On a flat context, for every
    definition-only edit: merging the edit into the result of merging it into a reached working set
    changes nothing.  (Non-multiple parameter: the last value wins, so the second application
    re-installs the same words.  `.multiple` parameter the edit mentions: both applications delete
    all previous instances — only the template survives the deletion, and its candidate carries the
    master's key and is dropped — so both build the block from the edit's definitions alone.
    `.multiple` parameter the edit does not mention: its block is a fixed point of the list rule.) -/
theorem same_edit_twice_concrete (c : IndexCtx) (hc : FlatCtx c) (e : Str) (he : DefEdit e) :
    IdemKernelOn (concreteKernel c) (Reached c) e :=
  fun _ _ hw h => merge_idem_ick hc hw he h

/-- the whole state after the second application is the state after the first -/
theorem same_edit_twice_concrete_state (c : IndexCtx) (hc : FlatCtx c) (e : Str) (he : DefEdit e)
    (s : State (List Obj) PVal) (hs : Reached c s.working) :
    run (concreteKernel c) s [.update e, .update e] = run (concreteKernel c) s [.update e] := by
  simp only [run_cons, run_nil]
  cases h : (concreteKernel c).merge s.working e with
  | none => rw [update_refused h, update_refused h]
  | some w' =>
    rw [update_accepted h]
    rw [update_accepted (w := w') (merge_idem_ick hc hs he h)]

/-- anywhere in a history from the initial state -/
theorem same_edit_twice_concrete_reachable (c : IndexCtx) (hc : FlatCtx c) (w : List Obj)
    (hw : Reached c w) (pre : List (Op PVal Str)) (hg : GoodOps pre) (e : Str) (he : DefEdit e) :
    (run (concreteKernel c) (init (concreteKernel c) w) (pre ++ [.update e, .update e])).working =
    (run (concreteKernel c) (init (concreteKernel c) w) (pre ++ [.update e])).working := by
  rw [run_append, run_append,
    same_edit_twice_concrete_state c hc e he _ (reached_invariant_init c hc w hw pre hg)]

/-- the generic theorem of Phil/Props/C20.lean follows whenever the law holds on the working set at hand -/
theorem idemKernelOn_of_idemKernel (k : Kernel W P E) (R : W → Prop) (e : E) (h : IdemKernel k e) :
    IdemKernelOn k R e := fun w w' _ hm => h w w' hm

/-! ### 6. a literal context: a plain int, a `.multiple` str, a bool -/

/-- ```
    n = 1
      .type = int
    s = a
      .type = str
      .multiple = True
    b = True
      .type = bool
    ``` -/
def exMasterText : Str :=
  "n = 1\n  .type = int\ns = a\n  .type = str\n  .multiple = True\nb = True\n  .type = bool\n".toList

def exMaster : List Obj := match parseObjs exMasterText with | .ok m => m | .error _ => []

def exC : IndexCtx := { envs := env12, master := exMaster, multiple := [['s']] }

/-- the initial working set `master.fetch()` -/
def exW0 : List Obj :=
  match fetchRoot exC.envs false exC.master [] with | .ok (r, _) => r.children | .error _ => []

/-- what is compared: name, template flag, word values of every object -/
def obs (w : List Obj) : List (String × Int × List String) :=
  w.map (fun k => (String.ofList k.name, k.meta.tmpl, k.words.map (fun x => String.ofList x.value)))

local notation "K₀" => concreteKernel exC

def e1 : Str := "s = x\ns = y\nn = 2".toList
def e2 : Str := "b = False".toList
def e3 : Str := "s = z".toList
/-- an edit that does not parse -/
def eBad : Str := "n = 3 }".toList

example : (exMaster.map (fun o => (String.ofList o.name, isMultiple o))) =
    [("n", false), ("s", true), ("b", false)] := by decide +kernel

theorem exC_flat : FlatCtx exC := flatCtx_of_B_ick (by decide +kernel)

theorem e1_def : DefEdit e1 := defEdit_of_B_ick (by decide +kernel)
theorem e2_def : DefEdit e2 := defEdit_of_B_ick (by decide +kernel)
theorem e3_def : DefEdit e3 := defEdit_of_B_ick (by decide +kernel)
theorem eBad_def : DefEdit eBad := defEdit_of_B_ick (by decide +kernel)

theorem exW0_reached : Reached exC exW0 := by
  have hok : (errOf (fetchRoot exC.envs false exC.master [])).isNone = true := by decide +kernel
  obtain ⟨⟨r, u⟩, hr⟩ := ok_of_errOf_none hok
  have : exW0 = r.children := by unfold exW0; rw [hr]
  rw [this]
  exact init_reached exC exC_flat r u hr

example : obs exW0 = [("n", 0, ["1"]), ("s", 1, ["a"]), ("b", 0, ["True"])] := by decide +kernel

/-- one edit: `n` takes the last value, `s` gets its two instances after the template -/
example : obs (run K₀ (init K₀ exW0) [.update e1]).working =
    [("n", 0, ["2"]), ("s", -1, ["a"]), ("s", 0, ["x"]), ("s", 0, ["y"]), ("b", 0, ["True"])] := by
  decide +kernel

/-- a later edit of `s` REPLACES the instances (deletion of the redundant paths) -/
example : obs (run K₀ (init K₀ exW0) [.update e1, .update e3]).working =
    [("n", 0, ["2"]), ("s", -1, ["a"]), ("s", 0, ["z"]), ("b", 0, ["True"])] := by
  decide +kernel

/-- a refused edit changes nothing -/
example : (Kernel.merge K₀ (run K₀ (init K₀ exW0) [.update e1]).working eBad).isNone = true := by decide +kernel

/-- fetching does not type-check the value of a non-multiple parameter: `n = oops` is merged (the
    library does the same; the error surfaces at extraction) -/
example : (Kernel.merge K₀ exW0 "n = oops".toList).map obs =
    some [("n", 0, ["oops"]), ("s", 1, ["a"]), ("b", 0, ["True"])] := by decide +kernel

/-- a balanced inner history with a nested bracket, edits of all three parameters and a
    `get_python_object` -/
def exInner : List (Op PVal Str) := [.update e2, .push, .update e3, .pop, .getPython, .update e3]

theorem exInner_balanced : Balanced exInner :=
  .update e2 (.push (inner := [.update e3]) (.update e3 .nil) (.getPython (.update e3 .nil)))

/-- the history before the bracket -/
def exPre : List (Op PVal Str) := [.update e1]

theorem exPre_good : GoodOps exPre := ⟨e1_def, trivial⟩

/-- the working set really moved inside the bracket … -/
example : obs (run K₀ (init K₀ exW0) ([.update e1] ++ .push :: exInner)).working =
    [("n", 0, ["2"]), ("s", -1, ["a"]), ("s", 0, ["z"]), ("b", 0, ["False"])] := by decide +kernel

/-- … and the matching pop restores it: by evaluation … -/
example : obs (run K₀ (init K₀ exW0) ([.update e1] ++ .push :: (exInner ++ [.pop]))).working =
    obs (run K₀ (init K₀ exW0) [.update e1]).working := by decide +kernel

/-- … and by the theorem (equality of the working sets themselves, not only of what `obs` shows) -/
example : (run K₀ (init K₀ exW0) (exPre ++ .push :: (exInner ++ [.pop]))).working =
    (run K₀ (init K₀ exW0) exPre).working :=
  pop_restores_concrete_reachable exC exC_flat exW0 exW0_reached exPre exInner exPre_good exInner_balanced

/-- `set_state` inside the bracket does not disturb the restoration either -/
example : obs (run K₀ (init K₀ exW0)
      ([.update e1] ++ .push :: ([.update e2, .push, .update e3, .setState 0, .pop] ++ [.pop]))).working =
    [("n", 0, ["2"]), ("s", -1, ["a"]), ("s", 0, ["x"]), ("s", 0, ["y"]), ("b", 0, ["True"])] := by
  decide +kernel

/-- the same edit twice: by evaluation … -/
example : obs (run K₀ (init K₀ exW0) [.update e1, .update e1]).working =
    obs (run K₀ (init K₀ exW0) [.update e1]).working := by decide +kernel

example : obs (run K₀ (init K₀ exW0) [.update e1, .update e3, .update e3]).working =
    [("n", 0, ["2"]), ("s", -1, ["a"]), ("s", 0, ["z"]), ("b", 0, ["True"])] := by decide +kernel

/-- … and by the theorem -/
example : (run K₀ (init K₀ exW0) (exPre ++ [.update e3, .update e3])).working =
    (run K₀ (init K₀ exW0) (exPre ++ [.update e3])).working :=
  same_edit_twice_concrete_reachable exC exC_flat exW0 exW0_reached exPre exPre_good e3 e3_def

/-- the invariant on the instance: the working set after the history is reached, hence a fixed point
    of the re-fetch -/
def exHist : List (Op PVal Str) := [.update e1, .push, .update e3, .pop, .setState 0]

theorem exHist_good : GoodOps exHist := ⟨e1_def, e3_def, trivial⟩

example : Kernel.refetch K₀ (run K₀ (init K₀ exW0) exHist).working = (run K₀ (init K₀ exW0) exHist).working :=
  refetch_exact exC exC_flat _ (reached_invariant_init exC exC_flat exW0 exW0_reached exHist exHist_good)

/-! #### why `Reached` is needed -/

/-- a working set that is NOT a fetch result: the template-flagged `s` object carries the value `q`
    instead of the master's `a` -/
def exWbad : List Obj :=
  exW0.map (fun o => if o.name == ['s'] then
    (match o with | .defn m _ => Obj.defn m [{ value := ['q'] }] | o => o) else o)

/-- **the kernel law over ALL working sets is false in the model** (so `IdemKernel (concreteKernel c) e`
    is not provable; `IdemKernelOn … (Reached c)` is the law that holds): from `exWbad` the first
    application of `s = z` keeps `q` as an instance (the deletion spares template-flagged objects),
    the second one deletes it. -/
theorem idem_needs_reached :
    (Kernel.merge K₀ exWbad e3).map obs =
      some [("n", 0, ["1"]), ("s", -1, ["a"]), ("s", 0, ["q"]), ("s", 0, ["z"]), ("b", 0, ["True"])] ∧
    ((Kernel.merge K₀ exWbad e3).bind (fun w => Kernel.merge K₀ w e3)).map obs =
      some [("n", 0, ["1"]), ("s", -1, ["a"]), ("s", 0, ["z"]), ("b", 0, ["True"])] ∧
    ¬ IdemKernel K₀ e3 := by
  refine ⟨by decide +kernel, by decide +kernel, ?_⟩
  intro h
  cases hm : Kernel.merge K₀ exWbad e3 with
  | none =>
    have : (Kernel.merge K₀ exWbad e3).isSome = true := by decide +kernel
    rw [hm] at this; cases this
  | some w1 =>
    have h2 := h exWbad w1 hm
    have hne : ((Kernel.merge K₀ exWbad e3).bind (fun w => Kernel.merge K₀ w e3)).map obs ≠
        (Kernel.merge K₀ exWbad e3).map obs := by decide +kernel
    apply hne
    rw [hm]
    show (Kernel.merge K₀ w1 e3).map obs = _
    rw [h2]

/-- the Python object `n = 1, s = ['a'], b = True`: the list of `s` holds the master's own value -/
def exPv : PVal :=
  .record [(['n'], .num (.int 1)), (['s'], .multi .none [.str ['a']]), (['b'], .bool true)]

/-- the values of `s` in an extracted Python object -/
def sValues : Option PVal → Option (List String)
  | some (.record fs) =>
    (match fieldGet fs ['s'] with
     | some (.multi _ l) => some (l.map (fun v => match v with | .str s => String.ofList s | _ => "?"))
     | _ => none)
  | _ => none

/-- **`update_from_python` is necessarily outside the invariant: after it, pop does NOT restore
    exactly.**  `update_from_python(obj)` installs `master.format(obj)` — the instance `s = a` and no
    template — which is not a fetch result; `push_state` saves `master.fetch(working)`, where the list
    rule drops the instance equal to the master's value (and duplicates) and inserts the template.
    After the matching `pop` the working set differs from the one current at the `push`, and so does
    its extraction: `s = ['a']` before, `s = []` after.

    The library behaves the same (replayed on the unchanged tree):
    ```
    m = freephil.parse("s = a\n .type = str\n .multiple = True\n")
    ix = freephil.interface.index(master_phil=m)
    p = ix.get_python_object(); p.s = ['a']            # also ['x','x'] -> ['x'],  ['a','x'] -> ['x']
    ix.update_from_python(p)
    ix.working_phil.extract().s      # ['a']
    ix.push_state(); ix.pop_state()
    ix.working_phil.extract().s      # []
    ``` -/
theorem pop_not_exact_after_fromPython :
    obs (run K₀ (init K₀ exW0) [.updateFromPython (some exPv)]).working =
      [("n", 0, ["1"]), ("s", 0, ["a"]), ("b", 0, ["True"])] ∧
    obs (run K₀ (init K₀ exW0) [.updateFromPython (some exPv), .push, .pop]).working =
      [("n", 0, ["1"]), ("s", 1, ["a"]), ("b", 0, ["True"])] ∧
    sValues (Kernel.extract K₀ (run K₀ (init K₀ exW0) [.updateFromPython (some exPv)]).working) = some ["a"] ∧
    sValues (Kernel.extract K₀ (run K₀ (init K₀ exW0) [.updateFromPython (some exPv), .push, .pop]).working)
      = some [] ∧
    (run K₀ (init K₀ exW0) [.updateFromPython (some exPv), .push, .pop]).working ≠
      (run K₀ (init K₀ exW0) [.updateFromPython (some exPv)]).working := by
  refine ⟨by decide +kernel, by decide +kernel, by decide +kernel, by decide +kernel, ?_⟩
  intro h
  have h1 : obs (run K₀ (init K₀ exW0) [.updateFromPython (some exPv), .push, .pop]).working ≠
      obs (run K₀ (init K₀ exW0) [.updateFromPython (some exPv)]).working := by decide +kernel
  exact h1 (by rw [h])

end Phil.C20
