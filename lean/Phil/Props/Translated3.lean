/-
  Phil.Props.Translated3 — third batch of translated pieces (harness/translate.py, Phil/Generated/Translated.lean)
  proved EQUAL to the hand-written model: `number_from_value_string` (C10), `full_path` (C18/C13), the printer
  decisions of `definition.show` / `show_attributes` (C01, C19, C04).
-/
import Phil.Generated.Translated
import Phil.Conv
import Phil.Show
import Phil.IncludeParents
import Phil.Props.Translated
namespace Phil.Translated3

/-! ### converters.number_from_value_string

Python computes `value_string.lower().strip()`, the model `lower (strip s)`.  With the model's ASCII `lower` and
the `str.isspace` table `isSpace` the two commute on ALL strings (an ASCII capital and its lower-case letter are both
non-space; every other character is unchanged). -/

theorem toNat_ofNat_small (n : Nat) (h : n < 0xd800) : (Char.ofNat n).toNat = n := by
  have hv : n.isValidChar := Or.inl h
  simp only [Char.ofNat, hv, dite_true]
  show (Char.ofNatAux n hv).val.toNat = n
  unfold Char.ofNatAux
  rfl

theorem isSpace_lowerChar (c : Char) : isSpace (lowerChar c) = isSpace c := by
  unfold lowerChar
  split
  · rename_i h
    have hA : 'A'.toNat = 65 := by decide
    have hZ : 'Z'.toNat = 90 := by decide
    simp only [isUpperAscii, Bool.and_eq_true, decide_eq_true_eq, hA, hZ] at h
    have hv := toNat_ofNat_small (c.toNat + 32) (by omega)
    have e1 : isSpace (Char.ofNat (c.toNat + 32)) = false := by
      unfold isSpace
      simp only [hv]
      simp only [Bool.or_eq_false_iff, Bool.and_eq_false_iff, decide_eq_false_iff_not, beq_eq_false_iff_ne]
      omega
    have e2 : isSpace c = false := by
      unfold isSpace
      simp only [Bool.or_eq_false_iff, Bool.and_eq_false_iff, decide_eq_false_iff_not, beq_eq_false_iff_ne]
      omega
    rw [e1, e2]
  · rfl

theorem dropWhile_isSpace_lower (s : Str) : (lower s).dropWhile isSpace = lower (s.dropWhile isSpace) := by
  induction s with
  | nil => rfl
  | cons c r ih =>
    show (lowerChar c :: lower r).dropWhile isSpace = _
    simp only [List.dropWhile_cons, isSpace_lowerChar]
    split
    · exact ih
    · rfl

theorem lower_reverse (s : Str) : lower s.reverse = (lower s).reverse := by
  simp [lower, List.map_reverse]

/-- `.lower().strip()` (Python's order) = `lower (strip s)` (the model's order): all strings -/
theorem strip_lower (s : Str) : strip (lower s) = lower (strip s) := by
  unfold strip
  rw [dropWhile_isSpace_lower, ← lower_reverse, dropWhile_isSpace_lower, lower_reverse]

/-- the continuation of `number_from_value_string` after the spelling checks (`int(value_string)`, then
    `eval(value_string, math.__dict__, {})`): the harness's eval answer for the text -/
def evalTail (env : EvalEnv) (ws : List Word) (s : Str) : R PVal :=
  match env s with
  | Option.none => .error (.unsupported "value string without an eval answer")
  | some (.num n) => .ok (.num n)
  | some (.bool b) => .ok (.bool b)
  | some .noneVal => .ok .none
  | some .other => .ok (.str [])
  | some .raises => .error (wordsErr "numeric_expected" ws)

/-- the translated `number_from_value_string` on a `str` object is the model's `numberFromValueString`
    (all strings, all word lists, all eval environments) -/
theorem number_from_value_string_eq (env : EvalEnv) (ws : List Word) (s : Str) :
    Gen.number_from_value_string (evalTail env ws s) (.str s) ws = numberFromValueString env ws s := by
  unfold Gen.number_from_value_string numberFromValueString evalTail
  simp only [Py.isNone, Py.isAuto, Py.strOf, Py.lower, strip_lower, Py.where_, wordsErr, Bool.false_eq_true, if_false]
  have e1 : ("true".toList : Str) = ['t','r','u','e'] := by decide
  have e2 : ("false".toList : Str) = ['f','a','l','s','e'] := by decide
  have e3 : ("none".toList : Str) = ['n','o','n','e'] := by decide
  have e4 : ("auto".toList : Str) = ['a','u','t','o'] := by decide
  rw [e1, e2, e3, e4]
  simp only [List.contains_cons, List.contains_nil, Bool.or_false]
  rfl

/-- on `None` / `Auto` the function returns the object (the model handles these at the word-list level) -/
theorem number_from_value_string_none (t : R PVal) (ws : List Word) :
    Gen.number_from_value_string t .none ws = .ok .none := rfl
theorem number_from_value_string_auto (t : R PVal) (ws : List Word) :
    Gen.number_from_value_string t .auto ws = .ok .auto := rfl

example : Gen.number_from_value_string (.ok (.num (.int 7))) (.str " \tNoNe ".toList) [] = .ok .none := by rfl
example : Gen.number_from_value_string (.ok (.num (.int 7))) (.str " TRUE\n".toList) [{ value := "x".toList, line := some 3 }]
    = .error (.runtime "numeric_expected" (some 3)) := by rfl

/-! ### common.full_path

The translator turns `while pps is not None:` over `primary_parent_scope` into a structural recursion over the
list of the ancestors' names (innermost first; the end of the list is `None`).  The model's parent chain is a
`PChain` (Phil/IncludeParents.lean); its names are `par.map (·.name)`. -/

theorem full_path_climb_eq (ps : PChain) (acc : List Str) :
    Gen.full_path_climb (ps.map (·.name)) acc = acc ++ climbNames ps := by
  induction ps generalizing acc with
  | nil => simp [Gen.full_path_climb, climbNames]
  | cons f rest ih =>
    simp only [List.map_cons, Gen.full_path_climb, climbNames]
    cases hn : f.name with
    | nil => simp
    | cons c cs =>
      have h1 : ((c :: cs) == ([] : Str)) = false := rfl
      simp only [h1, Bool.false_eq_true, if_false, List.isEmpty_cons, ih]
      simp

/-- the translated `full_path` on the names of a parent chain is the model's `fullPathOf` (all names, all chains) -/
theorem full_path_eq (name : Str) (par : PChain) :
    Gen.full_path name (par.map (·.name)) = fullPathOf name par := by
  unfold Gen.full_path fullPathOf Py.join
  simp only [full_path_climb_eq]
  rfl

/-- `o.full_path()` of an object with parent links -/
theorem full_path_obj_eq (o : PObj) : Gen.full_path o.name (o.par.map (·.name)) = fullPathP o :=
  full_path_eq o.name o.par

example : Gen.full_path "d".toList ["b.c".toList, "a".toList, [], "zz".toList] = "a.b.c.d".toList := by decide

/-! ### printer decisions: show_attributes -/

theorem attrIsNone_eq (v : AttrVal) : Py.attrIsNone v = v.isNone := by cases v <;> rfl
theorem attrTruthy_eq (v : AttrVal) : Py.attrTruthy v = v.truthy := by cases v <;> rfl

theorem name_beq (name lit : String) : (name.toList == lit.toList) = (name == lit) := by
  rw [Bool.eq_iff_iff]
  simp only [beq_iff_eq]
  exact String.toList_inj

theorem lit_help : (['h', 'e', 'l', 'p'] : Str) = "help".toList := by decide
theorem lit_alias : (['a', 'l', 'i', 'a', 's'] : Str) = "alias".toList := by decide
theorem lit_deprecated : (['d', 'e', 'p', 'r', 'e', 'c', 'a', 't', 'e', 'd'] : Str) = "deprecated".toList := by decide

/-- `if attributes_level <= 0: return` -/
theorem attr_level_off_eq (level : Int) : Gen.attr_level_off level = decide (level ≤ 0) := rfl

/-- `(name == "deprecated") and (not value)` -/
theorem attr_skip_deprecated_eq (name : String) (v : AttrVal) :
    Gen.attr_skip_deprecated name.toList v = (name == "deprecated" && !v.truthy) := by
  unfold Gen.attr_skip_deprecated
  rw [lit_deprecated, name_beq, attrTruthy_eq]

/-- the level gate: which attribute is printed at which `attributes_level` (the chain of `or`s) -/
theorem attr_level_gate_eq (name : String) (v : AttrVal) (level : Int) :
    Gen.attr_level_gate name.toList v level
      = ((name == "help" && !v.isNone) || (name == "alias" && !v.isNone) ||
         (!v.isNone && decide (level > 1)) || decide (level > 2)) := by
  unfold Gen.attr_level_gate
  rw [lit_help, lit_alias, name_beq, name_beq, attrIsNone_eq]

/-- `(name == "alias") and (value is None)` -/
theorem attr_skip_alias_eq (name : String) (v : AttrVal) :
    Gen.attr_skip_alias name.toList v = (name == "alias" && v.isNone) := by
  unfold Gen.attr_skip_alias
  rw [lit_alias, name_beq, attrIsNone_eq]

theorem flatten_replicate_single (n : Nat) (c : Char) : (List.replicate n [c]).flatten = List.replicate n c := by
  induction n with
  | zero => rfl
  | succ n ih => simp [List.replicate_succ, ih]

/-- `indent = prefix + " " * (3 + len(name) + 3)` -/
theorem attr_indent_eq (pfx : Str) (name : String) :
    Gen.attr_indent pfx name.toList = pfx ++ spaces (3 + name.length + 3) := by
  unfold Gen.attr_indent Py.repeat_ Py.len spaces
  rw [flatten_replicate_single]
  congr 2

/-- `fits_on_one_line = len(indent + value) < print_width` (both assignments) -/
theorem attr_fits_eq (indent v : Str) (width : Int) :
    Gen.attr_fits indent v width = decide (((indent ++ v).length : Int) < width) := rfl
theorem attr_fits_quoted_eq (indent v : Str) (width : Int) :
    Gen.attr_fits_quoted indent v width = decide (((indent ++ v).length : Int) < width) := rfl

theorem lit_none_auto (t : Str) :
    ([['n', 'o', 'n', 'e'], ['a', 'u', 't', 'o']] : List Str).contains t
      = (t == "none".toList || t == "auto".toList) := by
  have e3 : ("none".toList : Str) = ['n','o','n','e'] := by decide
  have e4 : ("auto".toList : Str) = ['a','u','t','o'] := by decide
  rw [e3, e4]
  simp only [List.contains_cons, List.contains_nil, Bool.or_false]

/-- the quoting decision for a string attribute: not a standard identifier, or `lower()` in (none, auto), or does
    not fit -/
theorem attr_need_quote_eq (v : Str) (fits : Bool) :
    Gen.attr_need_quote v fits
      = (!isStdIdent v || lower v == "none".toList || lower v == "auto".toList || !fits) := by
  unfold Gen.attr_need_quote
  rw [Translated.is_standard_identifier_eq, lit_none_auto, Py.lower]
  simp only [Bool.or_assoc]

/-- one attribute of `show_attributes`, written with the TRANSLATED decisions (the statements between them —
    the `print` calls, `str(tokenizer.word(...))`, `textwrap.wrap` — as in the model) -/
def attrStepGen (attrs : Attrs) (prefix_ : Str) (level width : Int) (out : List Str) (name : String) : R (List Str) :=
  let value := attrs.get name
  if Gen.attr_skip_deprecated name.toList value then .ok out
  else if Gen.attr_level_gate name.toList value level then
    if Gen.attr_skip_alias name.toList value then .ok out
    else
      let head := prefix_ ++ "  .".toList ++ name.toList ++ " = ".toList
      match value with
      | .str v =>
        let indent := Gen.attr_indent prefix_ name.toList
        let fits0 := Gen.attr_fits indent v width
        let needQuote := Gen.attr_need_quote v fits0
        let v' := if needQuote then quoteStr .d1 v else v
        let fits1 := if needQuote then Gen.attr_fits_quoted indent v' width else fits0
        if fits1 then .ok (out ++ [head ++ v'])
        else
          let w : Int := width - 2 - indent.length
          if w ≤ 0 then .error (.stray "ValueError" "textwrap_width")
          else if v'.contains '\t' then .error (.unsupported "tab in wrapped attribute")
          else
            let inner := (v'.drop 1).take (v'.length - 2)
            let blocks := twWrap inner w.toNat
            let lines := blocks.zipIdx.map fun (b, i) =>
              if i == 0 then head ++ '"' :: b ++ ['"'] else indent ++ '"' :: b ++ ['"']
            .ok (out ++ lines)
      | v => .ok (out ++ [head ++ v.pyStr])
  else .ok out

theorem bool_if {α : Type} (p : Prop) [Decidable p] (a b : α) :
    (if decide p = true then a else b) = (if p then a else b) := by
  by_cases h : p <;> simp [h]

/-- the model's `showAttributes` is the loop over the attribute names with the translated decisions
    (all name lists, attribute tables, prefixes, levels, widths) -/
theorem showAttributes_eq_gen (names : List String) (attrs : Attrs) (prefix_ : Str) (level width : Int) :
    showAttributes names attrs prefix_ level width
      = if Gen.attr_level_off level then .ok []
        else names.foldlM (init := []) (attrStepGen attrs prefix_ level width) := by
  unfold showAttributes
  rw [attr_level_off_eq, bool_if]
  split
  · rfl
  · congr 1
    funext out name
    unfold attrStepGen
    simp only [attr_skip_deprecated_eq, attr_level_gate_eq, attr_skip_alias_eq, attr_indent_eq, attr_fits_eq,
      attr_fits_quoted_eq, attr_need_quote_eq]
    cases attrs.get name with
    | str v =>
      dsimp only
      cases hq : (!isStdIdent v || lower v == "none".toList || lower v == "auto".toList ||
          !decide (((prefix_ ++ spaces (3 + name.length + 3) ++ v).length : Int) < width))
      · simp only [Bool.false_eq_true, if_false]
      · simp only [if_true]
    | none => rfl
    | auto => rfl
    | bool b => rfl
    | int i => rfl
    | conv c => rfl

/-! ### printer decisions: definition.show / scope.show -/

/-- an `expert_level` attribute that holds `None` or an int (what the parser's `int` converter stores) -/
def optIntAttr : Option Int → AttrVal
  | Option.none => .none
  | some e => .int e

/-- the expert gate `self.expert_level is not None and expert_level is not None and expert_level >= 0 and
    self.expert_level > expert_level` is the model's `expertHidden` (all `None`-able ints) -/
theorem definition_expert_gate_eq (e k : Option Int) :
    expertHidden (optIntAttr e) k = .ok (Gen.definition_expert_gate e k) := by
  cases e <;> cases k <;> simp [expertHidden, optIntAttr, Gen.definition_expert_gate, Py.getInt]

theorem scope_expert_gate_eq (e k : Option Int) :
    expertHidden (optIntAttr e) k = .ok (Gen.scope_expert_gate e k) := by
  cases e <;> cases k <;> simp [expertHidden, optIntAttr, Gen.scope_expert_gate, Py.getInt]

/-- the `None`-able-int hypothesis on the attribute is sharp: with a string in `.expert_level` Python's `>` raises
    TypeError (model: a stray error), the translated Boolean expression cannot -/
theorem expert_gate_str_raises :
    expertHidden (.str "x".toList) (some 0) = .error (.stray "TypeError" "expert_level_compare") := by rfl

/-- `self.is_template < 0 and attributes_level < 2` -/
theorem definition_template_gate_eq (tmpl level : Int) :
    Gen.definition_template_gate tmpl level = (decide (tmpl < 0) && decide (level < 2)) := rfl
theorem scope_template_gate_eq (tmpl level : Int) :
    Gen.scope_template_gate tmpl level = (decide (tmpl < 0) && decide (level < 2)) := rfl

/-- `self.deprecated and attributes_level < 3` -/
theorem definition_deprecated_gate_eq (dep : AttrVal) (level : Int) :
    Gen.definition_deprecated_gate dep level = (dep.truthy && decide (level < 3)) := by
  unfold Gen.definition_deprecated_gate
  rw [attrTruthy_eq]

/-- the three gates of `definition.show` in the translated form: a definition whose `expert_level` is `None` or an
    int prints nothing exactly when one of them holds … -/
theorem showDefn_hidden (o : ShowOpts) (m : Meta) (words : List Word) (merged : List Str) (prefix_ : Str)
    (e : Option Int) (he : m.attrs.get "expert_level" = optIntAttr e)
    (h : (Gen.definition_template_gate m.tmpl o.level
          || Gen.definition_deprecated_gate (m.attrs.get "deprecated") o.level
          || Gen.definition_expert_gate e o.expert) = true) :
    showDefn o m words merged prefix_ = .ok [] := by
  unfold showDefn
  rw [he, definition_expert_gate_eq]
  rw [definition_template_gate_eq, definition_deprecated_gate_eq] at h
  simp only [Bool.or_eq_true, Bool.and_eq_true, decide_eq_true_eq] at h
  by_cases h1 : m.tmpl < 0 ∧ o.level < 2
  · simp [h1]
  · by_cases h2 : (m.attrs.get "deprecated").truthy = true ∧ o.level < 3
    · simp [h1, h2]
    · have h3 : Gen.definition_expert_gate e o.expert = true := by
        rcases h with (h | h) | h
        · exact absurd h h1
        · exact absurd h h2
        · exact h
      simp [h1, h2, h3]

/-- … and otherwise prints the name line, the words and the attributes (`showDefnBody`: the rest of the model's
    `showDefn`) -/
def showDefnBody (o : ShowOpts) (m : Meta) (words : List Word) (merged : List Str) (prefix_ : Str) : R (List Str) :=
  let dep := (m.attrs.get "deprecated").truthy
  let hash : Str := if m.disabled then ['!'] else []
  let line0 := prefix_ ++ hash ++ joinWith ['.'] (merged ++ [m.name])
  let line := if m.name != "include".toList then line0 ++ " =".toList else line0
  let indent := prefix_ ++ spaces (line.length - prefix_.length)
  let warn := if dep then [prefix_ ++ "# WARNING: deprecated parameter".toList] else []
  let body := showWords o.width indent words line []
  match showAttributes defAttrNames m.attrs prefix_ o.level o.width with
  | .error e => .error e
  | .ok attrs => .ok (warn ++ body ++ attrs)

theorem showDefn_shown (o : ShowOpts) (m : Meta) (words : List Word) (merged : List Str) (prefix_ : Str)
    (e : Option Int) (he : m.attrs.get "expert_level" = optIntAttr e)
    (h : (Gen.definition_template_gate m.tmpl o.level
          || Gen.definition_deprecated_gate (m.attrs.get "deprecated") o.level
          || Gen.definition_expert_gate e o.expert) = false) :
    showDefn o m words merged prefix_ = showDefnBody o m words merged prefix_ := by
  unfold showDefn showDefnBody
  rw [he, definition_expert_gate_eq]
  simp only [Bool.or_eq_false_iff] at h
  obtain ⟨⟨h1, h2⟩, h3⟩ := h
  rw [definition_template_gate_eq] at h1
  rw [definition_deprecated_gate_eq] at h2
  simp only [h1, h2, h3, Bool.false_eq_true, if_false]
  cases showAttributes defAttrNames m.attrs prefix_ o.level o.width <;> rfl

/-- the line-continuation test of the word loop of `definition.show`:
    `len(line_plus) > print_width - 2 and len(line) > len(indent)` -/
theorem definition_wrap_test_eq (linePlus line indent : Str) (width : Int) :
    Gen.definition_wrap_test linePlus width line indent
      = (decide ((linePlus.length : Int) > width - 2) && decide (line.length > indent.length)) := by
  unfold Gen.definition_wrap_test Py.len
  congr 1
  simp

/-- one step of the model's word loop with the translated test -/
theorem showWords_cons_gen (width : Int) (indent : Str) (w : Word) (ws : List Word) (line : Str) (out : List Str) :
    showWords width indent (w :: ws) line out
      = if Gen.definition_wrap_test (line ++ ' ' :: w.str) width line indent then
          showWords width indent ws (indent ++ ' ' :: w.str) (out ++ [line ++ " \\".toList])
        else showWords width indent ws (line ++ ' ' :: w.str) out := by
  rw [definition_wrap_test_eq]
  rfl

/-! concrete instances (hypotheses satisfiable; the decisions on parsed input) -/

def okAnd3 {α : Type} (x : R α) (p : α → Bool) : Bool := match x with | .ok a => p a | .error _ => false

/-- `full_path_obj_eq` on every object of a parsed text (Python: `['s', 's.t', 's.t.u', 's.t.u.a']`) -/
example : okAnd3 (parseObjs "s {\n t.u {\n  a = 1\n }\n}\n".toList) (fun objs =>
    (nodesP (annotL (rootChain objs) objs)).map (fun o => Gen.full_path o.name (o.par.map (·.name)))
      == ["s".toList, "s.t".toList, "s.t.u".toList, "s.t.u.a".toList]) = true := by decide +kernel

/-- the hypotheses of `showDefn_hidden` (expert level 1) and `showDefn_shown` (expert level 2) hold on a parsed
    definition with `.expert_level = 2` -/
example : okAnd3 (parseObjs "a = 1\n  .expert_level = 2\n  .help = None\n".toList) (fun objs => match objs with
    | [.defn m _] => decide (m.attrs.get "expert_level" = optIntAttr (some 2))
        && (Gen.definition_template_gate m.tmpl 0 || Gen.definition_deprecated_gate (m.attrs.get "deprecated") 0
            || Gen.definition_expert_gate (some 2) (some 1))
        && !(Gen.definition_template_gate m.tmpl 0 || Gen.definition_deprecated_gate (m.attrs.get "deprecated") 0
            || Gen.definition_expert_gate (some 2) (some 2))
    | _ => false) = true := by decide +kernel

example : Gen.attr_need_quote "None".toList true = true := by decide
example : Gen.attr_need_quote "a b".toList true = true := by decide
example : Gen.attr_need_quote "a.b".toList true = false := by decide
example : Gen.attr_need_quote "a.b".toList false = true := by decide
example : Gen.attr_level_gate "help".toList (.str "x".toList) 1 = true := by decide
example : Gen.attr_level_gate "caption".toList (.str "x".toList) 1 = false := by decide
example : Gen.attr_level_gate "caption".toList .none 3 = true := by decide
example : Gen.definition_expert_gate (some 2) (some 1) = true := by decide
example : Gen.definition_expert_gate (some 2) (some (-1)) = false := by decide
example : Gen.attr_indent "  ".toList "help".toList = "            ".toList := by decide

end Phil.Translated3

#print axioms Phil.Translated3.full_path_eq
#print axioms Phil.Translated3.full_path_obj_eq
#print axioms Phil.Translated3.attr_level_off_eq
#print axioms Phil.Translated3.attr_skip_deprecated_eq
#print axioms Phil.Translated3.attr_level_gate_eq
#print axioms Phil.Translated3.attr_skip_alias_eq
#print axioms Phil.Translated3.attr_indent_eq
#print axioms Phil.Translated3.attr_fits_eq
#print axioms Phil.Translated3.attr_fits_quoted_eq
#print axioms Phil.Translated3.attr_need_quote_eq
#print axioms Phil.Translated3.showAttributes_eq_gen
#print axioms Phil.Translated3.definition_expert_gate_eq
#print axioms Phil.Translated3.scope_expert_gate_eq
#print axioms Phil.Translated3.expert_gate_str_raises
#print axioms Phil.Translated3.definition_template_gate_eq
#print axioms Phil.Translated3.scope_template_gate_eq
#print axioms Phil.Translated3.definition_deprecated_gate_eq
#print axioms Phil.Translated3.showDefn_hidden
#print axioms Phil.Translated3.showDefn_shown
#print axioms Phil.Translated3.definition_wrap_test_eq
#print axioms Phil.Translated3.showWords_cons_gen



#print axioms Phil.Translated3.strip_lower
#print axioms Phil.Translated3.number_from_value_string_eq
