/-
  C16 (masters with `.multiple` scopes, the annotation pass, the expert tie-break) — User mistakes
  surface as RuntimeError or Sorry, never as internal errors; every call returns.

    A. `scope.fetch` on `MSMaster` masters (nested scopes, `.multiple` or not, `.multiple` definitions,
       sibling names distinct) against ARBITRARY sources, WITHOUT the hypothesis `KeysDefinedMS` of
       `fetch_ms_no_stray` (Props/C16More.lean): `fetch_ms_errors`, `fetchRoot_ms_errors` — ok,
       RuntimeError "incompatible", or the error of a converter call (`definition.extract` =
       `type.from_words`, `definition.format` = `type.as_words`) made while a candidate of a `.multiple`
       object is rendered for the list rule.  Never `stray`, never `outOfFuel`.
    B. `scope.extract` of such a fetch result: `extract_ms_no_stray` — ok or a converter error.
    C. the annotation pass `preResolve` (Phil/Vars.lean): every error it records is one of the five
       variable sites or "unsupported" (`preResolve_err_sites`); fetch of sources WITH `$variables`
       against a `TreeMaster` (`fetch_with_variables_errors`): ok, "incompatible", or the RuntimeError
       of `resolve_variables` at one of the five sites.
    D. the expert tie-break with `.expert_level = Auto` (model repaired in Phil/CmdLineAuto.lean, the
       driver answers with `processArgA`): `choosePathA_stray_iff` (TypeError iff the name matches, the
       best class is not a single target and a best match carries an — inherited — `Auto` level),
       `processArgA_no_stray` (that TypeError is the ONLY stray of `process_arg`),
       `processArgA_no_auto` (= `processArg` when no target carries `Auto`).
  Property theorems only; lemmas are in Phil/Proofs/NoStray3.lean.
-/
import Phil.Proofs.NoStray3
import Phil.Props.C16More
import Phil.Props.C12Fetch
namespace Phil.C16
open Phil Phil.C12

local instance exceptDecEqC16MS {ε α : Type} [DecidableEq ε] [DecidableEq α] : DecidableEq (Except ε α) :=
  fun a b =>
  match a, b with
  | .ok x, .ok y => if h : x = y then isTrue (by rw [h]) else isFalse (fun h' => by cases h'; exact h rfl)
  | .error x, .error y => if h : x = y then isTrue (by rw [h]) else isFalse (fun h' => by cases h'; exact h rfl)
  | .ok _, .error _ => isFalse (fun h => by cases h)
  | .error _, .ok _ => isFalse (fun h => by cases h)

/-! ### A. fetch on `MSMaster` masters, keys not assumed to be defined -/

/-- **the two converter call sites.**  `err` is the error of `definition.extract` (`type.from_words` on
    the words of a candidate) or of `definition.format` (`type.as_words` on the extracted value) of some
    definition, and it is a RuntimeError or "outside the modelled domain" — not a `stray`, not the loop
    bound. -/
def ConverterError (e : Envs) (err : Err) : Prop :=
  ((∃ s l, err = .runtime s l) ∨ (∃ w, err = .unsupported w)) ∧
    ((∃ m ws, extractDefn e m ws = .error err) ∨ (∃ m ws v, formatDefn e m ws v = .error err))

theorem converterError_of_n3 {e : Envs} {err : Err} (h : ConvErr_n3 e err) : ConverterError e err :=
  ⟨(Err.benign_iff err).1 h.1, h.2⟩

/-- **C16, `scope.fetch`, masters WITH `.multiple` scopes and definitions, any sources.**  With fuel
    beyond the nesting depth, a master of the class `MSMaster` whose definitions carry a word, and
    sources whose enabled definitions resolve and carry a word and whose enabled scopes are named (what
    the parser delivers), the fetch returns, and its only failures are RuntimeError "incompatible" (a
    scope where the master has a definition or the reverse) and the RuntimeError a converter raises
    while a candidate of a `.multiple` object — or the master's own block — is rendered
    (`master_object.extract_format(source=candidate).as_str()`).  No `KeysDefinedMS`. -/
theorem fetch_ms_errors (e : Envs) (fuel : Nat) (sm : Meta) (mkids srcs : List Obj)
    (hf : MSMaster mkids) (hw : wordsKidsB_ns mkids = true) (hfuel : depthL mkids < fuel)
    (hsd : sm.disabled = false) (hsrc : SrcTree srcs) (hsw : SrcWords_ns srcs) (err : Err)
    (h : fetchScope e fuel false sm mkids srcs = .error err) :
    err = .runtime "incompatible" none ∨ ConverterError e err := by
  rcases (fetch_ms_good_n3 e fuel sm mkids srcs hf hw hfuel hsd ⟨hsrc, hsw⟩).1 err h with h1 | h1
  · exact .inl h1
  · exact .inr (converterError_of_n3 h1)

/-- never `stray` (none of the ten sites of `fetchRoot_stray_sites` is reachable on this class), never
    the loop bound, never Sorry: the error is a RuntimeError or outside the modelled domain -/
theorem fetch_ms_never_stray (e : Envs) (fuel : Nat) (sm : Meta) (mkids srcs : List Obj)
    (hf : MSMaster mkids) (hw : wordsKidsB_ns mkids = true) (hfuel : depthL mkids < fuel)
    (hsd : sm.disabled = false) (hsrc : SrcTree srcs) (hsw : SrcWords_ns srcs) (err : Err)
    (h : fetchScope e fuel false sm mkids srcs = .error err) :
    (∃ s l, err = .runtime s l) ∨ (∃ w, err = .unsupported w) := by
  rcases fetch_ms_errors e fuel sm mkids srcs hf hw hfuel hsd hsrc hsw err h with h1 | h1
  · exact .inl ⟨_, _, h1⟩
  · exact h1.1

theorem fetch_ms_ne_stray (e : Envs) (fuel : Nat) (sm : Meta) (mkids srcs : List Obj)
    (hf : MSMaster mkids) (hw : wordsKidsB_ns mkids = true) (hfuel : depthL mkids < fuel)
    (hsd : sm.disabled = false) (hsrc : SrcTree srcs) (hsw : SrcWords_ns srcs) (cls site : String) :
    fetchScope e fuel false sm mkids srcs ≠ .error (.stray cls site) ∧
    fetchScope e fuel false sm mkids srcs ≠ .error .outOfFuel := by
  constructor <;> intro h <;>
    rcases fetch_ms_never_stray e fuel sm mkids srcs hf hw hfuel hsd hsrc hsw _ h with ⟨_, _, h1⟩ | ⟨_, h1⟩ <;>
    cases h1

/-- the same at the entry point `master.fetch(sources)` (its fuel is adequate for depth ≤ 1000) -/
theorem fetchRoot_ms_errors (e : Envs) (master : List Obj) (ss : List (List Obj))
    (hf : MSMaster master) (hw : wordsKidsB_ns master = true) (hd : depthL master ≤ 1000)
    (hsrc : SrcTree ss.flatten) (hsw : SrcWords_ns ss.flatten) (err : Err)
    (h : fetchRoot e false master ss = .error err) :
    err = .runtime "incompatible" none ∨ ConverterError e err :=
  fetch_ms_errors e _ _ master ss.flatten hf hw (fetchRoot_fuel_tree master hd) rfl hsrc hsw err h

/-- a successful fetch has the block structure of its master (`RKids_n3`): one block per master child
    in master order, a non-multiple child contributes at most one object, every definition carries a
    word, live scopes are again such results -/
theorem fetch_ms_result_blocks (e : Envs) (fuel : Nat) (sm : Meta) (mkids srcs : List Obj)
    (hf : MSMaster mkids) (hw : wordsKidsB_ns mkids = true) (hfuel : depthL mkids < fuel)
    (hsd : sm.disabled = false) (hsrc : SrcTree srcs) (hsw : SrcWords_ns srcs) (ro : Obj) (used : List Nat)
    (h : fetchScope e fuel false sm mkids srcs = .ok (ro, used)) :
    ∃ out, ro = .scope { sm with tmpl := 0 } out ∧ RKids_n3 mkids out :=
  (fetch_ms_good_n3 e fuel sm mkids srcs hf hw hfuel hsd ⟨hsrc, hsw⟩).2 ro used h

/-! ### B. extraction of the fetch result -/

/-- **C16, `scope.extract` of a fetch result, `MSMaster`.**  Extraction of the result of a fetch of an
    `MSMaster` (the `scope_extract_list`s of `.multiple` objects included) fails only with a converter's
    RuntimeError (or leaves the modelled domain): `__phil_set__` / `__phil_join__` never raise, because
    the result consists of one block per master child and a block of several objects belongs to a
    `.multiple` child; extraction fuel beyond the depth is never exhausted. -/
theorem extract_ms_no_stray (e : Envs) (fuel xfuel : Nat) (sm : Meta) (mkids srcs : List Obj)
    (hf : MSMaster mkids) (hw : wordsKidsB_ns mkids = true) (hfuel : depthL mkids < fuel)
    (hsd : sm.disabled = false) (hsrc : SrcTree srcs) (hsw : SrcWords_ns srcs)
    (hx : depthL mkids + 1 < xfuel) (ro : Obj) (used : List Nat)
    (h : fetchScope e fuel false sm mkids srcs = .ok (ro, used)) (err : Err)
    (he : extractObj e xfuel ro = .error err) : ConverterError e err := by
  obtain ⟨out, rfl, hrk⟩ := fetch_ms_result_blocks e fuel sm mkids srcs hf hw hfuel hsd hsrc hsw ro used h
  cases xfuel with
  | zero => exact absurd hx (Nat.not_lt_zero _)
  | succ xf =>
    exact converterError_of_n3 ((extract_root_n3 e xf _ mkids out hf hrk (by omega)).1 err he)

/-- … and a value it returns is a `scope_extract` typed by the master (`VKids_n3`): every slot of a
    `.multiple` child is a `scope_extract_list`, every slot of a definition holds a value its converter
    formats without TypeError/AssertionError -/
theorem extract_ms_typed (e : Envs) (fuel xfuel : Nat) (sm : Meta) (mkids srcs : List Obj)
    (hf : MSMaster mkids) (hw : wordsKidsB_ns mkids = true) (hfuel : depthL mkids < fuel)
    (hsd : sm.disabled = false) (hsrc : SrcTree srcs) (hsw : SrcWords_ns srcs)
    (hx : depthL mkids + 1 < xfuel) (ro : Obj) (used : List Nat)
    (h : fetchScope e fuel false sm mkids srcs = .ok (ro, used)) (v : PVal)
    (he : extractObj e xfuel ro = .ok v) : ∃ fs, v = .record fs ∧ VKids_n3 mkids fs := by
  obtain ⟨out, rfl, hrk⟩ := fetch_ms_result_blocks e fuel sm mkids srcs hf hw hfuel hsd hsrc hsw ro used h
  cases xfuel with
  | zero => exact absurd hx (Nat.not_lt_zero _)
  | succ xf => exact (extract_root_n3 e xf _ mkids out hf hrk (by omega)).2 v he

/-- `master.fetch(sources)` followed by `.extract()`, hypotheses in executable form (for parsed
    instances) -/
theorem fetch_extract_ms_checked (e : Envs) (master : List Obj) (ss : List (List Obj))
    (hm : msMasterB master = true) (hd : depthL master ≤ 1000) (hw : wordsKidsB_ns master = true)
    (hs : srcCheck ss.flatten = true) (hsw : srcWordsB_ns ss.flatten = true) :
    (∀ err, fetchRoot e false master ss = .error err →
      err = .runtime "incompatible" none ∨ ConverterError e err) ∧
    (∀ ro used, fetchRoot e false master ss = .ok (ro, used) →
      ∀ xfuel, depthL master + 1 < xfuel → ∀ err, extractObj e xfuel ro = .error err →
        ConverterError e err) := by
  have hf := msMasterB_sound master hm
  have hsrc := (srcCheck_sound ss.flatten hs).tree
  have hsw' := srcWordsB_sound_ns _ hsw
  refine ⟨fun err h => fetchRoot_ms_errors e master ss hf hw hd hsrc hsw' err h, ?_⟩
  intro ro used h xfuel hx err he
  exact extract_ms_no_stray e _ xfuel _ master ss.flatten hf hw (fetchRoot_fuel_tree master hd) rfl hsrc hsw'
    hx ro used h err he

/-! ### instances through the parser -/

/-- non-vacuity, and an outcome `fetch_ms_no_stray` does not cover: on the three-level master of
    Props/C05TreeMS.lean (`.multiple` scopes inside `.multiple` scopes) the source `s { b = maybe }`
    gives a candidate whose key is NOT defined — the fetch raises the bool converter's RuntimeError with
    the line of the word; the executable hypotheses hold -/
example :
    (msMasterB C05.msM && wordsKidsB_ns C05.msM && srcCheck (C05.tmObjs "s { b = maybe }\n") &&
      srcWordsB_ns (C05.tmObjs "s { b = maybe }\n")) = true ∧
    Phil.errOf (fetchRoot C05.envTm false C05.msM [C05.tmObjs "s { b = maybe }\n"])
      = some (.runtime "bool_expected" (some 1)) ∧
    Phil.errOf (fetchRoot C05.envTm false C05.msM [C05.tmObjs "s { t = 1 }\n"])
      = some (.runtime "incompatible" none) := by
  decide +kernel

/-- a second parsed master: a `.multiple` scope with a `.multiple` definition, and a plain bool -/
def msX : List Obj := C05.tmObjs "m\n.multiple=True\n{\n  c = yes\n  .type=bool\n  .multiple=True\n}\nf = yes\n.type=bool\n"

/-- fetch, then extract: a value for a well-formed file; for `f = maybe` the fetch succeeds
    (non-multiple definitions are not rendered by the fetch) and extraction raises the bool converter's
    RuntimeError; `m { c = maybe }` fails already in the fetch, with the bool converter's RuntimeError,
    because the candidate block is rendered for the list rule -/
example :
    (msMasterB msX && wordsKidsB_ns msX) = true ∧
    (match fetchRoot C05.envTm false msX [C05.tmObjs "m { c = no }\nm { c = no\n c = yes }\nf = no\n"] with
     | .ok (ro, _) => Phil.errOf (extractObj C05.envTm 50 ro)
     | .error err => some err) = none ∧
    (match fetchRoot C05.envTm false msX [C05.tmObjs "f = maybe\n"] with
     | .ok (ro, _) => Phil.errOf (extractObj C05.envTm 50 ro)
     | .error err => some (.unsupported "fetch failed")) = some (.runtime "bool_expected" (some 1)) ∧
    Phil.errOf (fetchRoot C05.envTm false msX [C05.tmObjs "m { c = no\n c = maybe }\n"])
      = some (.runtime "bool_expected" (some 2)) := by
  decide +kernel

/-! ### C. the annotation pass and fetch with `$variables` -/

/-- **the annotation pass records only named errors.**  For every document without earlier annotations
    (what the parser delivers), every environment, both modes: an `.err site line` stored by
    `preResolve` in any definition at any depth has `site` among the five RuntimeError sites of
    `resolve_variables` (`varsSites`: `$` without identifier, missing `)`, improper variable name, "Not
    a definition", "Undefined variable") or is `"unsupported"` (a referenced definition without id, or
    the loop bound: neither arises on parser outputs, `fetch_with_variables_errors`). -/
theorem preResolve_err_sites (env : Env) (diff : Bool) (root : List Obj)
    (hfresh : ∀ m ∈ metasOfs root, m.varRes = none) :
    ∀ m ∈ metasOfs (preResolve env diff root), ∀ site line,
      m.varRes = some (.err site line) → site ∈ varsSites ∨ site = "unsupported" :=
  preResolve_err_sites_n3 env diff root hfresh

/-- `fetch_value` turns a recorded error into that RuntimeError and nothing else -/
theorem srcWordsR_error_sites (m : Meta) (ws : List Word) (err : Err) (h : srcWordsR m ws = .error err) :
    (∃ site line, m.varRes = some (.err site line) ∧ err = .runtime site line) ∨
      (m.varRes = none ∧ err = .unsupported "variable in source") := by
  unfold srcWordsR at h
  cases hv : m.varRes with
  | none =>
    rw [hv] at h
    simp only at h
    split at h <;> cases h
    exact .inr ⟨rfl, rfl⟩
  | some r =>
    rw [hv] at h
    cases r with
    | ok rws refs => cases h
    | err site line => cases h; exact .inl ⟨site, line, rfl, rfl⟩

/-- **C16, `master.fetch(sources)` with `$variables` in the sources, `TreeMaster`.**  For documents
    numbered like parser outputs, without earlier annotations, whose enabled scopes are named, annotated
    by `preResolve` in any environment: the fetch returns, and its only failures are RuntimeError
    "incompatible" and the RuntimeError of `resolve_variables` at one of the five named sites (carrying
    the line of the offending word, see the instances below).  No `stray`, no Sorry, no loop bound, and
    nothing outside the modelled domain.  (Converters are not called by a non-diff fetch of a master
    without `.multiple`; their RuntimeErrors arise at extraction, `extract_tree_no_stray`.) -/
theorem fetch_with_variables_errors (e : Envs) (env : Env) (master : List Obj) (docs : List (List Obj))
    (hf : TreeMaster master) (hd : depthL master ≤ 1000) (hdocs : ∀ d ∈ docs, DocIds d)
    (hfresh : ∀ d ∈ docs, Fresh d) (hnamed : ScopesNamed docs.flatten) (err : Err)
    (h : fetchRoot e false master (docs.map (preResolve env false)) = .error err) :
    err = .runtime "incompatible" none ∨ ∃ s ∈ varsSites, ∃ l, err = .runtime s l :=
  fetch_vars_errors_n3 e env master docs hf hd hdocs hfresh hnamed err h

/-- with the hypotheses in executable form, one document -/
theorem fetch_with_variables_checked (e : Envs) (env : Env) (master doc : List Obj)
    (hm : treeMasterB master = true) (hd : depthL master ≤ 1000) (hdoc : docIdsB doc = true)
    (hfresh : freshB doc = true) (hnamed : scopesNamedB doc = true) (err : Err)
    (h : fetchRoot e false master [preResolve env false doc] = .error err) :
    err = .runtime "incompatible" none ∨ ∃ s ∈ varsSites, ∃ l, err = .runtime s l := by
  refine fetch_with_variables_errors e env master [doc] (treeMasterB_sound master hm) hd ?_ ?_ ?_ err h
  · intro d hdm; rw [List.mem_singleton] at hdm; subst hdm; exact (docIdsB_iff_vs d).mp hdoc
  · intro d hdm; rw [List.mem_singleton] at hdm; subst hdm; exact freshB_sound d hfresh
  · simp only [List.flatten_cons, List.flatten_nil, List.append_nil]; exact scopesNamedB_sound doc hnamed

/-- error of `master.fetch(parse(t))` for the master `a = 1 ; s { b = 2 ; c = 3 }` of Props/C12Fetch.lean,
    empty environment -/
def varsErrX (t : String) : Option Err :=
  Phil.errOf (fetchRoot env12 false C12Fetch.mT [preResolve C12Fetch.noEnv false (C06.objsOf t)])

/-- instances through the parser: the hypotheses hold … -/
example : (treeMasterB C12Fetch.mT && docIdsB (C06.objsOf "a = 1\na = $nope\n") &&
    freshB (C06.objsOf "a = 1\na = $nope\n") && scopesNamedB (C06.objsOf "a = 1\na = $nope\n")) = true := by
  decide +kernel
/-- … every variable site is reached, with the line of the offending word … -/
example : varsErrX "a = 1\na = $nope\n" = some (.runtime "undefined_variable" (some 2)) := by decide +kernel
example : varsErrX "s { q = 1 }\na = $s\n" = some (.runtime "not_a_definition" (some 2)) := by decide +kernel
example : varsErrX "a = 1\n\na = x $\n" = some (.runtime "dollar_identifier" (some 3)) := by decide +kernel
example : varsErrX "a = $(x\n" = some (.runtime "missing_paren" (some 1)) := by decide +kernel
example : varsErrX "a = $1\n" = some (.runtime "improper_variable_name" (some 1)) := by decide +kernel
/-- … a clash of kinds is "incompatible", and a well-formed file goes through (an undefined variable in
    a definition the master does not declare is never resolved) -/
example : varsErrX "q = 1\ns = $q\n" = some (.runtime "incompatible" none) := by decide +kernel
example : varsErrX "q = 5\na = $q x$(q)\nz = $nope\n" = none := by decide +kernel

/-- `Fresh` is needed: an error recorded before the pass on a `$`-free definition is kept and raised
    under its own site name -/
theorem fresh_needed_for_sites :
    let doc : List Obj := [.defn { name := "a".toList, id := some 1, varRes := some (.err "whatever" none) }
      [{ value := "1".toList }]]
    docIdsB doc = true ∧ freshB doc = false ∧
    Phil.errOf (fetchRoot env12 false C12Fetch.mT [preResolve C12Fetch.noEnv false doc]) = some (.runtime "whatever" none) := by
  decide +kernel

/-! ### D. the expert tie-break with `.expert_level = Auto` -/

/-- **the TypeError of the tie-break, exactly.**  The selection step fails iff the argument name matches
    some target (`max_score ≠ 0`), the best class does not consist of exactly one target, and some best
    match carries the (inherited) level `Auto` (`autoInBest`: an index with `score == max_score` whose
    flag is set) — and then with `TypeError` (`100 * score - exp_lvl`).  Python (replayed): master
    `a { x = 1 .expert_level = Auto } b { x = 2 }`, argument `x=3` → `TypeError: unsupported operand
    type(s) for -: 'int' and 'AutoType'`; the same with the level on the scope `a`. -/
theorem choosePathA_stray_iff (home : Option Str) (targets : List Str) (experts : List Int)
    (autos : List Bool) (src : Str) (e : Err) :
    choosePathA home targets experts autos src = .error e ↔
      e = .stray "TypeError" "expert_tiebreak" ∧
      maxNat (targets.map (getPathScore home src)) ≠ 0 ∧
      (indicesOf (· == maxNat (targets.map (getPathScore home src)))
        (targets.map (getPathScore home src))).length ≠ 1 ∧
      autoInBest (targets.map (getPathScore home src)) autos
        (maxNat (targets.map (getPathScore home src))) = true := by
  rw [choosePathA_eq_n3]
  constructor
  · intro h
    split at h
    · rename_i hc; cases h; exact ⟨rfl, hc⟩
    · cases h
  · rintro ⟨rfl, hc⟩
    rw [if_pos hc]

/-- otherwise the step is the Auto-free `choosePath` (all of C14 applies to it) -/
theorem choosePathA_ok (home : Option Str) (targets : List Str) (experts : List Int)
    (autos : List Bool) (src : Str) (c : Choice) (h : choosePathA home targets experts autos src = .ok c) :
    c = choosePath home targets experts src := choosePathA_ok_n3 h

/-- **C16/C14, `process_arg` with `Auto` levels.**  For every argument text, every list of target paths
    with their levels and `Auto` flags, every home scope: the parsed objects, a Sorry, a RuntimeError,
    outside the modelled domain — or the TypeError of the tie-break, and no other `stray`. -/
theorem processArgA_no_stray (home : Option Str) (targets : List Str) (experts : List Int)
    (autos : List Bool) (arg : Str) :
    (∃ objs, processArgA home targets experts autos arg = .ok objs) ∨
    (∃ kind paths, processArgA home targets experts autos arg = .sorry_ kind paths) ∨
    (∃ s l, processArgA home targets experts autos arg = .runtime (.runtime s l)) ∨
    (∃ w, processArgA home targets experts autos arg = .runtime (.unsupported w)) ∨
    processArgA home targets experts autos arg = .runtime (.stray "TypeError" "expert_tiebreak") := by
  have h := processArgA_fine_n3 home targets experts autos arg
  cases hp : processArgA home targets experts autos arg with
  | ok objs => exact .inl ⟨objs, rfl⟩
  | sorry_ k p => exact .inr (.inl ⟨k, p, rfl⟩)
  | runtime e =>
    rw [hp] at h
    rcases h with h | h
    · rcases (Err.benign_iff e).1 h with ⟨s, l, rfl⟩ | ⟨w, rfl⟩
      · exact .inr (.inr (.inl ⟨s, l, rfl⟩))
      · exact .inr (.inr (.inr (.inl ⟨w, rfl⟩)))
    · subst h; exact .inr (.inr (.inr (.inr rfl)))

/-- **no `Auto` level among the targets: never a stray** — the repaired interpreter is `processArg`, to
    which `processArg_no_stray` and the C14 theorems apply.  (If the parser refused `.expert_level =
    Auto`, every master would be of this kind and the corollary for parser outputs would read "never".) -/
theorem processArgA_no_auto (home : Option Str) (targets : List Str) (experts : List Int)
    (autos : List Bool) (h : ∀ a ∈ autos, a = false) (arg : Str) :
    processArgA home targets experts autos arg = processArg home targets experts arg :=
  processArgA_no_auto_n3 home targets experts autos h arg

/-- through the parser, as the driver computes it: master text, argument text -/
def argAutoX (m arg : String) : String :=
  let mobjs := C05.tmObjs m
  let entries := targetEntriesA mobjs (expertLevels mobjs) (expertAutos mobjs)
  match processArgA none (entries.map (·.1)) (entries.map (·.2.1)) (entries.map (·.2.2)) arg.toList with
  | .ok _ => "ok"
  | .sorry_ k _ => "refusal:" ++ k
  | .runtime (.stray c s) => "stray:" ++ c ++ ":" ++ s
  | .runtime _ => "runtime"

/-- **parser outputs reach the TypeError** (`.expert_level = Auto` is accepted by the parser), on the
    definition and inherited from the scope; a unique best match, an exact path, a name that matches
    nothing, and integer levels are unaffected (Python replayed: TypeError, TypeError, ok, ok, Sorry
    "Unknown", ok with the warning) -/
theorem auto_level_strays_in_tiebreak :
    argAutoX "a {\n  x = 1\n  .expert_level = Auto\n}\nb {\n  x = 2\n}\n" "x=3" = "stray:TypeError:expert_tiebreak" ∧
    argAutoX "a\n.expert_level = Auto\n{\n  x = 1\n}\nb {\n  x = 2\n}\n" "x=3" = "stray:TypeError:expert_tiebreak" ∧
    argAutoX "a {\n  x = 1\n  .expert_level = Auto\n}\nb {\n  x = 2\n}\nc {\n  y = 1\n}\n" "y=3" = "ok" ∧
    argAutoX "a {\n  x = 1\n  .expert_level = Auto\n}\nb {\n  x = 2\n}\n" "a.x=3" = "ok" ∧
    argAutoX "a {\n  x = 1\n  .expert_level = Auto\n}\nb {\n  x = 2\n}\n" "q=3" = "refusal:unknown" ∧
    argAutoX "a {\n  x = 1\n  .expert_level = 1\n}\nb {\n  x = 2\n}\n" "x=3" = "ok" := by
  decide +kernel

/-! ### every hypothesis of §A/§B is needed (kernel-checked; the parsed ones replayed on Python) -/

/-- **sibling names must be distinct**: `x` declared as a plain scope and again as a `.multiple` scope
    inside a `.multiple` scope — `M.fetch()` raises AttributeError (`'scope_extract' object has no
    attribute 'append'`, Python replayed).  `msMasterB` refuses the master. -/
theorem ms_distinct_needed :
    let m := C05.tmObjs "m\n.multiple = True\n{\nx { a = 1 }\nx\n.multiple = True\n{ a = 2 }\n}\n"
    msMasterB m = false ∧ wordsKidsB_ns m = true ∧
    Phil.errOf (fetchRoot C05.envTm false m [[]]) = some (.stray "AttributeError" "phil_set_append") := by
  decide +kernel

/-- **choices are excluded** (`DefnMeta`): a choice whose master value is `None` — `M.fetch(source)`
    raises a bare AssertionError (Python replayed) -/
theorem ms_no_choice_needed :
    let m := C05.tmObjs "a = None\n.type = choice\n"
    msMasterB m = false ∧ wordsKidsB_ns m = true ∧
    Phil.errOf (fetchRoot C05.envTm false m [C05.tmObjs "a = x\n"])
      = some (.stray "AssertionError" "choice_fetch") := by
  decide +kernel

/-- **master definitions must carry a word** (the parser guarantees it; a tree built by hand need
    not): a `.multiple` bool without words — `assert len(words) > 0` -/
theorem ms_master_words_needed :
    let m : List Obj := [.defn { name := "b".toList, attrs := [("type", .conv .bool), ("multiple", .bool true)] } []]
    msMasterB m = true ∧ wordsKidsB_ns m = false ∧
    Phil.errOf (fetchRoot C05.envTm false m [[]]) = some (.stray "AssertionError" "bool_from_words") := by
  decide +kernel

/-- **source definitions must carry a word**: the same through a source built by hand -/
theorem ms_source_words_needed :
    let m : List Obj := [.defn { name := "b".toList, attrs := [("type", .conv .bool), ("multiple", .bool true)] }
      [{ value := "yes".toList }]]
    let s : List Obj := [.defn { name := "b".toList } []]
    msMasterB m = true ∧ wordsKidsB_ns m = true ∧ srcCheck s = true ∧ srcWordsB_ns s = false ∧
    Phil.errOf (fetchRoot C05.envTm false m [s]) = some (.stray "AssertionError" "bool_from_words") := by
  decide +kernel

/-- **the fuel must exceed the depth**: `msX` has depth 1; with fuel 1 the loop bound is hit, with
    fuel 2 the fetch returns -/
theorem ms_fuel_needed :
    depthL msX = 1 ∧
    Phil.errOf (fetchScope C05.envTm 1 false { name := [] } msX []) = some .outOfFuel ∧
    Phil.errOf (fetchScope C05.envTm 2 false { name := [] } msX []) = none := by
  decide +kernel

/-- **sources must resolve** (`SrcTree`) for the classification (not for "no stray"): a `$` the
    annotation pass has not resolved leaves the modelled domain of the variable-free fetch — see §C for
    sources with variables -/
theorem ms_src_resolved_needed :
    srcCheck (C05.tmObjs "f = $x\n") = false ∧
    Phil.errOf (fetchRoot C05.envTm false msX [C05.tmObjs "f = $x\n"])
      = some (.unsupported "variable in source") := by
  decide +kernel

end Phil.C16

#print axioms Phil.C16.fetch_ms_errors
#print axioms Phil.C16.fetch_ms_never_stray
#print axioms Phil.C16.fetch_ms_ne_stray
#print axioms Phil.C16.fetchRoot_ms_errors
#print axioms Phil.C16.fetch_ms_result_blocks
#print axioms Phil.C16.extract_ms_no_stray
#print axioms Phil.C16.extract_ms_typed
#print axioms Phil.C16.fetch_extract_ms_checked
#print axioms Phil.C16.preResolve_err_sites
#print axioms Phil.C16.srcWordsR_error_sites
#print axioms Phil.C16.fetch_with_variables_errors
#print axioms Phil.C16.fetch_with_variables_checked
#print axioms Phil.C16.fresh_needed_for_sites
#print axioms Phil.C16.choosePathA_stray_iff
#print axioms Phil.C16.choosePathA_ok
#print axioms Phil.C16.processArgA_no_stray
#print axioms Phil.C16.processArgA_no_auto
#print axioms Phil.C16.auto_level_strays_in_tiebreak
#print axioms Phil.C16.ms_distinct_needed
#print axioms Phil.C16.ms_no_choice_needed
#print axioms Phil.C16.ms_master_words_needed
#print axioms Phil.C16.ms_source_words_needed
#print axioms Phil.C16.ms_fuel_needed
#print axioms Phil.C16.ms_src_resolved_needed
