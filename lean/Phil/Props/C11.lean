/-
  C11 — Choices keep the master's alternatives and select only what was asked:
  `choice_converters.fetch` (`choiceFetch mwords optional src ignoreErrors`) returns the master's
  alternatives — same names, order and quoting — with stars only on what the source selects, fails
  only with Sorry listing all alternatives, and extraction of a choice returns at most one name for a
  single choice and never "nothing" for a mandatory one.
  Property theorems only; lemmas are in Phil/Proofs/ChoiceLemmas.lean.
-/
import Phil.Proofs.ChoiceLemmas
namespace Phil.C11
open Phil

/-! ### 1. the alternatives are preserved -/

/-- General form, no side condition: a successful fetch of a source other than plain `Auto` is the
    master's word list, each word `w` re-drawn by `renderStar flags w`: value `name` or `*name` where
    `name = (stripStar w.value).1`, quote and line of `w`. -/
theorem choice_alts_shape (mwords : List Word) (opt : AttrVal) (src : List Word) (ign : Bool)
    (out : List Word) (h : choiceFetch mwords opt src ign = .ok out) (hs : isPlainAuto src = false) :
    ∃ flags : Flags, out = mwords.map (renderStar flags) ∧
      ∀ w, (renderStar flags w).quote = w.quote ∧ (renderStar flags w).line = w.line ∧
        ((renderStar flags w).value = (stripStar w.value).1 ∨
         (renderStar flags w).value = '*' :: (stripStar w.value).1) := by
  rcases choiceFetch_ok_shape _ _ _ _ _ h with ⟨h1, _⟩ | ⟨_, flags, _, h2⟩
  · rw [h1] at hs; cases hs
  · exact ⟨flags, h2, fun w => render_name flags w⟩

/-- The result lists exactly the master's alternatives — same names, same order, same quoting — for
    every source, every `optional`, with or without `ignore_errors`.
    Side condition (needed, see the example below): no master alternative is written with two
    leading stars. -/
theorem choice_alts_preserved (mwords : List Word) (opt : AttrVal) (src : List Word) (ign : Bool)
    (out : List Word) (hm : NoDoubleStar mwords)
    (h : choiceFetch mwords opt src ign = .ok out) (hs : isPlainAuto src = false) :
    out.map (fun w => ((stripStar w.value).1, w.quote)) =
      mwords.map (fun w => ((stripStar w.value).1, w.quote)) :=
  choiceFetch_alts_preserved mwords opt src ign out hm h hs

/-- length form, no side condition -/
theorem choice_alts_count (mwords : List Word) (opt : AttrVal) (src : List Word) (ign : Bool)
    (out : List Word) (h : choiceFetch mwords opt src ign = .ok out) (hs : isPlainAuto src = false) :
    out.length = mwords.length := by
  obtain ⟨flags, h1, _⟩ := choice_alts_shape mwords opt src ign out h hs
  rw [h1, List.length_map]

/-- a plain `Auto` source gives `Auto` -/
theorem choice_auto (mwords : List Word) (opt : AttrVal) (src : List Word) (ign : Bool)
    (hm : (isPlainNone mwords || isPlainAuto mwords) = false) (hs : isPlainAuto src = true) :
    choiceFetch mwords opt src ign = .ok [wordOf "Auto"] := by
  rw [choiceFetch_eq]
  simp only [hm, hs, Bool.false_eq_true, ↓reduceIte]

private def W (s : String) : Word := { value := s.toList }

/-- Why the side condition: the master alternative written `**a` is the name `*a`; fetching the
    source `b` re-draws it as `*a`, which reads back as the *selected* name `a`.  (Same on the
    implementation: master `c = **a b`, source `c = b` gives `c = *a *b`.) -/
example : choiceFetch [W "**a", W "b"] .none [W "b"] = .ok [W "*a", W "*b"] := by rfl

example : choiceFetch [W "a", W "*b", W "c"] .none [W "C"] = .ok [W "a", W "b", W "*c"] := by rfl

/-! ### 2. an unknown alternative is refused, listing all alternatives -/

/-- Outside the `a+b` branch and without `ignore_errors`: if some source word is selected (starred,
    or it is the only word) and its lower-cased name is not the lower-cased name of a master
    alternative, the fetch fails with Sorry carrying ALL alternatives of the master.
    `hn` excludes the one case where the source is not looked at (plain `None`, master not
    mandatory); `BadWord mwords single w` unfolds to
    `((stripStar w.value).2 || single) = true ∧ lower (stripStar w.value).1 ∉ altKeys mwords`. -/
theorem choice_unknown_sorry (mwords : List Word) (opt : AttrVal) (src : List Word)
    (hm : (isPlainNone mwords || isPlainAuto mwords) = false)
    (ha : isPlainAuto src = false)
    (hn : (opt.mandatory || !isPlainNone src) = true)
    (hp : plusMode src = false)
    (hbad : ∃ w ∈ src, BadWord mwords (src.length == 1) w) :
    choiceFetch mwords opt src false
      = .error (.sorry_ "not_a_possible_choice" (mwords.map (·.value))) :=
  choiceFetch_unknown mwords opt src hm ha hn hp hbad

/-- `plusMode src = false` holds whenever no source word contains `+` … -/
theorem not_plus_of_no_plus (src : List Word) (h : ∀ w ∈ src, w.value.contains '+' = false) :
    plusMode src = false := plusMode_false_of_no_plus src h
/-- … or the first word is quoted or starred. -/
theorem not_plus_of_head (w : Word) (ws : List Word)
    (h : w.quote.isSome = true ∨ (stripStar w.value).2 = true) : plusMode (w :: ws) = false :=
  plusMode_false_of_head w ws h

example : choiceFetch [W "a", W "*b"] .none [W "*c", W "a"]
    = .error (.sorry_ "not_a_possible_choice" ["a".toList, "*b".toList]) := by rfl
example : choiceFetch [W "a", W "*b"] .none [W "c"]
    = .error (.sorry_ "not_a_possible_choice" ["a".toList, "*b".toList]) := by rfl
/-- an unselected unknown word among several is silently dropped (not an error) -/
example : choiceFetch [W "a", W "*b"] .none [W "c", W "*a"] = .ok [W "*a", W "b"] := by rfl

/-! ### 3. the only failures -/

/-- Every failure of `fetch` is the Sorry with all alternatives, except the assertion on a master
    whose words are plain `None`/`Auto` — and that one occurs only then. -/
theorem choice_error_is_sorry (mwords : List Word) (opt : AttrVal) (src : List Word) (ign : Bool)
    (e : Err) (h : choiceFetch mwords opt src ign = .error e) :
    ((isPlainNone mwords || isPlainAuto mwords) = true ∧ e = .stray "AssertionError" "choice_fetch") ∨
    ((isPlainNone mwords || isPlainAuto mwords) = false ∧ isPlainAuto src = false ∧
      e = .sorry_ "not_a_possible_choice" (mwords.map (·.value))) :=
  choiceFetch_error mwords opt src ign e h

example : choiceFetch [W "none"] .none [W "a"] = .error (.stray "AssertionError" "choice_fetch") := by rfl
example : choiceFetch [W "a", W "b"] .none [W "a+x"]
    = .error (.sorry_ "not_a_possible_choice" ["a".toList, "b".toList]) := by rfl

/-! ### 4. extraction -/

/-- A single choice extracts to `Auto`, `None` (nothing starred, not mandatory) or exactly one name —
    the only starred word; never a list. -/
theorem single_at_most_one (env : EvalEnv) (opt : AttrVal) (ws : List Word) (v : PVal)
    (h : fromWords (.choice false) env opt ws = .ok v) :
    (v = .auto ∧ isPlainAuto ws = true) ∨
    (v = .none ∧ starredNames ws = [] ∧ opt.mandatory = false) ∨
    (∃ s, v = .str s ∧ starredNames ws = [s]) :=
  fromWords_choice_single env opt ws v h

/-- two or more stars in a single choice: an error -/
theorem single_rejects_multiple (env : EvalEnv) (opt : AttrVal) (ws : List Word)
    (ha : isPlainAuto ws = false) (h2 : 2 ≤ (starredNames ws).length) :
    fromWords (.choice false) env opt ws = .error (wordsErr "choice_multiple" ws) :=
  fromWords_choice_single_multiple env opt ws ha h2

/-- a multi choice extracts to `Auto` or the list of the starred names (in order) -/
theorem multi_is_starred (env : EvalEnv) (opt : AttrVal) (ws : List Word) (v : PVal)
    (h : fromWords (.choice true) env opt ws = .ok v) :
    (v = .auto ∧ isPlainAuto ws = true) ∨
    (v = .list ((starredNames ws).map PVal.str) ∧ (opt.mandatory = true → starredNames ws ≠ [])) :=
  fromWords_choice_multi env opt ws v h

/-- A mandatory choice (`.optional = False`) never extracts to `None` (single) nor `[]` (multi). -/
theorem mandatory_never_empty (multi : Bool) (env : EvalEnv) (opt : AttrVal) (ws : List Word)
    (hm : opt.mandatory = true) :
    fromWords (.choice multi) env opt ws ≠ .ok .none ∧
    fromWords (.choice multi) env opt ws ≠ .ok (.list []) :=
  fromWords_choice_mandatory multi env opt ws hm

example : fromWords (.choice false) (fun _ => none) .none [W "a", W "*b"] = .ok (.str "b".toList) := by rfl
example : fromWords (.choice false) (fun _ => none) (.bool false) [W "a", W "b"]
    = .error (.runtime "choice_unspecified" none) := by rfl
example : fromWords (.choice true) (fun _ => none) .none [W "*a", W "*b"]
    = .ok (.list [.str "a".toList, .str "b".toList]) := by rfl

/-! ### 5. star-only sources select exactly what was asked -/

/-- Source consisting of starred words only (any number, `ignore_errors` or not; no distinctness
    assumption is needed): the result is the master's list where an alternative is starred iff its
    lower-cased name is one of the lower-cased source names. -/
theorem choice_selected_star (mwords : List Word) (opt : AttrVal) (src : List Word) (ign : Bool)
    (out : List Word) (hstar : ∀ w ∈ src, (stripStar w.value).2 = true)
    (h : choiceFetch mwords opt src ign = .ok out) :
    out = mwords.map (fun w =>
      let v := (stripStar w.value).1
      { value := if lower v ∈ src.map (fun x => lower (stripStar x.value).1) then '*' :: v else v,
        quote := w.quote, line := w.line }) :=
  choiceFetch_star_only mwords opt src ign out hstar h

/-- read-back form: `stripStar` of each result word is (master name, was it asked for) -/
theorem choice_selected_star_readback (mwords : List Word) (opt : AttrVal) (src : List Word)
    (ign : Bool) (out : List Word) (hm : NoDoubleStar mwords)
    (hstar : ∀ w ∈ src, (stripStar w.value).2 = true)
    (h : choiceFetch mwords opt src ign = .ok out) :
    out.map (fun o => stripStar o.value) =
      mwords.map (fun w => ((stripStar w.value).1,
        decide (lower (stripStar w.value).1 ∈ src.map (fun x => lower (stripStar x.value).1)))) :=
  choiceFetch_star_only_readback mwords opt src ign out hm hstar h

/-- … so what extraction sees as selected in the result is exactly the master alternatives asked
    for, in the master's order. -/
theorem choice_selected_star_extract (mwords : List Word) (opt : AttrVal) (src : List Word)
    (ign : Bool) (out : List Word) (hm : NoDoubleStar mwords)
    (hstar : ∀ w ∈ src, (stripStar w.value).2 = true)
    (h : choiceFetch mwords opt src ign = .ok out) :
    starredNames out =
      (mwords.filter (fun w => decide (lower (stripStar w.value).1 ∈
          src.map (fun x => lower (stripStar x.value).1)))).map (fun w => (stripStar w.value).1) :=
  choiceFetch_star_only_extract mwords opt src ign out hm hstar h

example : choiceFetch [W "a", W "*b", W "c"] .none [W "*C", W "*a"] = .ok [W "*a", W "b", W "*c"] := by rfl
/-- recorded finding D19 seen here: alternatives equal up to case are both starred -/
example : choiceFetch [W "x", W "X"] .none [W "*x"] = .ok [W "*x", W "*X"] := by rfl

end Phil.C11
