/-
  C17 (copies) on the object-identity model Phil/Heap.lean: what `copy()`, `customized_copy()`,
  `copy.deepcopy` and a pickle round trip share with the object they were made from, and which slot
  assignments can be seen through which object.

  Reading of the code (src/freephil/common.py, legacy.py), replayed on Python (REPORT.md):
  * `copy()` is `cls(**{slot: getattr(self, slot)})`: a new object whose every slot holds the same value —
    the same children (the same `objects` list), the same words, the same parent; the parent does not
    list the copy.
  * `deepcopy` / pickle take `__getstate__()` = the dict of ALL slots, `primary_parent_scope` included:
    everything reachable through `objects` AND parent pointers is copied once (memo); deep-copying a
    child copies the whole document it sits in, and the result's parent is the COPY of the parent.
  All theorems are about arbitrary heaps (any graph — trees, fetch results whose children point into
  the master, shallow copies); hypotheses are the decidable checkers of Phil/Heap.lean.
-/
import Phil.Proofs.HeapLemmas
import Phil.Proofs.HeapBuild
import Phil.Parse
namespace Phil.C17Heap
open Phil Phil.Heap

/-! ### (1) deepcopy / pickle: the result is isomorphic to the original -/

/-- **Isomorphic.**  Whatever abstract tree the object `x` denotes, the result of `deepcopy(x)` denotes
    the same tree in the new heap (same names, slots, words, children in order, at every depth).
    Any heap, any object. -/
theorem deepcopy_isomorphic (h : Heap) (x : Nat) (c : Copied) (o : Obj)
    (hd : deepcopy h x = some c) (ha : Abs h x o) : Abs c.heap c.result o := by
  obtain ⟨comp, s⟩ := deepcopy_spec hd
  obtain ⟨f, hf⟩ := ha
  exact ⟨f, by rw [s.result, s.absF_eq f x s.root]; exact hf⟩

/-- the same for EVERY copied object (the parent chain and the siblings of `x` included): the copy of
    `i` — `memo h.length c.comp i` — denotes what `i` denotes, at every fuel -/
theorem deepcopy_isomorphic_everywhere (h : Heap) (x : Nat) (c : Copied) (hd : deepcopy h x = some c)
    (i : Nat) (hi : i ∈ c.comp) (f : Nat) :
    absF f c.heap (memo h.length c.comp i) = absF f h i := by
  obtain ⟨comp, s⟩ := deepcopy_spec hd
  exact s.absF_eq f i hi

/-- executable form: `abs` (fuel = number of objects + 1) -/
theorem deepcopy_abs (h : Heap) (x : Nat) (c : Copied) (o : Obj)
    (hd : deepcopy h x = some c) (ha : abs h x = some o) : abs c.heap c.result = some o := by
  obtain ⟨comp, s⟩ := deepcopy_spec hd
  unfold abs at ha ⊢
  have : absF (h.length + 1) c.heap c.result = some o := by
    rw [s.result, s.absF_eq _ x s.root]; exact ha
  exact absF_mono_le _ _ _ _ _ (by rw [s.length]; omega) this

/-- the copy is made cell by cell: the copy of `i` has the slots and words of `i`, and every reference
    of `i` (children, parent) replaced by the copy of the referenced object -/
theorem deepcopy_cell (h : Heap) (x : Nat) (c : Copied) (hd : deepcopy h x = some c)
    (i : Nat) (hi : i ∈ c.comp) : ∃ n, h[i]? = some n ∧
      c.heap[memo h.length c.comp i]? = some (n.rename (memo h.length c.comp)) := by
  obtain ⟨comp, s⟩ := deepcopy_spec hd
  obtain ⟨n, hn, _⟩ := s.mem_state hi
  exact ⟨n, hn, s.lookup hi hn⟩

/-- what is copied: `x`, and with every copied object its children and its parent -/
theorem deepcopy_component (h : Heap) (x : Nat) (c : Copied) (hd : deepcopy h x = some c) :
    x ∈ c.comp ∧ c.comp.Nodup ∧
    ∀ i ∈ c.comp, ∃ n, h[i]? = some n ∧ (∀ k ∈ n.kids, k ∈ c.comp) ∧ (∀ p, n.parent = some p → p ∈ c.comp) := by
  obtain ⟨comp, s⟩ := deepcopy_spec hd
  refine ⟨s.root, s.nodup, ?_⟩
  intro i hi
  obtain ⟨n, hn, hmem⟩ := s.mem_state hi
  exact ⟨n, hn, fun k hk => s.closed _ hmem k (mem_succs_of_kid hk),
    fun p hp => s.closed _ hmem p (mem_succs_of_parent hp)⟩

/-! ### (2) deepcopy / pickle: nothing shared, children linked to their own (copied) parent -/

/-- **Disjoint.**  The objects of the copy are exactly `c.comp.length` NEW objects: ids
    `h.length … h.length + c.comp.length - 1`, one per copied object (`memo` is injective), while every
    object of the original heap has an id below `h.length`.  No object is shared. -/
theorem deepcopy_disjoint (h : Heap) (x : Nat) (c : Copied) (hd : deepcopy h x = some c) :
    c.heap.length = h.length + c.comp.length ∧
    h.length ≤ c.result ∧ c.result < c.heap.length ∧
    (∀ i ∈ c.comp, i < h.length ∧ h.length ≤ memo h.length c.comp i ∧ memo h.length c.comp i < c.heap.length) ∧
    (∀ i ∈ c.comp, ∀ j ∈ c.comp, memo h.length c.comp i = memo h.length c.comp j → i = j) := by
  obtain ⟨comp, s⟩ := deepcopy_spec hd
  refine ⟨s.length, ?_, ?_, ?_, fun i hi j hj => memo_inj hi hj⟩
  · rw [s.result]; exact memo_ge _ _ _
  · rw [s.result, s.length]; exact memo_lt s.root
  · intro i hi
    exact ⟨s.lt_length hi, memo_ge _ _ _, by rw [s.length]; exact memo_lt hi⟩

/-- every reference held by an object of the copy (child or parent) is an object of the copy -/
theorem deepcopy_references_inside (h : Heap) (x : Nat) (c : Copied) (hd : deepcopy h x = some c)
    (i : Nat) (hi : i ∈ c.comp) (n' : Node) (hn' : c.heap[memo h.length c.comp i]? = some n') :
    ∀ y ∈ n'.succs, h.length ≤ y ∧ ∃ j ∈ c.comp, y = memo h.length c.comp j := by
  obtain ⟨comp, s⟩ := deepcopy_spec hd
  obtain ⟨n, hn, hmem⟩ := s.mem_state hi
  rw [s.lookup hi hn] at hn'
  cases hn'
  intro y hy
  unfold Node.succs at hy
  rw [rename_kids, rename_parent] at hy
  rcases List.mem_append.mp hy with hy | hy
  · obtain ⟨k, hk, rfl⟩ := List.mem_map.mp hy
    exact ⟨memo_ge _ _ _, k, s.closed _ hmem k (mem_succs_of_kid hk), rfl⟩
  · cases hp : n.parent with
    | none => rw [hp] at hy; simp at hy
    | some p =>
      rw [hp] at hy
      simp only [Option.map_some, Option.toList_some, List.mem_singleton] at hy
      subst hy
      exact ⟨memo_ge _ _ _, p, s.closed _ hmem p (mem_succs_of_parent hp), rfl⟩

/-- **Children linked to their own parent.**  If in the original every child of a scope has that scope
    as `primary_parent_scope` (`kidsLinkedB`, true of every parsed document), then every child of a
    copied scope is a new object whose parent is that copied scope. -/
theorem deepcopy_children_linked (h : Heap) (x : Nat) (c : Copied) (hd : deepcopy h x = some c)
    (hl : kidsLinkedB h = true) (i : Nat) (hi : i ∈ c.comp) (n' : Node)
    (hn' : c.heap[memo h.length c.comp i]? = some n') :
    ∀ k ∈ n'.kids, ∃ nk, c.heap[k]? = some nk ∧ nk.parent = some (memo h.length c.comp i) ∧ h.length ≤ k := by
  obtain ⟨comp, s⟩ := deepcopy_spec hd
  exact s.kids_linked (kidsLinkedB_sound hl) hi hn'

/-- **The parent of the copied root.**  `deepcopy(x).primary_parent_scope` is `None` if `x` has no
    parent, and otherwise the COPY of `x`'s parent — a new object, never the original parent. -/
theorem deepcopy_root_parent (h : Heap) (x : Nat) (c : Copied) (hd : deepcopy h x = some c) :
    ∃ n n', h[x]? = some n ∧ c.heap[c.result]? = some n' ∧
      n'.parent = n.parent.map (memo h.length c.comp) ∧ ∀ p', n'.parent = some p' → h.length ≤ p' := by
  obtain ⟨comp, s⟩ := deepcopy_spec hd
  obtain ⟨n, hn, _⟩ := s.mem_state s.root
  refine ⟨n, _, hn, by rw [s.result]; exact s.lookup s.root hn, rename_parent _ _, ?_⟩
  intro p' hp'
  rw [rename_parent] at hp'
  cases hp : n.parent with
  | none => rw [hp] at hp'; simp at hp'
  | some p =>
    rw [hp] at hp'
    simp only [Option.map_some, Option.some.injEq] at hp'
    rw [← hp']
    exact memo_ge _ _ _

/-! ### (3) frame: the original is unchanged by the copy and by any later assignment to the copy -/

/-- deepcopy writes no slot of any existing object -/
theorem deepcopy_frame (h : Heap) (x : Nat) (c : Copied) (hd : deepcopy h x = some c) :
    ∀ i, i < h.length → c.heap[i]? = h[i]? := by
  obtain ⟨comp, s⟩ := deepcopy_spec hd
  exact fun i hi => s.old hi

/-- **Frame theorem.**  After `deepcopy`, ANY finite history of slot assignments (any slot: scalar slots,
    `words`, `objects`, `primary_parent_scope`; any value) to objects of the copy — or to any object
    created later — leaves every cell of the original heap as it was, hence the abstract tree of every
    original object (at every fuel). -/
theorem deepcopy_assign_frame (h : Heap) (x : Nat) (c : Copied) (hd : deepcopy h x = some c)
    (hc : closedB h = true) (ops : List (Nat × Assign)) (hops : ∀ op ∈ ops, h.length ≤ op.1) :
    (∀ i, i < h.length → (assignMany c.heap ops)[i]? = h[i]?) ∧
    (∀ f i, i < h.length → absF f (assignMany c.heap ops) i = absF f h i) := by
  obtain ⟨comp, s⟩ := deepcopy_spec hd
  have hag : ∀ i, i < h.length → (assignMany c.heap ops)[i]? = h[i]? := fun i hi => by
    rw [assignMany_get_below h.length ops c.heap hops i hi, s.old hi]
  exact ⟨hag, fun f i hi => absF_agree _ h h.length hag (closedB_sound hc).below f i hi⟩

/-- the objects of the copy are legitimate targets of the frame theorem -/
theorem deepcopy_targets (h : Heap) (x : Nat) (c : Copied) (_hd : deepcopy h x = some c)
    (ops : List (Nat × Assign)) (hops : ∀ op ∈ ops, ∃ i ∈ c.comp, op.1 = memo h.length c.comp i) :
    ∀ op ∈ ops, h.length ≤ op.1 := by
  intro op hop
  obtain ⟨i, _, hi⟩ := hops op hop
  rw [hi]; exact memo_ge _ _ _

/-- in `Abs` form: every original object denotes after the history what it denoted before the copy -/
theorem deepcopy_assign_frame_abs (h : Heap) (x : Nat) (c : Copied) (hd : deepcopy h x = some c)
    (hc : closedB h = true) (ops : List (Nat × Assign)) (hops : ∀ op ∈ ops, h.length ≤ op.1)
    (i : Nat) (hi : i < h.length) (o : Obj) : Abs (assignMany c.heap ops) i o ↔ Abs h i o := by
  have := (deepcopy_assign_frame h x c hd hc ops hops).2
  constructor
  · rintro ⟨f, hf⟩; exact ⟨f, by rw [← this f i hi]; exact hf⟩
  · rintro ⟨f, hf⟩; exact ⟨f, by rw [this f i hi]; exact hf⟩

/-! ### (4) shallow copies -/

/-- **What `copy()` shares.**  The copy is ONE new object (id `h.length`) whose cell equals the cell of
    `x`: the same slots and words, the SAME child objects (`objects` holds the same ids — the children
    are shared, not copied) and the same parent.  No existing cell is written. -/
theorem copy_shares (h : Heap) (x : Nat) (h' : Heap) (c : Nat) (hc : copy h x = some (h', c)) :
    c = h.length ∧ h'.length = h.length + 1 ∧ h'[c]? = h[x]? ∧ (∀ i, i < h.length → h'[i]? = h[i]?) := by
  obtain ⟨n, hn, rfl, rfl⟩ := copy_eq hc
  refine ⟨rfl, by simp, ?_, fun i hi => List.getElem?_append_left hi⟩
  rw [List.getElem?_append_right (Nat.le_refl _), Nat.sub_self, hn]; rfl

/-- the copy prints and behaves like the original: it denotes the same abstract tree -/
theorem copy_isomorphic (h : Heap) (x : Nat) (h' : Heap) (c : Nat) (hc : copy h x = some (h', c))
    (hcl : closedB h = true) (f : Nat) : absF f h' c = absF f h x := by
  obtain ⟨n, hn, rfl, rfl⟩ := copy_eq hc
  exact absF_append_same h n x hn (closedB_sound hcl) f

/-- the parent of `x` does not list the copy (no existing object refers to the copy at all) -/
theorem copy_unlisted (h : Heap) (x : Nat) (h' : Heap) (c : Nat) (hc : copy h x = some (h', c))
    (hcl : closedB h = true) (i : Nat) (hi : i < h.length) (n : Node) (hn : h'[i]? = some n) : c ∉ n.succs := by
  obtain ⟨n0, hn0, rfl, rfl⟩ := copy_eq hc
  rw [List.getElem?_append_left hi] at hn
  intro hmem
  exact Nat.lt_irrefl _ (closedB_sound hcl i n hn _ hmem)

/-- **Assigning any field of a shallow copy never changes the object it was made from** — nor any other
    existing object: after `copy()`, any history of slot assignments to the copy (or to later objects)
    leaves every original cell and every original abstract tree unchanged. -/
theorem copy_assign_frame (h : Heap) (x : Nat) (h' : Heap) (c : Nat) (hc : copy h x = some (h', c))
    (hcl : closedB h = true) (ops : List (Nat × Assign)) (hops : ∀ op ∈ ops, c ≤ op.1) :
    (∀ i, i < h.length → (assignMany h' ops)[i]? = h[i]?) ∧
    (∀ f i, i < h.length → absF f (assignMany h' ops) i = absF f h i) := by
  obtain ⟨n, hn, rfl, rfl⟩ := copy_eq hc
  have hag : ∀ i, i < h.length → (assignMany (h ++ [n]) ops)[i]? = h[i]? := fun i hi => by
    rw [assignMany_get_below h.length ops _ hops i hi, List.getElem?_append_left hi]
  exact ⟨hag, fun f i hi => absF_agree _ h h.length hag (closedB_sound hcl).below f i hi⟩

/-- the same for `customized_copy` (a `copy()` followed by assignments to the copy): no existing object is
    written, whatever name / words / objects are passed -/
theorem customizedCopy_frame (h : Heap) (x : Nat) (name : Option Str) (ws : Option (List Word))
    (ks : Option (List Nat)) (h' : Heap) (c : Nat) (hc : customizedCopy h x name ws ks = some (h', c)) :
    c = h.length ∧ ∀ i, i < h.length → h'[i]? = h[i]? := by
  unfold customizedCopy at hc
  cases hcp : copy h x with
  | none => rw [hcp] at hc; simp at hc
  | some r =>
    obtain ⟨h1, c1⟩ := r
    rw [hcp] at hc
    obtain ⟨n, hn, rfl, rfl⟩ := copy_eq hcp
    simp only [Option.some.injEq, Prod.mk.injEq] at hc
    obtain ⟨rfl, rfl⟩ := hc
    refine ⟨rfl, ?_⟩
    intro i hi
    have hne : i ≠ h.length := Nat.ne_of_lt hi
    rw [assign_get_ne _ _ _ _ hne]
    cases ks <;> cases ws <;> cases name <;>
      simp only [assign_get_ne _ _ _ _ hne, List.getElem?_append_left hi]

/-! ### parse-shaped construction -/

/-- **abs ∘ build = id.**  The object the parser-shaped construction (`scope.adopt`: pre-order allocation,
    `child.primary_parent_scope = self`, `self.objects.append(child)`) allocates for a tree `o` denotes `o` —
    every tree, every heap it is allocated in, every parent. -/
theorem build_denotes (o : Obj) (p : Option Nat) (h : Heap) : Abs (build o p h).1 (build o p h).2 o :=
  build_abs o p h

/-- building allocates `size o` new objects and writes no existing one -/
theorem build_allocates (o : Obj) (p : Option Nat) (h : Heap) :
    (build o p h).1.length = h.length + size o ∧ ∀ i, i < h.length → (build o p h).1[i]? = h[i]? :=
  build_frame o p h

/-- a deep copy of a parsed tree denotes that tree (every tree `o`) -/
theorem deepcopy_of_built_tree (o : Obj) (p : Option Nat) (h : Heap) (c : Copied)
    (hd : deepcopy (build o p h).1 (build o p h).2 = some c) : Abs c.heap c.result o :=
  deepcopy_isomorphic _ _ c o hd (build_abs o p h)

/-! ### sharp edges (kernel-checked, replayed on Python) -/

/-- the heap of a parsed text -/
def heapOfText (t : String) : Heap :=
  match parseObjs t.toList with
  | .ok os => ofObjs os
  | .error _ => []

/-- the names and attribute lists of the children of what `x` denotes -/
def childSlots (h : Heap) (x : Nat) : Option (List (Str × Attrs)) :=
  (abs h x).map fun o => o.children.map fun k => (k.name, k.meta.attrs)

def setCaption : Assign := .slot fun m => { m with attrs := m.attrs ++ [("short_caption", .str "A".toList)] }

/-- **Assignment THROUGH a shallow copy leaks (finding D21).**  Master `s .multiple=True { a = 1 }`:
    objects 0 = root, 1 = s, 2 = a.  The template entry `fetch` emits for `s` is `s.copy()` (object 3):
    its `objects` are the master's own children, so `template.objects[0].short_caption = "A"` — an
    assignment to a field of an object reached through the copy, which is what `interface.index(M)`
    does — changes what the MASTER's `s` denotes.  The hypothesis `c ≤ op.1` of `copy_assign_frame` is sharp. -/
theorem template_copy_shares_master_children :
    (copy (heapOfText "s\n  .multiple = True\n{\n  a = 1\n}\n") 1).map (fun r =>
      (r.2, r.1[r.2]?.map Node.kids, (heapOfText "s\n  .multiple = True\n{\n  a = 1\n}\n")[1]?.map Node.kids,
       decide (childSlots (assign r.1 2 setCaption) 1 ≠
               childSlots (heapOfText "s\n  .multiple = True\n{\n  a = 1\n}\n") 1))) =
    some (3, some [2], some [2], true) := by
  decide +kernel

/-- … whereas assigning the same field of the copy ITSELF is invisible in the master (instance of
    `copy_assign_frame`, here evaluated) -/
example :
    (copy (heapOfText "s\n  .multiple = True\n{\n  a = 1\n}\n") 1).map (fun r =>
      decide (childSlots (assign r.1 r.2 setCaption) 0 =
              childSlots (heapOfText "s\n  .multiple = True\n{\n  a = 1\n}\n") 0)) = some true := by
  decide +kernel

/-- **`deepcopy` of a child copies the whole document.**  `a = 1 ⏎ s { b = 2 }`: objects 0 = root,
    1 = a, 2 = s, 3 = b.  `deepcopy(s)` creates four objects (s', b', root', a' = 4, 5, 6, 7); the result's
    parent is root' = 6, which lists a' and the result. -/
theorem deepcopy_of_child_copies_document :
    (deepcopy (heapOfText "a = 1\ns {\n  b = 2\n}\n") 2).map (fun c => (c.result, c.comp, (graph c.heap).drop 4)) =
      some (4, [2, 3, 0, 1],
        [⟨true, "s".toList, some 6, [5]⟩, ⟨false, "b".toList, some 4, []⟩,
         ⟨true, [], none, [7, 4]⟩, ⟨false, "a".toList, some 6, []⟩]) := by
  decide +kernel

/-- a result scope (2) listing the master's definition (1), whose parent is the master root (0) -/
def fetchShaped : Heap :=
  [.scope { name := [] } [1] none, .defn { name := "a".toList } [] (some 0), .scope { name := [] } [1] none]

/-- **`kidsLinkedB` is needed for `deepcopy_children_linked`.**  A fetch result keeps the master's parent
    pointers (`customized_copy` copies the slot): here object 2 is a result scope listing the master's
    definition 1, whose parent is the master root 0.  In the deep copy the child's parent is the copy of
    the MASTER root (4), not the copied result scope (3). -/
theorem children_of_fetch_results_point_into_master :
    kidsLinkedB fetchShaped = false ∧
    (deepcopy fetchShaped 2).map (fun c => (c.result, (graph c.heap).drop 3)) =
      some (3, [⟨true, [], none, [4]⟩, ⟨false, "a".toList, some 5, []⟩, ⟨true, [], none, [4]⟩]) := by
  decide +kernel

/-! ### the hypotheses are satisfiable -/

/-- a parsed document: well-formed, deepcopy succeeds on every object, and the theorems apply -/
example :
    wfB (heapOfText "a = 1\ns {\n  b = 2 3\n  t { c = x }\n}\n") = true ∧
    (heapOfText "a = 1\ns {\n  b = 2 3\n  t { c = x }\n}\n").length = 6 ∧
    (List.range 6).all (fun x => (deepcopy (heapOfText "a = 1\ns {\n  b = 2 3\n  t { c = x }\n}\n") x).isSome) = true ∧
    (abs (heapOfText "a = 1\ns {\n  b = 2 3\n  t { c = x }\n}\n") 0).isSome = true := by
  decide +kernel

example : ∃ c, deepcopy (heapOfText "a = 1\ns {\n  b = 2 3\n  t { c = x }\n}\n") 2 = some c ∧
    ∀ ops : List (Nat × Assign), (∀ op ∈ ops, 6 ≤ op.1) → ∀ f i, i < 6 →
      absF f (assignMany c.heap ops) i = absF f (heapOfText "a = 1\ns {\n  b = 2 3\n  t { c = x }\n}\n") i := by
  have hl : (heapOfText "a = 1\ns {\n  b = 2 3\n  t { c = x }\n}\n").length = 6 := by decide +kernel
  cases hd : deepcopy (heapOfText "a = 1\ns {\n  b = 2 3\n  t { c = x }\n}\n") 2 with
  | none => exact absurd hd (by decide +kernel)
  | some c =>
    refine ⟨c, rfl, fun ops hops f i hi => ?_⟩
    exact (deepcopy_assign_frame _ 2 c hd (by decide +kernel) ops (by rw [hl]; exact hops)).2 f i (by rw [hl]; exact hi)

end Phil.C17Heap

#print axioms Phil.C17Heap.deepcopy_isomorphic
#print axioms Phil.C17Heap.deepcopy_isomorphic_everywhere
#print axioms Phil.C17Heap.deepcopy_abs
#print axioms Phil.C17Heap.deepcopy_cell
#print axioms Phil.C17Heap.deepcopy_component
#print axioms Phil.C17Heap.deepcopy_disjoint
#print axioms Phil.C17Heap.deepcopy_references_inside
#print axioms Phil.C17Heap.deepcopy_children_linked
#print axioms Phil.C17Heap.deepcopy_root_parent
#print axioms Phil.C17Heap.deepcopy_frame
#print axioms Phil.C17Heap.deepcopy_assign_frame
#print axioms Phil.C17Heap.deepcopy_targets
#print axioms Phil.C17Heap.deepcopy_assign_frame_abs
#print axioms Phil.C17Heap.copy_shares
#print axioms Phil.C17Heap.copy_isomorphic
#print axioms Phil.C17Heap.copy_unlisted
#print axioms Phil.C17Heap.copy_assign_frame
#print axioms Phil.C17Heap.customizedCopy_frame
#print axioms Phil.C17Heap.build_denotes
#print axioms Phil.C17Heap.build_allocates
#print axioms Phil.C17Heap.deepcopy_of_built_tree
#print axioms Phil.C17Heap.template_copy_shares_master_children
#print axioms Phil.C17Heap.deepcopy_of_child_copies_document
#print axioms Phil.C17Heap.children_of_fetch_results_point_into_master
