/-
  C13 (parents and ids; finding D71) — what `include` leaves in `primary_parent_scope` and `primary_id` of the
  spliced objects, and what `full_path()` and `$variable` look-ups make of it.

  Model: Phil/IncludeParents.lean (`expandP` = `parse(file_name=…, process_includes=True)` with the parent link
  of every object, as a chain of frames (`name`, `.objects`) innermost first; `fullPathP` = `full_path()`;
  `lexicalGetP o v` = `o.primary_parent_scope.lexical_get(v, stop_id=o.primary_id)`, the look-up of
  `definition.resolve_variables`).  Lemmas and auxiliary definitions (`pathsUnder`, `PathsRight`, `includesAtTop`,
  `TopLevelIncludes`, `inclPAt`) are in Phil/Proofs/IncludeParentsLemmas.lean.  Correspondence: driver op `expandp`
  (full path, id, number of parents, and the look-up of every name of the tree from every object), compared with
  the real objects in harness/props/C13.py.

  `pathsUnder up objs` = the `full_path()`s inside ONE consistently linked tree (a parsed text: the inlined text).
  All theorems hold for every environment, fuel, stack, chain and object list; `decide`/`rfl` only in witnesses.
-/
import Phil.Proofs.IncludeParentsLemmas
namespace Phil.C13
open Phil

/-! ### 1. erasure -/

/-- forgetting the parent links gives the include model of C13 (same trees, same ids, same errors) -/
theorem expandP_erases_to_expand (env : IncEnv) (root : Path) :
    (expandP env root).map eraseL = expand env root :=
  expandFileP_erase env _ root []

/-- the same for every file, fuel and include stack -/
theorem expandFileP_erases_to_expandFile (env : IncEnv) (fuel : Nat) (path : Path) (stack : List Path) :
    (expandFileP env fuel path stack).map eraseL = expandFile env fuel path stack :=
  expandFileP_erase env fuel path stack

/-! ### 2. full paths -/

/-- decidable form of `TopLevelIncludes` -/
def topLevelIncludesB (env : IncEnv) : Bool :=
  env.fs.all fun pt => match parseObjs pt.2 with
    | .ok objs => includesAtTop objs
    | .error _ => true

theorem topLevelIncludes_of_check (env : IncEnv) (h : topLevelIncludesB env = true) : TopLevelIncludes env := by
  intro pt hpt objs hp
  have := List.all_eq_true.mp h pt hpt
  simpa [hp] using this

/-- **include at top level**: when every file places its `include file` statements at top level (`include scope`
    may stand anywhere), every object of the expanded tree reports the full path it has in the tree — i.e. in the
    parse of the inlined text (`expand` is that tree by `expandP_erases_to_expand` and the inlining laws of C13) -/
theorem full_path_of_included_toplevel (env : IncEnv) (htop : TopLevelIncludes env) (root : Path)
    (r : List PObj) (h : expandP env root = .ok r) :
    fullPathsP r = pathsUnder [] (eraseL r) ∧ expand env root = .ok (eraseL r) := by
  refine ⟨expandFileP_pathsRight env htop _ root [] r h, ?_⟩
  rw [← expandP_erases_to_expand, h]
  rfl

/-- **D71, positive statement**: a well-formed `include file name` statement standing ANYWHERE (parent chain `ch`:
    inside scope `s`, `ch = ⟨s, …⟩ :: …`) contributes exactly the objects `inc` of the separately processed file —
    same parent links, same ids; nothing of `ch` enters them … -/
theorem included_objects_ignore_site (env : IncEnv) (fuel : Nat) (refdir : Path) (stack : List Path)
    (ch : PChain) (o : Obj) (rest : List Obj) (name : Str) (h : includeTarget o = some name) :
    processListP env (inclPAt env fuel) fuel refdir stack ch (o :: rest) =
      match inclPAt env fuel (resolvePath refdir name) stack with
      | .error e => .error e
      | .ok inc => (processListP env (inclPAt env fuel) fuel refdir stack ch rest).map (fun r => inc ++ r) := by
  rw [processListP_cons, processObjP_include env _ fuel refdir stack ch o name h]
  cases inclPAt env fuel (resolvePath refdir name) stack <;> rfl

/-- … hence inside scope `s` the spliced objects report their paths WITHOUT the prefix of the scope: their
    `full_path()`s are the ones in the included file read from ITS root (`pathsUnder []`), whatever `ch` is; the
    inlined text would give `pathsUnder (climbNames ch)` (`full_paths_of_inlined_text`) -/
theorem full_path_of_included_in_scope (env : IncEnv) (htop : TopLevelIncludes env) (fuel : Nat)
    (refdir : Path) (stack : List Path) (ch : PChain) (o : Obj) (rest : List Obj) (name : Str)
    (h : includeTarget o = some name) (r : List PObj)
    (hr : processListP env (inclPAt env fuel) fuel refdir stack ch (o :: rest) = .ok r) :
    ∃ inc r', r = inc ++ r' ∧ inclPAt env fuel (resolvePath refdir name) stack = .ok inc ∧
      fullPathsP inc = pathsUnder [] (eraseL inc) := by
  rw [included_objects_ignore_site env fuel refdir stack ch o rest name h] at hr
  cases hi : inclPAt env fuel (resolvePath refdir name) stack with
  | error e => rw [hi] at hr; cases hr
  | ok inc =>
    rw [hi] at hr
    simp only at hr
    cases hrest : processListP env (inclPAt env fuel) fuel refdir stack ch rest with
    | error e => rw [hrest] at hr; cases hr
    | ok r' =>
      rw [hrest] at hr
      simp only [Except.map, Except.ok.injEq] at hr
      refine ⟨inc, r', hr.symm, rfl, ?_⟩
      cases fuel with
      | zero => simp [inclPAt] at hi
      | succ f => exact expandFileP_pathsRight env htop (f + 1) _ _ inc hi

/-- what the inlined text gives: in a consistently linked tree below the chain `ch` the full paths carry the
    names of `ch` -/
theorem full_paths_of_inlined_text (ch : PChain) (objs : List Obj) :
    fullPathsP (annotL ch objs) = pathsUnder (climbNames ch) objs :=
  fullPathsP_annotL objs ch

/-- **include scope**: a well-formed `include scope p [q]` statement below the chain `ch` contributes the selection
    `sel` re-linked below `ch` (`change_primary_parent_scope`): the full paths are right (they carry the names of
    `ch`), the objects — ids included — are those of the imported scope (foreign ids) -/
theorem include_scope_paths_right_ids_foreign (env : IncEnv) (incl : Path → List Path → R (List PObj))
    (fuel : Nat) (refdir : Path) (stack : List Path) (ch : PChain) (o : Obj) (p : Str) (sub : Option Str)
    (sel : List Obj) (h : scopeTarget o = some (p, sub))
    (hsel : includeScope env fuel stack p sub o.meta.line = .ok sel) :
    ∃ r, processObjP env incl fuel refdir stack ch o = .ok r ∧
      fullPathsP r = pathsUnder (climbNames ch) sel ∧ eraseL r = sel := by
  refine ⟨annotL ch sel, ?_, fullPathsP_annotL sel ch, erase_annotL sel ch⟩
  rw [processObjP_scopeTarget env incl fuel refdir stack ch o p sub h, hsel]
  rfl

/-- objects that are kept (ordinary definitions) keep the parent they were parsed with -/
theorem kept_definition_keeps_parent (env : IncEnv) (incl : Path → List Path → R (List PObj)) (fuel : Nat)
    (refdir : Path) (stack : List Path) (ch : PChain) (m : Meta) (ws : List Word)
    (hn : m.name ≠ "include".toList) :
    processObjP env incl fuel refdir stack ch (.defn m ws) = .ok [.defn m ws ch] := by
  have hn' : (m.name != "include".toList) = true := by simpa using hn
  rw [processObjP_defn]
  by_cases hd : m.disabled = true
  · simp only [hd, ↓reduceIte]
  · simp only [hd, hn', Bool.false_eq_true, ↓reduceIte]

/-! ### 3. variables -/

/-- **a reference inside the included file resolves as in the file alone**: the look-up from a top-level definition
    of a file parsed as `objs` runs over the chain `[objs]` — the file's own PRE-expansion objects, exactly the chain
    `Phil.resolveAt` uses for the file parsed alone — wherever the file is included -/
theorem include_internal_reference (objs : List Obj) (m : Meta) (ws : List Word) (id : Nat) (v : Str)
    (hid : m.id = some id) :
    lexicalGetP (.defn m ws (rootChain objs)) v = lexicalGet (2 * v.length + 1 + 1) [objs] v id true := by
  simp [lexicalGetP, PObj.meta, PObj.par, hid, rootChain, PChain.toChain]

/-- the spliced objects of an included file are those of the file processed alone, as objects (parent links
    included): every look-up from them gives what it gives in the file alone -/
theorem included_objects_are_the_files_own (env : IncEnv) (fuel : Nat) (refdir : Path) (stack : List Path)
    (ch : PChain) (o : Obj) (rest : List Obj) (name : Str) (h : includeTarget o = some name) (r : List PObj)
    (hr : processListP env (inclPAt env fuel) fuel refdir stack ch (o :: rest) = .ok r) :
    ∃ inc, inclPAt env fuel (resolvePath refdir name) stack = .ok inc ∧ ∀ d ∈ inc, d ∈ r := by
  rw [included_objects_ignore_site env fuel refdir stack ch o rest name h] at hr
  cases hi : inclPAt env fuel (resolvePath refdir name) stack with
  | error e => rw [hi] at hr; cases hr
  | ok inc =>
    rw [hi] at hr
    simp only at hr
    cases hrest : processListP env (inclPAt env fuel) fuel refdir stack ch rest with
    | error e => rw [hrest] at hr; cases hr
    | ok r' =>
      rw [hrest] at hr
      simp only [Except.map, Except.ok.injEq] at hr
      subst hr
      exact ⟨inc, rfl, fun d hd => List.mem_append_left _ hd⟩

/-- a name is a candidate of `lexical_get` among `objs` -/
def candidateIn (objs : List Obj) (v : Str) : Bool :=
  objs.any fun o => o.name == v || (stripPrefixDot o.name v).isSome

/-- a root-level look-up of a name none of the root's objects matches finds nothing -/
theorem lexicalGet_root_none (fuel : Nat) (objs : List Obj) (v : Str) (id : Nat)
    (hdot : (v.take 1 == ['.']) = false) (hc : candidateIn objs v = false) :
    lexicalGet (fuel + 1) [objs] v id true = none := by
  unfold lexicalGet
  simp only [hdot, Bool.false_eq_true, ↓reduceIte]
  split
  · rename_i r heq
    exfalso
    obtain ⟨a, ha, hfa⟩ := List.exists_of_findSome?_eq_some heq
    have ha' : a ∈ objs :=
      (List.takeWhile_sublist _).subset (List.mem_filter.mp (List.mem_reverse.mp ha)).1
    have hn := (List.any_eq_false.mp hc) a ha'
    simp only [Bool.or_eq_true, not_or, Bool.not_eq_true, Option.isSome_eq_false_iff,
      Option.isNone_iff_eq_none] at hn
    simp [hn.1, hn.2] at hfa
  · rfl

/-- **a reference across the include boundary is undefined**: from a top-level definition of an included file
    (parsed as `objs`) a name that the file itself does not define is not found — whatever the including file
    defines (its objects are not on the parent chain of the spliced definition at all) -/
theorem include_boundary_undefined (objs : List Obj) (m : Meta) (ws : List Word) (v : Str)
    (hdot : (v.take 1 == ['.']) = false) (hc : candidateIn objs v = false) :
    lexicalGetP (.defn m ws (rootChain objs)) v = none := by
  cases hid : m.id with
  | none => simp [lexicalGetP, PObj.meta, hid]
  | some id =>
    rw [include_internal_reference objs m ws id v hid]
    exact lexicalGet_root_none _ objs v id hdot hc

/-! ### witnesses (finding D71, known_findings.json; replayed on Python) -/

/-- the computation succeeds and the result satisfies the check -/
def okAnd {α : Type} (x : R α) (p : α → Bool) : Bool :=
  match x with
  | .ok r => p r
  | .error _ => false

def strs (l : List String) : List Str := l.map String.toList

def pMainW : Path := ["main.params".toList]
/-- main.params: `s { a = 1  include file inc.params }`, inc.params: `b = $a  t { c = 3 }` -/
def envD71 : IncEnv :=
  { fs := [(["main.params".toList], "s {\n  a = 1\n  include file inc.params\n}\n".toList),
           (["inc.params".toList], "b = $a\nt {\n  c = 3\n}\n".toList)] }

/-- observed: the spliced `b`, `t`, `t.c` lack the prefix `s.` … -/
theorem d71_observed_full_paths :
    okAnd (expandP envD71 pMainW) (fun r => fullPathsP r == strs ["s", "s.a", "b", "t", "t.c"]) = true := by
  decide +kernel

/-- … the tree itself (= the parse of the inlined text) has `s.b`, `s.t`, `s.t.c` -/
theorem d71_inlined_full_paths :
    okAnd (expandP envD71 pMainW)
      (fun r => pathsUnder [] (eraseL r) == strs ["s", "s.a", "s.b", "s.t", "s.t.c"]) = true := by
  decide +kernel

/-- the hypothesis `TopLevelIncludes` of `full_path_of_included_toplevel` is sharp: here it fails, and so does
    the conclusion -/
theorem d71_not_toplevel : topLevelIncludesB envD71 = false := by decide +kernel
theorem d71_paths_differ :
    okAnd (expandP envD71 pMainW) (fun r => fullPathsP r != pathsUnder [] (eraseL r)) = true := by
  decide +kernel

/-- ids restart in the included file: `s`/`b` both carry id 1, `a`/`t` both id 2 -/
theorem d71_ids_restart :
    okAnd (expandP envD71 pMainW) (fun r => (nodesP r).map (fun o => (o.name, o.meta.id))
      == [("s".toList, some 1), ("a".toList, some 2), ("b".toList, some 1), ("t".toList, some 2),
          ("c".toList, some 3)]) = true := by
  decide +kernel

/-- `$a` from the spliced `b` is undefined (Python: "Undefined variable: $a") … -/
theorem d71_boundary_lookup :
    okAnd (expandP envD71 pMainW) (fun r => (nodesP r).map (fun o => (lexicalGetP o "a".toList).map (·.1.meta.id))
      == [none, none, none, none, none]) = true := by
  decide +kernel
/-- … in the inlined text every object after `a` finds it (id 2) -/
theorem d71_inlined_lookup :
    okAnd (parseObjs "s {\n  a = 1\n  b = $a\n  t {\n    c = 3\n  }\n}\n".toList)
      (fun r => (nodesP (annotL (rootChain r) r)).map (fun o => (lexicalGetP o "a".toList).map (·.1.meta.id))
        == [none, none, some (some 2), some (some 2), some (some 2)]) = true := by
  decide +kernel

/-- a reference inside the included file to an earlier name of that file is found (id 1 of inc2.params, chain of
    length 1: the file's own root) wherever the file is included -/
def envInternal : IncEnv :=
  { fs := [(["main.params".toList], "s {\n  include file inc2.params\n}\nx = outer\n".toList),
           (["inc2.params".toList], "x = inner\nr = $x\n".toList)] }
theorem internal_reference_found :
    okAnd (expandP envInternal pMainW) (fun r => (nodesP r).map (fun o =>
        (fullPathP o, (lexicalGetP o "x".toList).map (fun f => (f.1.meta.id, f.2.length))))
      == [("s".toList, none), ("x".toList, none), ("r".toList, some (some 1, 1)), ("x".toList, none)]) = true := by
  decide +kernel

/-- the hypotheses of the general theorems are satisfiable: the witness with the include at top level -/
def envTop : IncEnv :=
  { fs := [(["main.params".toList], "a = 1\ninclude file inc.params\ns {\n  d = 4\n}\n".toList),
           (["inc.params".toList], "b = $a\nt {\n  c = 3\n}\n".toList)] }
theorem envTop_toplevel : TopLevelIncludes envTop := topLevelIncludes_of_check envTop (by decide +kernel)
example : okAnd (expandP envTop pMainW)
    (fun r => fullPathsP r == strs ["a", "b", "t", "t.c", "s", "s.d"]) = true := by decide +kernel
/-- `include_boundary_undefined` applies to the spliced `b` of the witness: `a` is no candidate in inc.params -/
example : okAnd (parseObjs "b = $a\nt {\n  c = 3\n}\n".toList)
    (fun objs => !candidateIn objs "a".toList && !("a".toList.take 1 == ['.'])) = true := by decide +kernel
/-- `candidateIn` is needed: with `a` defined in the included file the look-up succeeds -/
theorem candidate_needed :
    okAnd (parseObjs "a = 0\nb = $a\n".toList) (fun objs => candidateIn objs "a".toList &&
       (lexicalGetP (.defn { name := "b".toList, id := some 2 } [] (rootChain objs)) "a".toList).isSome) = true := by
  decide +kernel

/-- **include scope keeps foreign ids** (replayed on Python: `s { a = 1  include scope m.x }`, m.x = `b = $a  t { c = 3 }`):
    the selection re-linked below the site `s { a = 1 … }` (`a` has id 2 there) reports the right paths `s.b`, `s.t`,
    `s.t.c`, but keeps the ids 1, 2, 3 of the imported text, and "earlier" is judged on those: `$a` is NOT found
    from `b` (id 1) and `t` (id 2), it is found from `c` (id 3) -/
def scopeSite : PChain :=
  [{ name := "s".toList, objs := [.defn { name := "a".toList, id := some 2 } []] }, { name := [], objs := [] }]
theorem include_scope_foreign_ids_lookup :
    okAnd (parseObjs "b = $a\nt {\n  c = 3\n}\n".toList) (fun sel =>
      let r := annotL scopeSite sel
      fullPathsP r == strs ["s.b", "s.t", "s.t.c"] &&
      (nodesP r).map (fun o => (o.meta.id, (lexicalGetP o "a".toList).map (·.1.meta.id)))
        == [(some 1, none), (some 2, none), (some 3, some (some 2))]) = true := by
  decide +kernel

/-- the including file's own references look into its PRE-expansion tree (kept objects keep the original parent,
    whose `.objects` still hold the `include` statement): `x = outer / include file inc3 (x = inner) / r = $x`
    resolves `$x` from `r` to `outer`; in the inlined text the nearest earlier `x` is `inner` (replayed on Python) -/
def envPre : IncEnv :=
  { fs := [(["main.params".toList], "x = outer\ninclude file inc3.params\nr = $x\n".toList),
           (["inc3.params".toList], "x = inner\n".toList)] }
theorem reference_uses_preexpansion_tree :
    okAnd (expandP envPre pMainW) (fun r => (nodesP r).map (fun o =>
        (o.name, match lexicalGetP o "x".toList with
          | some (.defn _ ws, _) => ws.map (·.value)
          | _ => []))
      == [("x".toList, []), ("x".toList, []), ("r".toList, ["outer".toList])]) = true := by
  decide +kernel
theorem reference_in_inlined_text :
    okAnd (parseObjs "x = outer\nx = inner\nr = $x\n".toList) (fun objs =>
      (nodesP (annotL (rootChain objs) objs)).map (fun o =>
        (o.name, match lexicalGetP o "x".toList with
          | some (.defn _ ws, _) => ws.map (·.value)
          | _ => []))
      == [("x".toList, []), ("x".toList, ["outer".toList]), ("r".toList, ["inner".toList])]) = true := by
  decide +kernel

end Phil.C13

#print axioms Phil.C13.expandP_erases_to_expand
#print axioms Phil.C13.expandFileP_erases_to_expandFile
#print axioms Phil.C13.topLevelIncludes_of_check
#print axioms Phil.C13.full_path_of_included_toplevel
#print axioms Phil.C13.included_objects_ignore_site
#print axioms Phil.C13.full_path_of_included_in_scope
#print axioms Phil.C13.full_paths_of_inlined_text
#print axioms Phil.C13.include_scope_paths_right_ids_foreign
#print axioms Phil.C13.kept_definition_keeps_parent
#print axioms Phil.C13.include_internal_reference
#print axioms Phil.C13.included_objects_are_the_files_own
#print axioms Phil.C13.lexicalGet_root_none
#print axioms Phil.C13.include_boundary_undefined
#print axioms Phil.C13.d71_observed_full_paths
#print axioms Phil.C13.d71_inlined_full_paths
#print axioms Phil.C13.d71_not_toplevel
#print axioms Phil.C13.d71_paths_differ
#print axioms Phil.C13.d71_ids_restart
#print axioms Phil.C13.d71_boundary_lookup
#print axioms Phil.C13.d71_inlined_lookup
#print axioms Phil.C13.internal_reference_found
#print axioms Phil.C13.envTop_toplevel
#print axioms Phil.C13.candidate_needed
#print axioms Phil.C13.include_scope_foreign_ids_lookup
#print axioms Phil.C13.reference_uses_preexpansion_tree
#print axioms Phil.C13.reference_in_inlined_text
