/-
  C15 (closed form for nested documents) — every scope and every definition reports the 1-based source
  line on which its name actually stands.  Setting: a nested document under an arbitrary well-formed
  nested layout (Phil/Props/C02Nested.lean for the vocabulary: `LayItem`, `renderN`, `wfDocN`),
  dottedName names included.

  As in the flat case (Phil/Props/C15Layout.lean) the statement is not circular: the recorded line of
  an object is compared with `1 + (number of newlines in the text in front of its name)`, where "the
  text in front of its name" is an explicit function of the items and their layouts
  (`layNamePos xs []`, by recursion on the layout tree, no reference to the parser), and
  `namePos_is_prefix` shows that every such text, followed by the name as written, really is a prefix
  of the rendered document.  An entry of `layNamePos` is `(name, pos)` with
    * `pos = some (before, written)` — `before` the text in front of the name (a `!` included),
      `written` the name as it stands in the text (the dottedName name for a dottedName item: the innermost
      object of `a.b.c = 1` is named `c` and stands where `a.b.c` begins);
    * `pos = none` — a scope `scope.adopt` builds for a leading component of a dottedName name: it has no
      source position (`where_str` is empty), its recorded line is `none`.
  The lines of the words of every definition are part of the closed form `layLined` (`linedWords`, as
  in the flat case: `1 +` the newlines in front of the word).

  Property theorems only; lemmas are in Phil/Proofs/Layout2.lean.
-/
import Phil.Props.C02Nested
set_option linter.unusedSimpArgs false
namespace Phil.C15
open Phil

attribute [local instance] Phil.C01.objDecEqInst Phil.C01.exceptDecEqRT

/-- the parse result in one equation: `layLined xs [] 1`, the tree in which every line — of scopes,
    definitions and words — is computed from the text in front (see `LayItem.lined`, `linedWords`) -/
theorem nested_lines_closed_form (xs : List LayItem) (post : Pre) (h : wfDocN xs post = true) :
    parseObjs (renderN xs post) = .ok (layLined xs [] 1) :=
  parseObjs_renderN_lined_l2 xs post h

/-- every position `(before, written)` listed in `layNamePos xs []` is a position of that name in the
    text: `before` is the part of the text that ends exactly where `written` begins -/
theorem namePos_is_prefix (xs : List LayItem) (post : Pre) (n before written : Str)
    (hpn : (n, some (before, written)) ∈ layNamePos xs []) :
    ∃ tail, renderN xs post = before ++ (written ++ tail) := by
  obtain ⟨tail, ht⟩ := layNamePos_prefix_l2 xs [] n before written hpn
  refine ⟨tail ++ post.text, ?_⟩
  rw [renderN]
  rw [List.nil_append] at ht
  rw [ht]
  simp

/-- **C15, nested documents.**  For every well-formed nested layout `parse` succeeds, and the list of
    (name, source line) of all objects of the tree in document order (a scope before its children) is
    the list of (name, `1 +` number of newlines in the text in front of that name — `NamePos.line`)
    of all scopes and definitions of the document (`none` for the position-less scopes built for the
    leading components of a dottedName name); every listed text is a prefix of the document that ends
    where the name begins.  Multi-line quoted words, blank lines, comment lines, `name` and `{` on
    different lines, several items and `}` on one line are all covered by the layout language. -/
theorem nested_lines_correct (xs : List LayItem) (post : Pre) (h : wfDocN xs post = true) :
    ∃ objs, parseObjs (renderN xs post) = .ok objs ∧
      nameLinesList objs = (layNamePos xs []).map (fun e => (e.1, e.2.line)) ∧
      ∀ n before written, (n, some (before, written)) ∈ layNamePos xs [] →
        ∃ tail, renderN xs post = before ++ (written ++ tail) :=
  ⟨layLined xs [] 1, nested_lines_closed_form xs post h, linedList_nameLines_l2 xs [] 1,
    fun n before written hpn => namePos_is_prefix xs post n before written hpn⟩

/-! ### non-vacuity: the wild layout of C02Nested -/

open Phil.C02 in
/-- the positions of the eight names of the wild layout: lines 2, 4, 6, 7, 7, 7, 9, 11 -/
example : (layNamePos (exWildN true true false) []).map (fun e => (String.ofList e.1, e.2.line))
    = [("x", some 2), ("a", some 4), ("y", some 6), ("e", some 7), ("z", some 7), ("f", some 7),
       ("g", some 9), ("w", some 11)] := by
  decide +kernel

open Phil.C02 in
/-- … and with `f.g = 4` spelt dottedName: the scope `f` built by `scope.adopt` has no line, `g` is on
    line 8 -/
example : (layNamePos (exWildN true true true) []).map (fun e => (String.ofList e.1, e.2.line))
    = [("x", some 2), ("a", some 4), ("y", some 6), ("e", some 7), ("z", some 7), ("f", none),
       ("g", some 8), ("w", some 9)] := by
  decide +kernel

open Phil.C02 in
/-- the text in front of `z` (third item of the scope `a`) -/
example : ((layNamePos (exWildN true true false) [])[4]?).map (fun e => e.2)
    = some (some ("# head\nx = 1\n\n !a # c\n\t{ #in\n  !y=2 \"p\nq\"; e{ } ".toList, ['z'])) := by
  decide +kernel

open Phil.C02 in
/-- through the theorem: names and lines of the wild layout (the Python library reports the same) -/
example : ∃ objs, parseObjs (renderN (exWildN true true false) { ind := [' '] }) = .ok objs ∧
    nameLinesList objs = [(['x'], some 2), (['a'], some 4), (['y'], some 6), (['e'], some 7),
      (['z'], some 7), (['f'], some 7), (['g'], some 9), (['w'], some 11)] := by
  obtain ⟨objs, p, hl, _⟩ := nested_lines_correct (exWildN true true false) { ind := [' '] }
    (exWildN_wf true true false)
  exact ⟨objs, p, by rw [hl]; decide +kernel⟩

#print axioms nested_lines_closed_form
#print axioms namePos_is_prefix
#print axioms nested_lines_correct

end Phil.C15
