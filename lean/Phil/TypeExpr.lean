/-
  Phil.TypeExpr — the `.type` attribute: common.definition_converters_from_words restricted to the
  built-in registry and to call expressions of the shape `name` or `name(kw=literal, ...)`, and the
  converters' `__str__` (converters.py:336-346, 428-448, 564-567).

  CPython's `tokenize` + `eval` are not modelled; every expression outside the grammar below is
  reported as `Err.unsupported` (never compared, counted by the harness).  Float constructor
  arguments are followed exactly only for finite decimals with denominator dividing 8 and magnitude
  below 10^6, where the decimal literal, the double and the `%.10g` rendering coincide.
-/
import Phil.Basic
namespace Phil

def natDigits : Nat → Str
  | n => if h : n < 10 then [Char.ofNat (48 + n)] else natDigits (n / 10) ++ [Char.ofNat (48 + n % 10)]
decreasing_by omega

/-- `"%d" % i` / `str(i)` for an int -/
def intStr (i : Int) : Str :=
  if i < 0 then '-' :: natDigits i.natAbs else natDigits i.natAbs

def digitsVal : Str → Option Nat
  | [] => none
  | cs => cs.foldl (fun acc c => match acc with
            | none => none
            | some n => if isDigit c then some (n * 10 + (c.toNat - 48)) else none) (some 0)

/-- decimal integer literal `[+-]?digits` (what the model follows of Python's `int(str)`) -/
def parseIntLit (s : Str) : Option Int :=
  match s with
  | '-' :: ds => (digitsVal ds).map (fun n => - (Int.ofNat n))
  | '+' :: ds => (digitsVal ds).map Int.ofNat
  | ds => (digitsVal ds).map Int.ofNat

def pow10 : Nat → Nat
  | 0 => 1
  | n + 1 => 10 * pow10 n

/-- decimal literal with a point, no exponent: `[+-]?digits.digits?` or `[+-]?.digits`;
    result is the exact value `num/den` in lowest terms with den ∈ {1,2,4,8}, else `none` -/
def parseFloatLit (s : Str) : Option (Int × Nat) :=
  let (neg, body) := match s with
    | '-' :: r => (true, r)
    | '+' :: r => (false, r)
    | r => (false, r)
  match splitOn '.' body with
  | [ip, fp] =>
    if ip.isEmpty && fp.isEmpty then none else
    match (if ip.isEmpty then some 0 else digitsVal ip), (if fp.isEmpty then some 0 else digitsVal fp) with
    | some i, some f =>
      let scale := pow10 fp.length
      let numer := i * scale + f        -- value = numer / scale
      let g := Nat.gcd numer scale
      let n := numer / g
      let d := scale / g
      if (d == 1 || d == 2 || d == 4 || d == 8) && decide (numer < 1000000 * scale) && !(neg && numer == 0) then
        some ((if neg then - (Int.ofNat n) else Int.ofNat n), d)
      else none
    | _, _ => none
  | _ => none

/-- `"%.10g" % x` on the modelled domain (ints of magnitude < 10^10, floats n/d with d | 8 and
    magnitude < 10^6); `none` outside it -/
def fmtG10 : PNum → Option Str
  | .int i => if i.natAbs < 10000000000 then some (intStr i) else none
  | .flt n d =>
    if !(d == 1 || d == 2 || d == 4 || d == 8) || decide (n.natAbs ≥ 1000000 * d) then none else
    let a := n.natAbs
    let ip := a / d
    let fr := (a % d) * 1000 / d          -- three decimal digits, exact since d | 8
    let frDigits : Str :=
      if fr == 0 then [] else
      let s3 := (natDigits (1000 + fr)).drop 1
      let s := (s3.reverse.dropWhile (· == '0')).reverse
      '.' :: s
    let body := natDigits ip ++ frDigits
    if n < 0 then some ('-' :: body) else some body
  | .inf => some "inf".toList
  | .ninf => some "-inf".toList
  | .nan => some "nan".toList

/-! ### literals and argument lists -/

inductive Lit | none | bool (b : Bool) | num (n : PNum)
  deriving DecidableEq, Repr

def isAsciiWs (c : Char) : Bool := c == ' ' || c == '\t'

def trimWs (s : Str) : Str :=
  ((s.dropWhile isAsciiWs).reverse.dropWhile isAsciiWs).reverse

def parseLit (s : Str) : Option Lit :=
  if s == "None".toList then some .none
  else if s == "True".toList then some (.bool true)
  else if s == "False".toList then some (.bool false)
  else match parseIntLit s with
    | some i => some (.num (.int i))
    | Option.none => match parseFloatLit s with
      | some (n, d) => some (.num (.flt n d))
      | Option.none => Option.none

/-- `kw = literal` -/
def parseArg (s : Str) : Option (Str × Lit) :=
  match splitOn '=' s with
  | [k, v] =>
    let k := trimWs k
    if isSimpleIdent k then (parseLit (trimWs v)).map (fun l => (k, l)) else none
  | _ => none

def parseArgs (s : Str) : Option (List (Str × Lit)) :=
  let s := trimWs s
  if s.isEmpty then some [] else
  let parts := splitOn ',' s
  -- a trailing comma is legal Python
  let parts := match parts.reverse with
    | last :: restRev => if (trimWs last).isEmpty then restRev.reverse else parts
    | [] => parts
  parts.foldr (fun p acc => match acc, parseArg p with
    | some l, some a => some (a :: l)
    | _, _ => none) (some [])

/-- split `name(args)` → (name, some args) | (name, none) -/
def splitCall (s : Str) : Option (Str × Option Str) :=
  let s := trimWs s
  match splitOn '(' s with
  | [n] => if isSimpleIdent n then some (n, none) else none
  | [n, rest] =>
    let n := trimWs n
    match rest.reverse with
    | ')' :: r => if isSimpleIdent n && !r.contains ')' then some (n, some r.reverse) else none
    | _ => none
  | _ => none

def builtinTypeNames : List String :=
  ["words", "strings", "str", "qstr", "path", "key", "bool", "int", "float", "ints", "floats", "choice"]

def numLE (a b : PNum) : Option Bool :=
  let q : PNum → Option Rat
    | .int i => some (i : Rat)
    | .flt n d => some ((n : Rat) / (d : Rat))
    | _ => none
  match q a, q b with
  | some x, some y => some (decide (x ≤ y))
  | _, _ => none

def lookupArg (args : List (Str × Lit)) (k : String) : Option Lit :=
  (args.find? (fun p => p.1 == k.toList)).map (·.2)

def hasDup (args : List (Str × Lit)) : Bool :=
  let ks := args.map (·.1)
  ks.length != ks.eraseDups.length

/-- bound arguments: None or a number in the printable domain; `intOnly` for int/ints -/
def boundArg (intOnly : Bool) : Option Lit → Option (Option PNum)
  | Option.none => some Option.none
  | some .none => some Option.none
  | some (.num (.int i)) => if i.natAbs < 1000000 then some (some (.int i)) else Option.none
  | some (.num (.flt n d)) => if intOnly then Option.none else some (some (.flt n d))
  | some _ => Option.none

def boolArg (dflt : Bool) : Option Lit → Option Bool
  | Option.none => some dflt
  | some (.bool b) => some b
  | some _ => Option.none

def sizeArg : Option Lit → Option (Option Int)
  | Option.none => some Option.none
  | some .none => some Option.none
  | some (.num (.int i)) => some (some i)
  | some _ => Option.none

def errConstruct (line : Option Nat) : Err := .runtime "type_construct" line

/-- definition_converters_from_words on the joined, stripped expression text; `line` = words[0] line -/
def convFromExpr (expr : Str) (line : Option Nat) : R Conv :=
  match splitCall expr with
  | Option.none => .error (.unsupported "type expression outside the modelled grammar")
  | some (name, argText) =>
    let nm := String.ofList name
    if !builtinTypeNames.contains nm then
      match argText with
      | Option.none => .error (.runtime "type_unexpected" line)
      | some _ => .error (.unsupported "call of a non-built-in type")
    else
    match parseArgs (argText.getD []) with
    | Option.none => .error (.unsupported "type arguments outside the modelled grammar")
    | some args =>
      if hasDup args then .error (.unsupported "repeated keyword") else
      let known (ks : List String) : Bool := args.all (fun p => ks.contains (String.ofList p.1))
      let simple (c : Conv) : R Conv := if args.isEmpty then .ok c else .error (errConstruct line)
      match nm with
      | "words" => simple .words
      | "strings" => simple .strings
      | "str" => simple .str
      | "qstr" => simple .qstr
      | "path" => simple .path
      | "key" => simple .key
      | "bool" => simple .bool
      | "choice" =>
        if !known ["multi"] then .error (errConstruct line) else
        match boolArg false (lookupArg args "multi") with
        | some b => .ok (.choice b)
        | Option.none => .error (.unsupported "choice(multi=non-bool)")
      | "int" | "float" =>
        if !known ["value_min", "value_max", "allow_none"] then .error (errConstruct line) else
        let intOnly := nm == "int"
        match boundArg intOnly (lookupArg args "value_min"), boundArg intOnly (lookupArg args "value_max"),
              boolArg true (lookupArg args "allow_none") with
        | some lo, some hi, some an =>
          let bad := match lo, hi with
            | some a, some b => numLE a b == some false
            | _, _ => false
          if bad then .error (errConstruct line)
          else
            let a : NumArgs := { valueMin := lo, valueMax := hi, allowNone := an }
            .ok (if intOnly then .int a else .float a)
        | _, _, _ => .error (.unsupported "numeric type argument outside the modelled domain")
      | _ =>  -- ints / floats
        if !known ["size", "size_min", "size_max", "value_min", "value_max",
                   "allow_none_elements", "allow_auto_elements"] then .error (errConstruct line) else
        let intOnly := nm == "ints"
        match sizeArg (lookupArg args "size"), sizeArg (lookupArg args "size_min"),
              sizeArg (lookupArg args "size_max"),
              boundArg intOnly (lookupArg args "value_min"), boundArg intOnly (lookupArg args "value_max"),
              boolArg false (lookupArg args "allow_none_elements"),
              boolArg false (lookupArg args "allow_auto_elements") with
        | some size, some smin, some smax, some lo, some hi, some ne, some ae =>
          -- the constructor's assertions (AssertionError → "Error constructing")
          let bad1 := size.isSome && (smin.isSome || smax.isSome)
          let (smin', smax', bad2) := match size with
            | some n => (some n, some n, decide (n ≤ 0))
            | Option.none =>
              (smin, smax,
                (match smin with | some a => decide (a ≤ 0) | Option.none => false) ||
                (match smax with | some b => decide (b ≤ 0) | Option.none => false) ||
                (match smin, smax with | some a, some b => decide (b < a) | _, _ => false))
          let bad3 := match lo, hi with
            | some a, some b => numLE a b == some false
            | _, _ => false
          if bad1 || bad2 || bad3 then .error (errConstruct line)
          else
            let a : ListArgs := { sizeMin := smin', sizeMax := smax', valueMin := lo, valueMax := hi,
                                  allowNoneEl := ne, allowAutoEl := ae }
            .ok (if intOnly then .ints a else .floats a)
        | _, _, _, _, _, _, _ => .error (.unsupported "list type argument outside the modelled domain")

/-! ### converter `__str__` -/

def boundStr (isInt : Bool) (b : PNum) : Str :=
  if isInt then (match b with | .int i => intStr i | _ => "?".toList)
  else (fmtG10 b).getD "?".toList

def kw (k : String) (v : Str) : Str := k.toList ++ '=' :: v

def withArgs (name : String) (kwds : List Str) : Str :=
  if kwds.isEmpty then name.toList else name.toList ++ '(' :: joinWith ", ".toList kwds ++ [')']

def numArgsStr (name : String) (isInt : Bool) (a : NumArgs) : Str :=
  let k1 := match a.valueMin with | some b => [kw "value_min" (boundStr isInt b)] | Option.none => []
  let k2 := match a.valueMax with | some b => [kw "value_max" (boundStr isInt b)] | Option.none => []
  let k3 := [kw "allow_none" (if a.allowNone then "True".toList else "False".toList)]
  withArgs name (k1 ++ k2 ++ k3)

def listArgsStr (name : String) (isInt : Bool) (a : ListArgs) : Str :=
  let ks :=
    if a.sizeMin == a.sizeMax then
      (match a.sizeMin with | some n => [kw "size" (intStr n)] | Option.none => [])
    else
      (match a.sizeMin with | some n => [kw "size_min" (intStr n)] | Option.none => []) ++
      (match a.sizeMax with | some n => [kw "size_max" (intStr n)] | Option.none => [])
  let k1 := match a.valueMin with | some b => [kw "value_min" (boundStr isInt b)] | Option.none => []
  let k2 := match a.valueMax with | some b => [kw "value_max" (boundStr isInt b)] | Option.none => []
  let k3 := if a.allowNoneEl then [kw "allow_none_elements" "True".toList] else []
  let k4 := if a.allowAutoEl then [kw "allow_auto_elements" "True".toList] else []
  withArgs name (ks ++ k1 ++ k2 ++ k3 ++ k4)

/-- `str(converter)` -/
def Conv.render : Conv → Str
  | .words => "words".toList
  | .strings => "strings".toList
  | .str => "str".toList
  | .qstr => "qstr".toList
  | .path => "path".toList
  | .key => "key".toList
  | .bool => "bool".toList
  | .int a => numArgsStr "int" true a
  | .float a => numArgsStr "float" false a
  | .ints a => listArgsStr "ints" true a
  | .floats a => listArgsStr "floats" false a
  | .choice m => if m then "choice(multi=True)".toList else "choice".toList

def Conv.philType : Conv → String
  | .words => "words" | .strings => "strings" | .str => "str" | .qstr => "qstr" | .path => "path"
  | .key => "key" | .bool => "bool" | .int _ => "int" | .float _ => "float" | .ints _ => "ints"
  | .floats _ => "floats" | .choice _ => "choice"

end Phil
