/-
  Phil.Codec — canonical JSON forms of model values (words, errors, trees) used by the driver.
  Not part of the model; trusted base of the tie.
-/
import Phil.Wire
import Phil.Show
namespace Phil

def Quote.tag : Quote → String
  | .s1 => "s1" | .d1 => "d1" | .s3 => "s3" | .d3 => "d3"
def Quote.ofTag : String → Option Quote
  | "s1" => some .s1 | "d1" => some .d1 | "s3" => some .s3 | "d3" => some .d3 | _ => none

def Word.toJ (w : Word) : J :=
  .arr [J.text w.value, (match w.quote with | none => .null | some q => .str q.tag), J.optNat w.line]

def Word.ofJ : J → Option Word
  | .arr [v, q, l] => do
    let v ← v.getStr
    let q ← (match q with | .null => some none | .str t => (Quote.ofTag t).map some | _ => none)
    let l ← l.getOptInt
    pure { value := v, quote := q, line := l.map Int.toNat }
  | _ => none

def Err.toJ : Err → J
  | .runtime site line => .arr [.str "err", .str "runtime", .str site, J.optNat line]
  | .sorry_ site payload => .arr [.str "err", .str "sorry", .str site, .arr (payload.map J.text)]
  | .stray cls site => .arr [.str "err", .str "stray", .str cls, .str site]
  | .unsupported why => .arr [.str "unsupported", .str why]
  | .outOfFuel => .arr [.str "err", .str "out_of_fuel"]

def AttrVal.toJ : AttrVal → J
  | .none => .null
  | .auto => .arr [.str "auto"]
  | .str s => .arr [.str "s", J.text s]
  | .bool b => .arr [.str "b", .bool b]
  | .int i => .arr [.str "i", .num i]
  | .conv c => .arr [.str "t", J.text c.render]

def attrsJ (names : List String) (a : Attrs) : J :=
  .arr (names.map fun n => AttrVal.toJ (a.get n))

partial def Obj.toJ : Obj → J
  | .defn m ws =>
    .arr [.str "d", J.text m.name, J.optNat m.id, .bool m.disabled, J.optNat m.line, .bool m.mergeNames,
          .num m.tmpl, attrsJ defAttrNames m.attrs, .arr (ws.map Word.toJ)]
  | .scope m os =>
    .arr [.str "s", J.text m.name, J.optNat m.id, .bool m.disabled, J.optNat m.line, .bool m.mergeNames,
          .num m.tmpl, attrsJ scopeAttrNames m.attrs, .arr (os.map Obj.toJ)]

def okJ (j : J) : J := .arr [.str "ok", j]

def resJ {α : Type} (f : α → J) : R α → J
  | .ok a => okJ (f a)
  | .error e => e.toJ

end Phil
