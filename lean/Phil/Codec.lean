/-
  Phil.Codec — canonical JSON forms of model values (words, errors, trees) used by the driver.
  Not part of the model; trusted base of the tie.
-/
import Phil.Wire
import Phil.Show
import Phil.Conv
namespace Phil

def Quote.tag : Quote → String
  | .s1 => "s1" | .d1 => "d1" | .s3 => "s3" | .d3 => "d3"
def Quote.ofTag : String → Option Quote
  | "s1" => some .s1 | "d1" => some .d1 | "s3" => some .s3 | "d3" => some .d3 | _ => none

def Word.toJ (w : Word) : J :=
  .arr [J.text w.value, (match w.quote with | none => .null | some q => .str q.tag), J.optNat w.line]

def Word.ofJ : J → Option Word
  | .arr [v, q, l] => do
    let v ← v.getStr
    let q ← (match q with | .null => some none | .str t => (Quote.ofTag t).map some | _ => none)
    let l ← l.getOptInt
    pure { value := v, quote := q, line := l.map Int.toNat }
  | _ => none

def Err.toJ : Err → J
  | .runtime site line => .arr [.str "err", .str "runtime", .str site, J.optNat line]
  | .sorry_ site payload => .arr [.str "err", .str "sorry", .str site, .arr (payload.map J.text)]
  | .stray cls site => .arr [.str "err", .str "stray", .str cls, .str site]
  | .unsupported why => .arr [.str "unsupported", .str why]
  | .outOfFuel => .arr [.str "err", .str "out_of_fuel"]

def AttrVal.toJ : AttrVal → J
  | .none => .null
  | .auto => .arr [.str "auto"]
  | .str s => .arr [.str "s", J.text s]
  | .bool b => .arr [.str "b", .bool b]
  | .int i => .arr [.str "i", .num i]
  | .conv c => .arr [.str "t", J.text c.render]

def attrsJ (names : List String) (a : Attrs) : J :=
  .arr (names.map fun n => AttrVal.toJ (a.get n))

partial def Obj.toJ : Obj → J
  | .defn m ws =>
    .arr [.str "d", J.text m.name, J.optNat m.id, .bool m.disabled, J.optNat m.line, .bool m.mergeNames,
          .num m.tmpl, attrsJ defAttrNames m.attrs, .arr (ws.map Word.toJ)]
  | .scope m os =>
    .arr [.str "s", J.text m.name, J.optNat m.id, .bool m.disabled, J.optNat m.line, .bool m.mergeNames,
          .num m.tmpl, attrsJ scopeAttrNames m.attrs, .arr (os.map Obj.toJ)]

def okJ (j : J) : J := .arr [.str "ok", j]

def resJ {α : Type} (f : α → J) : R α → J
  | .ok a => okJ (f a)
  | .error e => e.toJ

end Phil

namespace Phil

def PNum.toJ : PNum → J
  | .int i => .arr [.str "int", .num i]
  | .flt n d => .arr [.str "flt", .num n, .num d]
  | .inf => .arr [.str "inf"]
  | .ninf => .arr [.str "ninf"]
  | .nan => .arr [.str "nan"]

def PNum.ofJ : J → Option PNum
  | .arr [.str "int", .num i] => some (.int i)
  | .arr [.str "flt", .num n, .num d] => some (.flt n d.toNat)
  | .arr [.str "inf"] => some .inf
  | .arr [.str "ninf"] => some .ninf
  | .arr [.str "nan"] => some .nan
  | _ => none

partial def PVal.toJ : PVal → J
  | .none => .null
  | .auto => .arr [.str "auto"]
  | .bool b => .arr [.str "b", .bool b]
  | .num n => n.toJ
  | .str s => .arr [.str "s", J.text s]
  | .list l => .arr [.str "l", .arr (l.map PVal.toJ)]
  | .words ws => .arr [.str "w", .arr (ws.map Word.toJ)]
  | .record fs => .arr [.str "r", .arr (fs.map fun (k, v) => .arr [J.text k, PVal.toJ v])]
  | .multi _ l => .arr [.str "m", .arr (l.map PVal.toJ)]

partial def PVal.ofJ : J → Option PVal
  | .null => some .none
  | .arr [.str "auto"] => some .auto
  | .arr [.str "b", .bool b] => some (.bool b)
  | .arr [.str "s", t] => t.getStr.map PVal.str
  | .arr [.str "l", .arr l] => (l.mapM PVal.ofJ).map PVal.list
  | .arr [.str "w", .arr l] => (l.mapM Word.ofJ).map PVal.words
  | .arr [.str "r", .arr l] =>
    let field (e : J) : Option (Str × PVal) :=
      match e with
      | J.arr [k, v] => (match k.getStr, PVal.ofJ v with
        | some k, some v => some (k, v)
        | _, _ => Option.none)
      | _ => Option.none
    (l.mapM field).map PVal.record
  | .arr [.str "m", .arr l] => (l.mapM PVal.ofJ).map (PVal.multi .none)
  | j => (PNum.ofJ j).map PVal.num

def AttrVal.ofJ : J → Option AttrVal
  | .null => some .none
  | .arr [.str "auto"] => some .auto
  | .arr [.str "s", t] => t.getStr.map AttrVal.str
  | .arr [.str "b", .bool b] => some (.bool b)
  | .arr [.str "i", .num i] => some (.int i)
  | _ => none

def EvalRes.ofJ : J → Option EvalRes
  | .arr [.str "bool", .bool b] => some (.bool b)
  | .arr [.str "other"] => some .other
  | .arr [.str "none"] => some .noneVal
  | .arr [.str "raises"] => some .raises
  | j => (PNum.ofJ j).map EvalRes.num

def evalEnvOfJ (j : J) : Option EvalEnv := do
  let l ← j.getArr
  let tbl ← l.mapM (fun e => match e with
    | .arr [k, v] => do pure ((← k.getStr), (← EvalRes.ofJ v))
    | _ => none)
  pure (fun s => (tbl.find? (·.1 == s)).map (·.2))

def fmtEnvOfJ (j : J) : Option FmtEnv := do
  let l ← j.getArr
  let tbl ← l.mapM (fun e => match e with
    | .arr [k, v] => do pure ((← PNum.ofJ k), (← v.getStr))
    | _ => none)
  pure (fun n => (tbl.find? (·.1 == n)).map (·.2))

/-- the converter named by a `.type` text; `null` = no type (strings semantics) -/
def convOfJ (j : J) : Option (R Conv) :=
  match j with
  | .null => some (.ok .strings)
  | j => j.getStr.map (fun t => convFromExpr (strip t) none)

def wordsOfJ (j : J) : Option (List Word) := do (← j.getArr).mapM Word.ofJ

end Phil
