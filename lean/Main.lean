/-
  drv — line-protocol driver: one JSON request per line on stdin, one JSON answer per line on stdout.
  Trusted base of the correspondence check (not part of the model).
-/
import Phil
import Phil.Heap
import Phil.HeapFetch2
import Phil.HeapFetchDiff
import Phil.HeapFormat
import Phil.IndexPaths
import Phil.CmdLineAuto
import Phil.IncludeParents
open Phil

def tokErrJ : TokErr → J
  | .missingClosingQuote l => (Err.runtime "missing_closing_quote" (some l)).toJ

/-- index paths of all definitions, pre-order -/
partial def defPaths (objs : List Obj) (pfx : List Nat) : List (List Nat) :=
  (objs.zipIdx.map fun (o, i) =>
    match o with
    | .defn _ _ => [pfx ++ [i]]
    | .scope _ kids => defPaths kids (pfx ++ [i])).flatten

/-- make primary ids of different sources disjoint -/
def offsetVarRes (k : Nat) : Option VarRes → Option VarRes
  | some (.ok ws refs) => some (.ok ws (refs.map (· + k)))
  | v => v

partial def offsetIds (k : Nat) : Obj → Obj
  | .defn m ws => .defn { m with id := m.id.map (· + k), varRes := offsetVarRes k m.varRes } ws
  | .scope m kids => .scope { m with id := m.id.map (· + k) } (kids.map (offsetIds k))

/-- parse every source, resolve its variables in its own document, then make ids disjoint -/
def parseSources (texts : List Str) (env : Env := fun _ => none) (diff : Bool := false) : R (List (List Obj)) :=
  (texts.zipIdx.mapM fun (t, i) =>
    (parseObjs t).map (fun os => (preResolve env diff os).map (offsetIds (1000000 * (i + 1)))))

def envOfJ (j : J) : Env :=
  match j.getArr with
  | some l =>
    let tbl : List (Str × Str) := l.filterMap (fun e => match e with
      | .arr [k, v] => (match k.getStr, v.getStr with | some k, some v => some (k, v) | _, _ => none)
      | _ => none)
    fun n => (tbl.find? (·.1 == n)).map (·.2)
  | none => fun _ => none

def envsOfJ (ej fj : J) : Option Envs :=
  match evalEnvOfJ ej, fmtEnvOfJ fj with
  | some e, some f => some { eval := e, fmt := f }
  | _, _ => none

def opOfJ (j : J) : Option (Index.Op PVal (Str × Option Str)) :=
  match j with
  | .arr [.str "update", t] => t.getStr.map (fun s => Index.Op.update (s, none))
  | .arr [.str "update", t, sc] =>                    -- update(text, only_scope=sc) / merge_phil(…, only_scope=sc)
    (match t.getStr, sc.getStr with
     | some s, some o => some (Index.Op.update (s, some o))
     | _, _ => none)
  | .arr [.str "from_python"] => some (.updateFromPython none)
  | .arr [.str "from_python", v] => (PVal.ofJ v).map (fun p => .updateFromPython (some p))
  | .arr [.str "push"] => some .push
  | .arr [.str "pop"] => some .pop
  | .arr [.str "set", .num i] => some (.setState i.toNat)
  | .arr [.str "get"] => some .getPython
  | .arr [.str "get_noop"] => some (.setState 1000000)      -- an operation the implementation refused: no effect
  | _ => none

/-- identity graph of real objects → heap (C17/C18 heap correspondence): one entry per object,
    `[is scope, name, parent index | null, child indices]` -/
def heapOfJ (g : List J) : Option Heap.Heap :=
  g.mapM fun c => match c with
    | .arr [.bool sc, nm, par, .arr ks] =>
      (match nm.getStr, par.getOptInt, ks.mapM J.getInt with
       | some nm, some par, some ks =>
         some (if sc then Heap.Node.scope { name := nm } (ks.map Int.toNat) (par.map Int.toNat)
               else Heap.Node.defn { name := nm } [] (par.map Int.toNat))
       | _, _, _ => none)
    | _ => none

def graphJ (h : Heap.Heap) : J :=
  .arr ((Heap.graph h).map fun g =>
    .arr [.bool g.isScope, J.text g.name, J.optNat g.parent, .arr (g.kids.map fun k => J.num (Int.ofNat k))])

/-- the identity graph after a heap-level fetch, as the harness numbers it: the `n0` old objects keep their ids,
    the NEW objects reachable from the result `r` (through `objects` and `primary_parent_scope`, in the order
    `copy.deepcopy` would meet them) are numbered `n0, n0+1, …`; unreachable new cells (temporaries) are dropped -/
def canonFetchGraph (n0 : Nat) (h : Heap.Heap) (r : Nat) : Option (List Heap.GNode × Nat) :=
  match Heap.visit (Heap.visitFuel h) h [r] [] with
  | none => none
  | some comp =>
    let news : List Nat := (comp.map (·.1)).filter (fun i => decide (n0 ≤ i))
    let ρ : Nat → Nat := fun i => if i < n0 then i else n0 + news.idxOf i
    let g := Heap.graph h
    some ((g.take n0) ++ news.filterMap (fun i => g[i]?.map (fun (c : Heap.GNode) =>
      { c with parent := c.parent.map ρ, kids := c.kids.map ρ })), ρ r)

def gnodesJ (g : List Heap.GNode) : J :=
  .arr (g.map fun g =>
    .arr [.bool g.isScope, J.text g.name, J.optNat g.parent, .arr (g.kids.map fun k => J.num (Int.ofNat k))])

/-- the path index on the wire: `[path, kind, count, positions]` per key, keys in code-point order;
    `unsupported` when the Python would have raised while building it (`PEntry.stray`) -/
def pathIndexJ (ix : PathIndex) : J :=
  if ix.hasStray then .arr [.str "unsupported", .str "index-append-on-object"] else
  let rows := ix.map (fun kv => (String.ofList kv.1, kv))
  let sorted := rows.mergeSort (fun a b => !(b.1 < a.1))
  .arr (sorted.map (fun r =>
    .arr [J.text r.2.1, .str r.2.2.kind, .num r.2.2.positions.length,
          .arr (r.2.2.positions.map (fun (n : Nat) => J.num (Int.ofNat n)))]))

def handle (req : J) : J :=
  match req with
  | .arr (.str "tokv" :: t :: _) =>
    (match t.getStr with
     | some text => (match tokenizeValueLiteral text with
        | .ok ws => okJ (.arr (ws.map Word.toJ))
        | .error e => tokErrJ e)
     | none => .str "bad-request")
  | .arr (.str "quote" :: .str q :: t :: _) =>
    (match Quote.ofTag q, t.getStr with
     | some q, some text => okJ (J.text (quoteStr q text))
     | _, _ => .str "bad-request")
  | .arr (.str "parse" :: t :: _) =>
    (match t.getStr with
     | some text => resJ Obj.toJ (parse text)
     | none => .str "bad-request")
  | .arr [.str "show", t, level, width, expert, pfx] =>
    (match t.getStr, level.getInt, width.getOptInt, expert.getOptInt, pfx.getStr with
     | some text, some level, some width, some expert, some pfx =>
       (match parse text with
        | .error e => .arr [.str "parse-failed", e.toJ]
        | .ok root => resJ J.text (asStr { expert := expert, level := level, width := width.getD 79 } root pfx))
     | _, _, _, _, _ => .str "bad-request")
  | .arr [.str "from_words", ty, opt, ws, env] =>
    (match convOfJ ty, AttrVal.ofJ opt, wordsOfJ ws, evalEnvOfJ env with
     | some (.ok c), some opt, some ws, some env => resJ PVal.toJ (fromWords c env opt ws)
     | some (.error e), _, _, _ => .arr [.str "type-failed", e.toJ]
     | _, _, _, _ => .str "bad-request")
  | .arr [.str "as_words", ty, opt, mws, v, fmt] =>
    (match convOfJ ty, AttrVal.ofJ opt, wordsOfJ mws, PVal.ofJ v, fmtEnvOfJ fmt with
     | some (.ok c), some opt, some mws, some v, some fmt =>
       resJ (fun ws => J.arr (ws.map Word.toJ)) (asWords c fmt opt mws v)
     | some (.error e), _, _, _, _ => .arr [.str "type-failed", e.toJ]
     | _, _, _, _, _ => .str "bad-request")
  | .arr [.str "choice_fetch", mws, opt, src, ign] =>
    (match wordsOfJ mws, AttrVal.ofJ opt, wordsOfJ src, ign.getBool with
     | some mws, some opt, some src, some ign =>
       resJ (fun ws => J.arr (ws.map Word.toJ)) (choiceFetch mws opt src ign)
     | _, _, _, _ => .str "bad-request")
  | .arr [.str "process_arg", mt, home, arg] =>
    (match mt.getStr, (match home with | .null => some none | h => h.getStr.map some), arg.getStr with
     | some mt, some home, some arg =>
       (match parseObjs mt with
        | .error e => .arr [.str "parse-failed", e.toJ]
        | .ok mobjs =>
          let entries := targetEntriesA mobjs (expertLevels mobjs) (expertAutos mobjs)
          (match processArgA home (entries.map (·.1)) (entries.map (·.2.1)) (entries.map (·.2.2)) arg with
           | .ok objs => okJ (.arr (objs.map Obj.toJ))
           | .sorry_ kind paths => .arr [.str "err", .str "sorry", .str kind, .arr (paths.map J.text)]
           | .runtime e => e.toJ))
     | _, _, _ => .str "bad-request")
  | .arr [.str "path_score", home, src, tgt] =>
    (match (match home with | .null => some none | h => h.getStr.map some), src.getStr, tgt.getStr with
     | some home, some src, some tgt => okJ (.num (getPathScore home src tgt))
     | _, _, _ => .str "bad-request")
  | .arr [.str "resolve", t, envj, diff] =>
    (match t.getStr, envj.getArr, diff.getBool with
     | some text, some envl, some diff =>
       let tbl : List (Str × Str) := envl.filterMap (fun e => match e with
         | .arr [k, v] => (match k.getStr, v.getStr with | some k, some v => some (k, v) | _, _ => none)
         | _ => none)
       let env : Env := fun n => (tbl.find? (·.1 == n)).map (·.2)
       (match parseObjs text with
        | .error e => .arr [.str "parse-failed", e.toJ]
        | .ok root =>
          okJ (.arr ((defPaths root []).map fun p =>
            resJ (fun ws => J.arr (ws.map Word.toJ)) (resolveAt env root p diff))))
     | _, _, _ => .str "bad-request")
  | .arr (.str "expand" :: fsj :: root :: rest) =>
    (match fsj.getArr, root.getStr with
     | some l, some root =>
       let pairs (l : List J) : List (Str × Str) := l.filterMap (fun e => match e with
         | .arr [k, v] => (match k.getStr, v.getStr with
            | some k, some v => some (k, v) | _, _ => none)
         | _ => none)
       let fs : FS := (pairs l).map (fun (k, v) => (resolvePath [] k, v))
       -- optional: [[import path, scope text]…], current directory
       let imports : List (Str × Str) := match rest with
         | ij :: _ => (match ij.getArr with | some il => pairs il | none => [])
         | [] => []
       let cwd : Path := match rest with
         | _ :: cj :: _ => (match cj.getStr with | some c => resolvePath [] c | none => [])
         | _ => []
       resJ (fun os => J.arr (os.map Obj.toJ)) (expand { fs := fs, imports := imports, cwd := cwd } (resolvePath [] root))
     | _, _ => .str "bad-request")
  -- parents and ids after include processing (Phil.IncludeParents): for every object, document order,
  -- [full_path(), primary_id, number of scopes reached by climbing primary_parent_scope,
  --  [for every name of the tree: what parent.lexical_get(name, stop_id=primary_id) finds]]
  | .arr (.str "expandp" :: fsj :: root :: rest) =>
    (match fsj.getArr, root.getStr with
     | some l, some root =>
       let pairs (l : List J) : List (Str × Str) := l.filterMap (fun e => match e with
         | .arr [k, v] => (match k.getStr, v.getStr with
            | some k, some v => some (k, v) | _, _ => none)
         | _ => none)
       let fs : FS := (pairs l).map (fun (k, v) => (resolvePath [] k, v))
       let imports : List (Str × Str) := match rest with
         | ij :: _ => (match ij.getArr with | some il => pairs il | none => [])
         | [] => []
       let cwd : Path := match rest with
         | _ :: cj :: _ => (match cj.getStr with | some c => resolvePath [] c | none => [])
         | _ => []
       resJ (fun os =>
          let nodes := nodesP os
          let names := (nodes.map PObj.name).eraseDups
          J.arr (nodes.map fun o =>
            J.arr [J.text (fullPathP o), J.optNat o.meta.id, .num o.par.length,
              .arr (names.map fun n => match lexicalGetP o n with
                | none => .null
                | some (f, _) => .arr [J.text f.name, J.optNat f.meta.id, .bool f.isDefn])]))
         (expandP { fs := fs, imports := imports, cwd := cwd } (resolvePath [] root))
     | _, _ => .str "bad-request")
  | .arr (.str "fetch" :: mt :: srcs :: diff :: ej :: fj :: rest) =>
    (match mt.getStr, srcs.getArr, diff.getBool, envsOfJ ej fj with
     | some mt, some srcs, some diff, some envs =>
       let env : Env := match rest with | e :: _ => envOfJ e | [] => fun _ => none
       (match (parseObjs mt).map (preResolve env diff), parseSources (srcs.filterMap J.getStr) env diff with
        | .error e, _ => .arr [.str "parse-failed", e.toJ]
        | _, .error e => .arr [.str "parse-failed", e.toJ]
        | .ok m, .ok ss =>
          (match fetchRoot envs diff m ss with
           | .error e => e.toJ
           | .ok (r, used) =>
             let unused := (allDefinitions ss.flatten).filter (fun (d : Str × Meta × List Word) =>
               match d.2.1.id with | some i => !used.contains i | none => true)
             let ex : J := if diff then .null else resJ PVal.toJ (extractObj envs 1000 r)
             okJ (.arr [r.toJ, .arr (unused.map fun d => .arr [J.text d.1, J.optNat d.2.1.line]), ex])))
     | _, _, _, _ => .str "bad-request")
  | .arr [.str "extract", mt, ej, fj] =>
    (match mt.getStr, envsOfJ ej fj with
     | some mt, some envs =>
       (match parse mt with
        | .error e => .arr [.str "parse-failed", e.toJ]
        | .ok root => resJ PVal.toJ (extractObj envs 1000 root))
     | _, _ => .str "bad-request")
  | .arr [.str "format", mt, vj, ej, fj] =>
    (match mt.getStr, PVal.ofJ vj, envsOfJ ej fj with
     | some mt, some v, some envs =>
       (match parse mt with
        | .error e => .arr [.str "parse-failed", e.toJ]
        | .ok root => resJ Obj.toJ (formatObj envs 1000 root v))
     | _, _, _ => .str "bad-request")
  | .arr [.str "index", mt, opsj, ej, fj] =>
    (match mt.getStr, opsj.getArr, envsOfJ ej fj with
     | some mt, some opsj, some envs =>
       (match parseObjs mt with
        | .error e => .arr [.str "parse-failed", e.toJ]
        | .ok m =>
          (match fetchRoot envs false m [] with
           | .error e => e.toJ
           | .ok (w0, _) =>
             let ctx : IndexCtx := { envs := envs, master := m, multiple := multiplePaths 1000 [] w0.children }
             let k := concreteKernelScoped ctx
             let s0 := iinit k w0.children
             let obs (si : IState) (g : Option PVal) : J :=
               let s := si.base
               .arr [(match showObj {} (rootOf s.working) [] [] with | .ok ls => J.text (unlines ls) | .error e => e.toJ),
                     .bool s.params.isSome, .bool s.dirty, .num s.states.length,
                     (match g with | some v => .arr [.str "got", v.toJ] | none => .null),
                     pathIndexJ si.pathIndex]
             let (_, outs) := opsj.foldl (fun (acc : IState × List J) oj =>
               match opOfJ oj with
               | none => (acc.1, acc.2 ++ [.str "bad-op"])
               | some op =>
                 let (s', g) := istep k acc.1 op
                 (s', acc.2 ++ [obs s' g])) (s0, [obs s0 none])
             okJ (.arr outs)))
     | _, _, _ => .str "bad-request")
  | .arr [.str "node_paths", mt, srcs, ej, fj] =>
    (match mt.getStr, srcs.getArr, envsOfJ ej fj with
     | some mt, some srcs, some envs =>
       (match parseObjs mt, parseSources (srcs.filterMap J.getStr) with
        | .error e, _ => .arr [.str "parse-failed", e.toJ]
        | _, .error e => .arr [.str "parse-failed", e.toJ]
        | .ok m, .ok ss =>
          (match fetchRoot envs false m ss with
           | .error e => e.toJ
           | .ok (r, _) =>
             (match extractObj envs 1000 r with
              | .error e => e.toJ
              | .ok v => okJ (.arr ((nodePaths 1000 [some []] v).map J.text)))))
     | _, _, _ => .str "bad-request")
  | .arr [.str "heap_op", .arr g, .str op, .num x, nmj, objsj] =>
    (match heapOfJ g with
     | none => .str "bad-request"
     | some h =>
       let x := x.toNat
       let name : Option Str := nmj.getStr
       let objs : Option (List Nat) := match objsj with
         | .arr ks => (ks.mapM J.getInt).map (fun l => l.map Int.toNat)
         | _ => none
       let r : Option (Heap.Heap × Nat) :=
         if op == "copy" then Heap.copy h x
         else if op == "deepcopy" then (Heap.deepcopy h x).map (fun c => (c.heap, c.result))
         else if op == "ccopy" then Heap.customizedCopy h x name none objs
         else none
       match r with
       | some (h', y) => okJ (.arr [graphJ h', .num (Int.ofNat y)])
       | none => .arr [.str "unsupported", .str "heap_op"])
  | .arr [.str "heap_fetch", mt, srcs, ej, fj] =>
    (match mt.getStr, srcs.getArr, envsOfJ ej fj with
     | some mt, some srcs, some envs =>
       (match (parseObjs mt).map (preResolve (fun _ => none) false), parseSources (srcs.filterMap J.getStr) with
        | .error e, _ => .arr [.str "parse-failed", e.toJ]
        | _, .error e => .arr [.str "parse-failed", e.toJ]
        | .ok m, .ok ss =>
          let hr := Heap.fetchRootH envs m ss
          (match hr.2 with
           | .error e => e.toJ
           | .ok (s', r) =>
             (match canonFetchGraph hr.1.length s'.heap r with
              | none => .arr [.str "unsupported", .str "heap_fetch graph"]
              | some (g, r') =>
                let marks := ((List.range hr.1.length).filter (fun i => s'.tmp.contains i)).map (fun (n : Nat) => J.num (Int.ofNat n))
                let newMarks := (s'.tmp.filter (fun i => decide (hr.1.length ≤ i))).length
                okJ (.arr [gnodesJ g, .num (Int.ofNat r'), .arr marks, .num (Int.ofNat newMarks), .num (Int.ofNat hr.1.length)]))))
     | _, _, _ => .str "bad-request")
  | .arr [.str "heap_fetch_diff", mt, srcs, ej, fj] =>
    (match mt.getStr, srcs.getArr, envsOfJ ej fj with
     | some mt, some srcs, some envs =>
       (match (parseObjs mt).map (preResolve (fun _ => none) false), parseSources (srcs.filterMap J.getStr) with
        | .error e, _ => .arr [.str "parse-failed", e.toJ]
        | _, .error e => .arr [.str "parse-failed", e.toJ]
        | .ok m, .ok ss =>
          let hr := Heap.fetchDiffRootH envs m ss
          (match hr.2 with
           | .error e => e.toJ
           | .ok (s', r) =>
             (match canonFetchGraph hr.1.length s'.heap r with
              | none => .arr [.str "unsupported", .str "heap_fetch_diff graph"]
              | some (g, r') =>
                let marks := ((List.range hr.1.length).filter (fun i => s'.tmp.contains i)).map (fun (n : Nat) => J.num (Int.ofNat n))
                let newMarks := (s'.tmp.filter (fun i => decide (hr.1.length ≤ i))).length
                okJ (.arr [gnodesJ g, .num (Int.ofNat r'), .arr marks, .num (Int.ofNat newMarks), .num (Int.ofNat hr.1.length)]))))
     | _, _, _ => .str "bad-request")
  | .arr [.str "heap_format", mt, srcs, ej, fj] =>
    -- `master.format(master.fetch(sources).extract())` on the heap of a fresh parse of the master
    (match mt.getStr, srcs.getArr, envsOfJ ej fj with
     | some mt, some srcs, some envs =>
       (match (parseObjs mt).map (preResolve (fun _ => none) false), parseSources (srcs.filterMap J.getStr) with
        | .error e, _ => .arr [.str "parse-failed", e.toJ]
        | _, .error e => .arr [.str "parse-failed", e.toJ]
        | .ok m, .ok ss =>
          (match fetchRoot envs false m ss with
           | .error e => e.toJ
           | .ok (ro, _) =>
             (match extractObj envs 1000 ro with
              | .error e => e.toJ
              | .ok v =>
                let hr := Heap.formatRootH envs m v
                (match hr.2 with
                 | .error e => e.toJ
                 | .ok (h', r) =>
                   (match canonFetchGraph hr.1.length h' r with
                    | none => .arr [.str "unsupported", .str "heap_format graph"]
                    | some (g, r') =>
                      let tm := ((List.range g.length).filterMap (fun i => h'[if i < hr.1.length then i else i]?)).take hr.1.length
                      okJ (.arr [gnodesJ g, .num (Int.ofNat r'), .num (Int.ofNat hr.1.length),
                                 .arr (tm.map (fun (n : Heap.Node) => J.num n.meta.tmpl))]))))))
     | _, _, _ => .str "bad-request")
  | .arr [.str "isspace_table"] =>
    okJ (.arr (((List.range 0x110000).filter (fun (n : Nat) => (decide (n < 0xD800) || decide (n > 0xDFFF)) && isSpace (Char.ofNat n))).map (fun (n : Nat) => J.num (Int.ofNat n))))
  | _ => .str "bad-op"

partial def loop (h : IO.FS.Stream) (out : IO.FS.Stream) : IO Unit := do
  let line ← h.getLine
  if line.isEmpty then return ()
  let ans := match readJ line.toList with
    | some (j, _) => handle j
    | none => J.str "bad-json"
  out.putStrLn ans.render
  loop h out

def main : IO Unit := do
  let out ← IO.getStdout
  loop (← IO.getStdin) out
  out.flush
