/-
  drv — line-protocol driver: one JSON request per line on stdin, one JSON answer per line on stdout.
  Trusted base of the correspondence check (not part of the model).
-/
import Phil
open Phil

def tokErrJ : TokErr → J
  | .missingClosingQuote l => (Err.runtime "missing_closing_quote" (some l)).toJ

def handle (req : J) : J :=
  match req with
  | .arr (.str "tokv" :: t :: _) =>
    (match t.getStr with
     | some text => (match tokenizeValueLiteral text with
        | .ok ws => okJ (.arr (ws.map Word.toJ))
        | .error e => tokErrJ e)
     | none => .str "bad-request")
  | .arr (.str "quote" :: .str q :: t :: _) =>
    (match Quote.ofTag q, t.getStr with
     | some q, some text => okJ (J.text (quoteStr q text))
     | _, _ => .str "bad-request")
  | .arr (.str "parse" :: t :: _) =>
    (match t.getStr with
     | some text => resJ Obj.toJ (parse text)
     | none => .str "bad-request")
  | .arr [.str "show", t, level, width, expert, pfx] =>
    (match t.getStr, level.getInt, width.getOptInt, expert.getOptInt, pfx.getStr with
     | some text, some level, some width, some expert, some pfx =>
       (match parse text with
        | .error e => .arr [.str "parse-failed", e.toJ]
        | .ok root => resJ J.text (asStr { expert := expert, level := level, width := width.getD 79 } root pfx))
     | _, _, _, _, _ => .str "bad-request")
  | _ => .str "bad-op"

partial def loop (h : IO.FS.Stream) (out : IO.FS.Stream) : IO Unit := do
  let line ← h.getLine
  if line.isEmpty then return ()
  let ans := match readJ line.toList with
    | some (j, _) => handle j
    | none => J.str "bad-json"
  out.putStrLn ans.render
  loop h out

def main : IO Unit := do
  let out ← IO.getStdout
  loop (← IO.getStdin) out
  out.flush
