"""Regenerates MANIFEST.json checks from harness/props/*.py metadata (LEVEL, LEVEL_TEXT, LEVEL_NOTE, TECHNIQUE, DESIGN_REF)."""
import importlib, json, os, sys
HERE = os.path.dirname(os.path.abspath(__file__)); VERIF = os.path.dirname(HERE)
sys.path.insert(0, HERE)
props = [json.loads(l)["id"] for l in open(os.path.join(VERIF, "properties.jsonl"))]
m = json.load(open(os.path.join(VERIF, "MANIFEST.json")))
checks, na, served = [], [], []
for p in props:
    path = os.path.join(HERE, "props", p + ".py")
    if not os.path.exists(path):
        na.append({"property_id": p, "reason": "check not built yet (model module under construction); no claim is made"})
        continue
    src = open(path).read()
    ns = {}
    # metadata is plain top-level string constants; read them without importing freephil
    import ast
    for node in ast.parse(src).body:
        if isinstance(node, ast.Assign) and len(node.targets) == 1 and isinstance(node.targets[0], ast.Name):
            try:
                ns[node.targets[0].id] = ast.literal_eval(node.value)
            except Exception:
                pass
    served.append(p)
    checks.append({
        "property_id": p,
        "quick_cmd": "./check %s --tier quick" % p,
        "thorough_cmd": "./check %s --tier thorough" % p,
        "evidence_file": "evidence/%s.json" % p,
        "replay_cmd_template": "./check %s --replay {path}" % p,
        "engine": "lean-model + correspondence-harness",
        "level_claimed": {"category": ns.get("LEVEL", "proof"), "text": ns.get("LEVEL_TEXT", ""), "design_ref": ns.get("DESIGN_REF", "DESIGN.md §5 " + p)},
        "level_note": ns.get("LEVEL_NOTE", ""),
        "technique": ns.get("TECHNIQUE", "Lean 4 theorems about a hand-written model + differential correspondence check"),
    })
m["checks"] = checks
m["not_applicable"] = na
for e in m["engines"]:
    e["serves_properties"] = served
json.dump(m, open(os.path.join(VERIF, "MANIFEST.json"), "w"), indent=1)
print("claimed:", served)
