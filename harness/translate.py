"""Python→Lean translator for the pure leaf functions of freephil (DESIGN §1 "translated leaf functions").

Re-reads, with `ast`, the functions listed in TARGETS from $VERIF_REPO/src/freephil and regenerates
lean/Phil/Generated/Translated.lean: one Lean 4 definition per function, over the hand-written semantics
of the subset in lean/Phil/Generated/PyPrelude.lean.  lean/Phil/Props/Translated.lean proves each generated
definition equal to the hand-written model function the property theorems are about, so a changed source
changes the generated definition and the equality proof is re-checked against what the code says now.

Subset (anything else is REFUSED, per function, with a message; the committed block of that function is kept):
  statements  : docstring, `x = e`, `return e`, `if/elif/else` (early returns, fall-through), `if X is [not] None`
                on an Optional parameter, `for v in e: if t: return k` (k not using v; → `List.any`)
  expressions : str/int/bool constants, names, `self.attr` parameters, and/or/not, one-operator comparisons
                (== != < <= > >=, `in`/`not in` on strings, char sets, literal lists of strings, `is [not] None`),
                `+` on strings/ints, `-` on ints, `len`, `s[k]`, `s[k:]`, `s[:k]`, `.startswith .endswith .find
                .replace .lower`, `.split("c")`, word attributes `.value .quote_token`, conditional expressions,
                calls of other translated functions and direct self-recursion (bounded by `Py.fuel`).
Python has no types: the parameter / result types of each target are given in TARGETS.
"""
import ast
import os
import re

HERE = os.path.dirname(os.path.abspath(__file__))
VERIF = os.path.dirname(HERE)


def _out():
    return os.path.join(os.environ.get("VERIF_LEAN") or os.path.join(VERIF, "lean"), "Phil", "Generated", "Translated.lean")


def _src(name):
    repo = os.environ.get("VERIF_REPO", "/repo")
    return open(os.path.join(repo, "src", "freephil", name)).read()


class Refuse(Exception):
    pass


# types: str int bool strs (list of str) optstr chars (module-level set of characters) words word optquote
LEAN_TY = {"str": "Str", "int": "Int", "bool": "Bool", "strs": "List Str", "optstr": "Option Str",
           "words": "List Word", "word": "Word", "optquote": "Option Quote"}
DEFAULT = {"str": "[]", "int": "0", "bool": "false", "strs": "[]"}

# file, class (or None), function, parameters in Lean order (python name, type), result type
TARGETS = [
    dict(file="command_line.py", cls="argument_interpreter", func="get_path_score",
         params=[("self.home_scope", "optstr"), ("source_path", "str"), ("target_path", "str")], ret="int"),
    dict(file="tokens.py", cls=None, func="is_standard_identifier", params=[("string", "str")], ret="bool"),
    dict(file="common.py", cls=None, func="is_reserved_identifier", params=[("string", "str")], ret="bool"),
    dict(file="tokenizer.py", cls=None, func="escape_python_str", params=[("quote_char", "str"), ("string", "str")], ret="str"),
    dict(file="tokenizer.py", cls=None, func="quote_python_str", params=[("quote_token", "str"), ("string", "str")], ret="str"),
    dict(file="tokens.py", cls=None, func="is_plain_none", params=[("words", "words")], ret="bool"),
    dict(file="tokens.py", cls=None, func="is_plain_auto", params=[("words", "words")], ret="bool"),
]

LEAN_KEYWORDS = {"at", "from", "fun", "end", "in", "then", "else", "do", "let", "have", "show", "match", "with",
                 "if", "open", "def", "theorem", "where", "by", "instance", "structure", "class", "namespace",
                 "section", "variable", "universe", "import", "export", "mutual", "type", "Type", "Prop", "Sort"}


def lname(py):
    n = py.replace("self.", "")
    return n + "_" if n in LEAN_KEYWORDS else n


def chr_lit(c):
    o = ord(c)
    if c == "'":
        return "'\\''"
    if c == "\\":
        return "'\\\\'"
    if 32 <= o < 127:
        return "'%s'" % c
    return "(Char.ofNat %d)" % o


def str_lit(s):
    return "[" + ", ".join(chr_lit(c) for c in s) + "]" if s else "([] : Str)"


def find_func(tree, cls, name):
    scope = tree.body
    if cls is not None:
        for node in tree.body:
            if isinstance(node, ast.ClassDef) and node.name == cls:
                scope = node.body
                break
        else:
            raise Refuse("class %s not found" % cls)
    for node in scope:
        if isinstance(node, ast.FunctionDef) and node.name == name:
            return node
    raise Refuse("function %s not found" % name)


def char_sets(tree):
    """module-level sets of characters built as `X = set()` / `X = set(Y)` followed by `for c in "lit": X.add(c)`;
    returns name → string of the members in insertion order"""
    sets = {}
    for node in tree.body:
        if isinstance(node, ast.Assign) and len(node.targets) == 1 and isinstance(node.targets[0], ast.Name):
            v = node.value
            if isinstance(v, ast.Call) and isinstance(v.func, ast.Name) and v.func.id == "set" and not v.keywords:
                if not v.args:
                    sets[node.targets[0].id] = ""
                elif len(v.args) == 1 and isinstance(v.args[0], ast.Name) and v.args[0].id in sets:
                    sets[node.targets[0].id] = sets[v.args[0].id]
                elif len(v.args) == 1 and isinstance(v.args[0], ast.Constant) and isinstance(v.args[0].value, str):
                    sets[node.targets[0].id] = "".join(dict.fromkeys(v.args[0].value))
                else:
                    sets.pop(node.targets[0].id, None)
            else:
                sets.pop(node.targets[0].id, None)
        elif (isinstance(node, ast.For) and isinstance(node.target, ast.Name) and isinstance(node.iter, ast.Constant)
              and isinstance(node.iter.value, str) and len(node.body) == 1 and not node.orelse):
            st = node.body[0]
            if (isinstance(st, ast.Expr) and isinstance(st.value, ast.Call) and isinstance(st.value.func, ast.Attribute)
                    and st.value.func.attr == "add" and isinstance(st.value.func.value, ast.Name)
                    and st.value.func.value.id in sets and len(st.value.args) == 1
                    and isinstance(st.value.args[0], ast.Name) and st.value.args[0].id == node.target.id):
                name = st.value.func.value.id
                sets[name] = "".join(dict.fromkeys(sets[name] + node.iter.value))
    return sets


class Fn:
    """translation of one function"""

    def __init__(self, target, node, sets, known):
        self.t = target
        self.node = node
        self.sets = sets            # module-level char sets visible to the function
        self.known = known          # name → target of translatable functions (for calls)
        self.used_sets = []
        self.recursive = any(isinstance(n, ast.Call) and isinstance(n.func, ast.Name) and n.func.id == target["func"]
                             for n in ast.walk(node))

    def refuse(self, node, why):
        raise Refuse("%s line %d: %s" % (self.t["func"], getattr(node, "lineno", 0), why))

    # ---------- expressions: return (lean text, type)
    def E(self, e, env):
        if isinstance(e, ast.Constant):
            v = e.value
            if isinstance(v, bool):
                return ("true" if v else "false"), "bool"
            if isinstance(v, int):
                return "(%d : Int)" % v, "int"
            if isinstance(v, str):
                return str_lit(v), "str"
            self.refuse(e, "constant %r" % (v,))
        if isinstance(e, ast.Name):
            if e.id in env:
                return env[e.id]
            if e.id in self.sets:
                if e.id not in self.used_sets:
                    self.used_sets.append(e.id)
                return e.id, "chars"
            self.refuse(e, "unknown name %s" % e.id)
        if isinstance(e, ast.Attribute):
            if isinstance(e.value, ast.Name) and e.value.id == "self":
                key = "self." + e.attr
                if key in env:
                    return env[key]
                self.refuse(e, "attribute %s is not a declared parameter" % key)
            v, ty = self.E(e.value, env)
            if ty == "word" and e.attr == "value":
                return "%s.value" % v, "str"
            if ty == "word" and e.attr == "quote_token":
                return "%s.quote" % v, "optquote"
            self.refuse(e, "attribute .%s of %s" % (e.attr, ty))
        if isinstance(e, ast.UnaryOp):
            if isinstance(e.op, ast.Not):
                return "(!%s)" % self.B(e.operand, env), "bool"
            if isinstance(e.op, ast.USub):
                v, ty = self.E(e.operand, env)
                if ty == "int":
                    return "(-%s)" % v, "int"
            self.refuse(e, "unary operator")
        if isinstance(e, ast.BoolOp):
            op = " && " if isinstance(e.op, ast.And) else " || "
            return "(" + op.join(self.B(v, env) for v in e.values) + ")", "bool"
        if isinstance(e, ast.BinOp):
            a, ta = self.E(e.left, env)
            b, tb = self.E(e.right, env)
            if isinstance(e.op, ast.Add) and ta == tb == "str":
                return "(%s ++ %s)" % (a, b), "str"
            if isinstance(e.op, ast.Add) and ta == tb == "int":
                return "(%s + %s)" % (a, b), "int"
            if isinstance(e.op, ast.Sub) and ta == tb == "int":
                return "(%s - %s)" % (a, b), "int"
            self.refuse(e, "binary operator %s on %s, %s" % (type(e.op).__name__, ta, tb))
        if isinstance(e, ast.Compare):
            if len(e.ops) != 1:
                self.refuse(e, "chained comparison")
            op, rhs = e.ops[0], e.comparators[0]
            if isinstance(op, (ast.Is, ast.IsNot)):
                if not (isinstance(rhs, ast.Constant) and rhs.value is None):
                    self.refuse(e, "`is` with something other than None")
                a, ta = self.E(e.left, env)
                if ta not in ("optstr", "optquote"):
                    self.refuse(e, "`is None` on a value of type %s" % ta)
                return "%s.%s" % (a, "isNone" if isinstance(op, ast.Is) else "isSome"), "bool"
            if isinstance(op, (ast.In, ast.NotIn)):
                a, ta = self.E(e.left, env)
                if ta != "str":
                    self.refuse(e, "`in` with a left operand of type %s" % ta)
                if isinstance(rhs, (ast.List, ast.Tuple)) and all(isinstance(x, ast.Constant) and isinstance(x.value, str) for x in rhs.elts):
                    r = "([%s] : List Str).contains %s" % (", ".join(str_lit(x.value) for x in rhs.elts), a)
                else:
                    b, tb = self.E(rhs, env)
                    if tb == "str":
                        r = "Py.contains %s %s" % (b, a)
                    elif tb == "chars":
                        r = "Py.inChars %s %s" % (a, b)
                    elif tb == "strs":
                        r = "%s.contains %s" % (b, a)
                    else:
                        self.refuse(e, "`in` with a right operand of type %s" % tb)
                return ("(%s)" % r if isinstance(op, ast.In) else "(!(%s))" % r), "bool"
            a, ta = self.E(e.left, env)
            b, tb = self.E(rhs, env)
            if ta != tb or ta not in ("str", "int", "bool", "strs"):
                self.refuse(e, "comparison of %s with %s" % (ta, tb))
            if isinstance(op, ast.Eq):
                return "(%s == %s)" % (a, b), "bool"
            if isinstance(op, ast.NotEq):
                return "(%s != %s)" % (a, b), "bool"
            if ta == "int":
                sym = {ast.Lt: "<", ast.LtE: "≤", ast.Gt: ">", ast.GtE: "≥"}.get(type(op))
                if sym:
                    return "decide (%s %s %s)" % (a, sym, b), "bool"
            self.refuse(e, "comparison operator %s on %s" % (type(op).__name__, ta))
        if isinstance(e, ast.IfExp):
            a, ta = self.E(e.body, env)
            b, tb = self.E(e.orelse, env)
            if ta != tb:
                self.refuse(e, "conditional expression with branches of different types")
            return "(if %s then %s else %s)" % (self.B(e.test, env), a, b), ta
        if isinstance(e, ast.Subscript):
            v, ty = self.E(e.value, env)
            sl = e.slice
            if isinstance(sl, ast.Slice):
                if sl.step is not None or ty not in ("str", "strs"):
                    self.refuse(e, "slice with a step / of type %s" % ty)
                if sl.lower is not None and sl.upper is None:
                    k, tk = self.E(sl.lower, env)
                    fn = "Py.sliceFrom"
                elif sl.upper is not None and sl.lower is None:
                    k, tk = self.E(sl.upper, env)
                    fn = "Py.sliceTo"
                else:
                    self.refuse(e, "slice with both or no bounds")
                if tk != "int":
                    self.refuse(e, "slice bound of type %s" % tk)
                return "(%s %s %s)" % (fn, v, k), ty
            k, tk = self.E(sl, env)
            if tk != "int":
                self.refuse(e, "index of type %s" % tk)
            if ty == "str":
                return "(Py.index %s %s)" % (v, k), "str"
            if ty == "words" and isinstance(sl, ast.Constant) and sl.value == 0:
                return "(Py.first %s)" % v, "word"
            self.refuse(e, "index into %s" % ty)
        if isinstance(e, ast.Call):
            return self.call(e, env)
        self.refuse(e, "expression %s" % type(e).__name__)

    def B(self, e, env):
        """expression in a boolean context (truth value of a string allowed)"""
        v, ty = self.E(e, env)
        if ty == "bool":
            return v
        if ty == "str":
            return "(Py.truthy %s)" % v
        self.refuse(e, "truth value of %s" % ty)

    def call(self, e, env):
        f = e.func
        if isinstance(f, ast.Name):
            if f.id == "len" and len(e.args) == 1 and not e.keywords:
                v, ty = self.E(e.args[0], env)
                if ty in ("str", "strs", "words"):
                    return "(Py.len %s)" % v, "int"
                self.refuse(e, "len of %s" % ty)
            if f.id in self.known:
                tgt = self.known[f.id]
                names = [p for p, _ in tgt["params"]]
                if any(p.startswith("self.") for p in names):
                    self.refuse(e, "call of a method")
                given = dict(zip(names, e.args))
                for kw in e.keywords:
                    if kw.arg is None or kw.arg not in names or kw.arg in given:
                        self.refuse(e, "keyword argument %s" % kw.arg)
                    given[kw.arg] = kw.value
                if len(given) != len(names) or len(e.args) > len(names):
                    self.refuse(e, "wrong number of arguments for %s" % f.id)
                args = []
                for p, ty in tgt["params"]:
                    v, tv = self.E(given[p], env)
                    if tv != ty:
                        self.refuse(e, "argument %s of %s has type %s, expected %s" % (p, f.id, tv, ty))
                    args.append(v)
                head = "%s_fuel fuel" % f.id if (f.id == self.t["func"]) else f.id
                return "(%s %s)" % (head, " ".join(args)), tgt["ret"]
            self.refuse(e, "call of %s" % f.id)
        if isinstance(f, ast.Attribute):
            if e.keywords:
                self.refuse(e, "keyword arguments of a method")
            v, ty = self.E(f.value, env)
            if ty != "str":
                self.refuse(e, "method .%s of %s" % (f.attr, ty))
            args = [self.E(a, env) for a in e.args]
            tys = [t for _, t in args]
            if f.attr in ("startswith", "endswith", "find") and tys == ["str"]:
                return "(Py.%s %s %s)" % (f.attr, v, args[0][0]), ("int" if f.attr == "find" else "bool")
            if f.attr == "lower" and not args:
                return "(Py.lower %s)" % v, "str"
            if f.attr == "replace" and tys == ["str", "str"]:
                pat = e.args[0]
                if isinstance(pat, ast.Constant) and isinstance(pat.value, str) and len(pat.value) == 1:
                    return "(Py.replace1 %s %s %s)" % (v, chr_lit(pat.value), args[1][0]), "str"
                return "(Py.replace %s %s %s)" % (v, args[0][0], args[1][0]), "str"
            if f.attr == "split" and len(e.args) == 1:
                sep = e.args[0]
                if isinstance(sep, ast.Constant) and isinstance(sep.value, str) and len(sep.value) == 1:
                    return "(Py.split1 %s %s)" % (v, chr_lit(sep.value)), "strs"
                self.refuse(e, "split with a separator that is not a one-character literal")
            self.refuse(e, "method .%s with %d argument(s)" % (f.attr, len(args)))
        self.refuse(e, "call")

    # ---------- statements: a statement list becomes one expression; what follows an `if` without return is
    # duplicated into both branches (assignments are `let`s, so shadowing gives the right value in each copy)
    def S(self, stmts, env, ind):
        pad = "  " * ind
        if not stmts:
            raise Refuse("%s: a path falls off the end of the function (returns None)" % self.t["func"])
        st, rest = stmts[0], stmts[1:]
        if isinstance(st, ast.Expr) and isinstance(st.value, ast.Constant) and isinstance(st.value.value, str):
            return self.S(rest, env, ind)
        if isinstance(st, ast.Return):
            if st.value is None:
                self.refuse(st, "bare return")
            v, ty = self.E(st.value, env)
            if ty == "str" and self.t["ret"] == "bool":
                self.refuse(st, "returns a string where a bool is declared")
            if ty != self.t["ret"]:
                self.refuse(st, "returns %s, declared %s" % (ty, self.t["ret"]))
            return pad + v
        if isinstance(st, ast.Assign):
            if len(st.targets) != 1 or not isinstance(st.targets[0], ast.Name):
                self.refuse(st, "assignment target")
            name = st.targets[0].id
            v, ty = self.E(st.value, env)
            if ty not in LEAN_TY:
                self.refuse(st, "assignment of a %s" % ty)
            env2 = dict(env)
            env2[name] = (lname(name), ty)
            return "%slet %s : %s := %s\n%s" % (pad, lname(name), LEAN_TY[ty], v, self.S(rest, env2, ind))
        if isinstance(st, ast.If):
            t = st.test
            # `if X is [not] None` on an Optional parameter: match, X is the unwrapped value in the `some` branch
            if (isinstance(t, ast.Compare) and len(t.ops) == 1 and isinstance(t.ops[0], (ast.Is, ast.IsNot))
                    and isinstance(t.comparators[0], ast.Constant) and t.comparators[0].value is None):
                key = None
                if isinstance(t.left, ast.Name):
                    key = t.left.id
                elif isinstance(t.left, ast.Attribute) and isinstance(t.left.value, ast.Name) and t.left.value.id == "self":
                    key = "self." + t.left.attr
                if key in env and env[key][1] == "optstr":
                    some_body, none_body = (st.body, st.orelse) if isinstance(t.ops[0], ast.IsNot) else (st.orelse, st.body)
                    env_some = dict(env)
                    env_some[key] = (lname(key) + "_v", "str")
                    return ("%smatch %s with\n%s| none =>\n%s\n%s| some %s_v =>\n%s" % (
                        pad, env[key][0], pad, self.S(list(none_body) + rest, env, ind + 2),
                        pad, lname(key), self.S(list(some_body) + rest, env_some, ind + 2)))
            c = self.B(t, env)
            return "%sif %s then\n%s\n%selse\n%s" % (pad, c, self.S(list(st.body) + rest, env, ind + 1), pad,
                                                 self.S(list(st.orelse) + rest, env, ind + 1))
        if isinstance(st, ast.For):
            if st.orelse or not isinstance(st.target, ast.Name):
                self.refuse(st, "for/else or a structured loop variable")
            it, ty = self.E(st.iter, env)
            if ty == "str":
                it = "(Py.chars %s)" % it
            elif ty != "strs":
                self.refuse(st, "loop over %s" % ty)
            if not (len(st.body) == 1 and isinstance(st.body[0], ast.If) and not st.body[0].orelse
                    and len(st.body[0].body) == 1 and isinstance(st.body[0].body[0], ast.Return)
                    and st.body[0].body[0].value is not None):
                self.refuse(st, "loop body is not `if test: return value`")
            var = st.target.id
            ret = st.body[0].body[0]
            if any(isinstance(n, ast.Name) and n.id == var for n in ast.walk(ret.value)):
                self.refuse(st, "the value returned from the loop uses the loop variable")
            env2 = dict(env)
            env2[var] = (lname(var), "str")
            c = self.B(st.body[0].test, env2)
            k = self.S([ret], env, ind + 1)
            # after the loop the variable keeps its last value in Python; refuse a later use
            for n in rest:
                if any(isinstance(x, ast.Name) and x.id == var and isinstance(x.ctx, ast.Load) for x in ast.walk(n)):
                    # a later loop may rebind it first; be conservative only when not rebound
                    if not (isinstance(n, ast.For) and isinstance(n.target, ast.Name) and n.target.id == var
                            and not any(isinstance(x, ast.Name) and x.id == var for x in ast.walk(n.iter))):
                        self.refuse(st, "loop variable used after the loop")
            return "%sif %s.any (fun %s => %s) then\n%s\n%selse\n%s" % (pad, it, lname(var), c, k, pad,
                                                                    self.S(rest, env, ind + 1))
        self.refuse(st, "statement %s" % type(st).__name__)

    def render(self):
        t = self.t
        a = self.node.args
        if a.vararg or a.kwarg or a.kwonlyargs or a.defaults or getattr(a, "posonlyargs", []):
            raise Refuse("%s: signature with defaults / varargs" % t["func"])
        pyargs = [x.arg for x in a.args]
        declared = [p for p, _ in t["params"] if not p.startswith("self.")]
        if [x for x in pyargs if x != "self"] != declared and sorted(x for x in pyargs if x != "self") != sorted(declared):
            raise Refuse("%s: parameters %s, expected %s" % (t["func"], pyargs, declared))
        if self.node.decorator_list:
            raise Refuse("%s: decorated" % t["func"])
        env = {p: (lname(p), ty) for p, ty in t["params"]}
        body = self.S(list(self.node.body), env, 2 if self.recursive else 1)
        binders = " ".join("(%s : %s)" % (lname(p), LEAN_TY[ty]) for p, ty in t["params"])
        names = " ".join(lname(p) for p, _ in t["params"])
        where = "%s%s.%s" % (t["file"], ":" + t["cls"] if t["cls"] else "", t["func"])
        sets = [(s, "/-- %s: module-level character set %s -/\ndef %s : List Char := %s\n" % (
            t["file"], s, s, "[" + ", ".join(chr_lit(c) for c in self.sets[s]) + "]")) for s in self.used_sets]
        if not self.recursive:
            return sets, "/-- %s -/\ndef %s %s : %s :=\n%s\n" % (where, t["func"], binders, LEAN_TY[t["ret"]], body)
        firststr = [lname(p) for p, ty in t["params"] if ty == "str"]
        if not firststr or t["ret"] not in DEFAULT:
            raise Refuse("%s: recursive without a string parameter to bound the depth" % t["func"])
        tys = " → ".join(LEAN_TY[ty] for _, ty in t["params"])
        return sets, ("/-- %s, recursion depth bounded by `fuel` -/\ndef %s_fuel : Nat → %s → %s\n  | 0, %s => %s\n  | fuel + 1, %s =>\n%s\n"
                      "/-- %s -/\ndef %s %s : %s := %s_fuel (Py.fuel %s) %s\n" % (
                          where, t["func"], tys, LEAN_TY[t["ret"]], ", ".join("_" for _ in t["params"]), DEFAULT[t["ret"]],
                          ", ".join(lname(p) for p, _ in t["params"]), body,
                          where, t["func"], binders, LEAN_TY[t["ret"]], t["func"], firststr[0], names))


HEADER = """/-
  GENERATED by harness/translate.py from src/freephil — do not edit.
  Lean translations of pure leaf functions, regenerated on every check run; semantics of the Python subset:
  Phil/Generated/PyPrelude.lean; equality with the hand-written model: Phil/Props/Translated.lean.
-/
import Phil.Generated.PyPrelude
namespace Phil.Gen
"""
FOOTER = "\nend Phil.Gen\n"


def blocks_of(text):
    return {m.group(1): m.group(2) for m in re.finditer(r"-- BEGIN (\w+)\n(.*?)-- END \1\n", text or "", re.S)}


def translate(old_text=None):
    """returns (text, notes).  A refused function keeps its committed block (if any) and yields a note."""
    notes = []
    old = blocks_of(old_text)
    known = {t["func"]: t for t in TARGETS}
    trees = {}
    out = [HEADER]
    emitted_sets = set()
    for t in TARGETS:
        name = t["func"]
        try:
            if t["file"] not in trees:
                tree = ast.parse(_src(t["file"]))
                trees[t["file"]] = (tree, char_sets(tree))
            tree, sets = trees[t["file"]]
            fn = Fn(t, find_func(tree, t["cls"], name), sets, known)
            set_defs, text = fn.render()
            block = "".join(d for s, d in set_defs if s not in emitted_sets) + text
            emitted_sets.update(fn.used_sets)
        except (Refuse, SyntaxError, OSError, RecursionError) as e:
            notes.append("%s REFUSED (%s); %s" % (name, e, "committed definition kept" if name in old else "no definition emitted"))
            if name not in old:
                continue
            block = old[name]
        out.append("\n-- BEGIN %s\n%s-- END %s\n" % (name, block, name))
    out.append(FOOTER)
    return "".join(out), notes


def regenerate():
    """called by the runner next to extract_tables.regenerate(); returns a note or None, never raises an alarm"""
    path = _out()
    old = open(path).read() if os.path.exists(path) else None
    text, notes = translate(old)
    if old != text:
        os.makedirs(os.path.dirname(path), exist_ok=True)
        with open(path, "w") as f:
            f.write(text)
        changed = [k for k, v in blocks_of(text).items() if blocks_of(old).get(k) != v]
        notes.insert(0, "translated definitions changed and were regenerated from the source: %s" % ", ".join(changed))
    return "; ".join(notes) if notes else None


if __name__ == "__main__":
    import sys
    if "--print" in sys.argv:
        text, notes = translate(open(_out()).read() if os.path.exists(_out()) else None)
        sys.stdout.write(text)
        for n in notes:
            sys.stderr.write("note: %s\n" % n)
    else:
        print(regenerate() or "unchanged")
