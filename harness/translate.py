"""Python→Lean translator for the pure leaf functions of freephil (DESIGN §1 "translated leaf functions").

Re-reads, with `ast`, the functions listed in TARGETS from $VERIF_REPO/src/freephil and regenerates
lean/Phil/Generated/Translated.lean: one Lean 4 definition per function, over the hand-written semantics
of the subset in lean/Phil/Generated/PyPrelude.lean.  lean/Phil/Props/Translated.lean proves each generated
definition equal to the hand-written model function the property theorems are about, so a changed source
changes the generated definition and the equality proof is re-checked against what the code says now.

Subset (anything else is REFUSED, per function, with a message; the committed block of that function is kept):
  statements  : docstring, `x = e`, `return e`, `if/elif/else` (early returns, fall-through), `if X is [not] None`
                on an Optional parameter, `for v in e: if t: return k` (k not using v; → `List.any`)
  expressions : str/int/bool constants, names, `self.attr` parameters, and/or/not, one-operator comparisons
                (== != < <= > >=, `in`/`not in` on strings, char sets, literal lists of strings, `is [not] None`),
                `+` on strings/ints, `-` on ints, `len`, `s[k]`, `s[k:]`, `s[:k]`, `.startswith .endswith .find
                .replace .lower`, `.split("c")`, word attributes `.value .quote_token`, conditional expressions,
                calls of other translated functions and direct self-recursion (bounded by `Py.fuel`).
Third batch (Phil/Props/Translated3.lean): kind="chain" — a function that climbs `primary_parent_scope` with
`while X is not None:` (guards `if t: break`, one `L.append(e)`, `X = X.primary_parent_scope`), `L = [e]`, `L.reverse()`,
`"sep".join(L)`: the chain is a parameter (names of the ancestors, innermost first) and the loop a structural recursion;
kind="expr" — ONE expression of a big function (the test of the k-th `if`, the right side of the k-th assignment to a
name) as a pure function of its free variables, which must all be declared parameters (types additionally: "attr" an
attribute value, `None`-able ints, `str * int`).
Python has no types: the parameter / result types of each target are given in TARGETS.
"""
import ast
import os
import re

HERE = os.path.dirname(os.path.abspath(__file__))
VERIF = os.path.dirname(HERE)


def _out():
    return os.path.join(os.environ.get("VERIF_LEAN") or os.path.join(VERIF, "lean"), "Phil", "Generated", "Translated.lean")


def _src(name):
    repo = os.environ.get("VERIF_REPO", "/repo")
    return open(os.path.join(repo, "src", "freephil", name)).read()


class Refuse(Exception):
    pass


# types: str int bool strs (list of str) optstr chars (module-level set of characters) words word optquote
LEAN_TY = {"rval": "R PVal", "str": "Str", "int": "Int", "bool": "Bool", "strs": "List Str", "optstr": "Option Str",
           "words": "List Word", "word": "Word", "optquote": "Option Quote"}
LEAN_TY.update({"val": "PVal", "optnum": "Option PNum", "optint": "Option Int", "optwords": "Option (List Word)",
                "vals": "List PVal", "unit": "Unit", "fn:words->val": "(List Word → R PVal)",
                "fn:val,words->val": "(PVal → List Word → R PVal)"})
LEAN_TY.update({"attr": "AttrVal", "chain": "List Str"})
DEFAULT = {"str": "[]", "int": "0", "bool": "false", "strs": "[]"}

# file, class (or None), function, parameters in Lean order (python name, type), result type
TARGETS = [
    dict(file="command_line.py", cls="argument_interpreter", func="get_path_score",
         params=[("self.home_scope", "optstr"), ("source_path", "str"), ("target_path", "str")], ret="int"),
    dict(file="tokens.py", cls=None, func="is_standard_identifier", params=[("string", "str")], ret="bool"),
    dict(file="common.py", cls=None, func="is_reserved_identifier", params=[("string", "str")], ret="bool"),
    dict(file="tokenizer.py", cls=None, func="escape_python_str", params=[("quote_char", "str"), ("string", "str")], ret="str"),
    dict(file="tokenizer.py", cls=None, func="quote_python_str", params=[("quote_token", "str"), ("string", "str")], ret="str"),
    dict(file="tokens.py", cls=None, func="is_plain_none", params=[("words", "words")], ret="bool"),
    dict(file="tokens.py", cls=None, func="is_plain_auto", params=[("words", "words")], ret="bool"),
    # --- the converters' decision logic (monadic targets: may raise; result `R ret`); parameters of type "path"
    # (path, master, path_producer: used in messages only) are dropped
    dict(file="converters.py", cls=None, func="bool_from_words", monadic=True,
         params=[("words", "words"), ("path", "path")], ret="val"),
    dict(file="converters.py", cls="_check_value_base", func="_check_value", monadic=True,
         params=[("self.value_min", "optnum"), ("self.value_max", "optnum"), ("value", "val"),
                 ("path_producer", "path"), ("words", "optwords")], ret="unit"),
    dict(file="converters.py", cls="numbers_converters_base", func="_check_size", monadic=True,
         params=[("self.size_min", "optint"), ("self.size_max", "optint"), ("size", "int"),
                 ("path_producer", "path"), ("words", "optwords")], ret="unit"),
    dict(file="converters.py", cls=None, func="int_from_number", monadic=True,
         params=[("number", "val"), ("words", "words"), ("path", "path")], ret="val"),
    dict(file="converters.py", cls=None, func="float_from_number", monadic=True,
         params=[("number", "val"), ("words", "words"), ("path", "path")], ret="val"),
    dict(file="converters.py", cls=None, func="number_from_value_string", monadic=True, lean="number_from_value_string",
         tail_at_try="eval_tail",
         params=[("eval_tail", "rval"), ("value_string", "val"), ("words", "words"), ("path", "path")], ret="val"),
    dict(file="converters.py", cls="number_converters_base", func="from_words", monadic=True, lean="number_from_words_gate",
         params=[("self.value_min", "optnum"), ("self.value_max", "optnum"), ("self.allow_none", "bool"),
                 ("self._value_from_words", "fn:words->val"), ("words", "words"), ("master", "path")], ret="val"),
    dict(file="converters.py", cls="numbers_converters_base", func="from_words", monadic=True, lean="numbers_from_words_gate",
         params=[("self.size_min", "optint"), ("self.size_max", "optint"), ("self.value_min", "optnum"),
                 ("self.value_max", "optnum"), ("self.allow_none_elements", "bool"), ("self.allow_auto_elements", "bool"),
                 ("self._value_from_number", "fn:val,words->val"), ("numbers_from_words", "fn:words->val"),
                 ("words", "words"), ("master", "path")], ret="val"),
    # --- third batch.  kind="chain": a function that climbs `primary_parent_scope`; the parent chain is a parameter
    # (the names of the ancestors, innermost first; `None` = end of the list)
    dict(file="common.py", cls=None, func="full_path", kind="chain",
         params=[("self.name", "str"), ("self.primary_parent_scope", "chain")], ret="str"),
    # kind="expr": ONE expression of a big function as a function of its free variables; pick=("if", k): the test of
    # the k-th `if`/`elif` of the function in source order; pick=("assign", x, k): the right side of the k-th `x = ...`
    dict(file="common.py", cls=None, func="show_attributes", kind="expr", pick=("if", 0), lean="attr_level_off",
         params=[("attributes_level", "int")], ret="bool"),
    dict(file="common.py", cls=None, func="show_attributes", kind="expr", pick=("if", 1), lean="attr_skip_deprecated",
         params=[("name", "str"), ("value", "attr")], ret="bool"),
    dict(file="common.py", cls=None, func="show_attributes", kind="expr", pick=("if", 2), lean="attr_level_gate",
         params=[("name", "str"), ("value", "attr"), ("attributes_level", "int")], ret="bool"),
    dict(file="common.py", cls=None, func="show_attributes", kind="expr", pick=("if", 3), lean="attr_skip_alias",
         params=[("name", "str"), ("value", "attr")], ret="bool"),
    dict(file="common.py", cls=None, func="show_attributes", kind="expr", pick=("assign", "indent", 0), lean="attr_indent",
         params=[("prefix", "str"), ("name", "str")], ret="str"),
    dict(file="common.py", cls=None, func="show_attributes", kind="expr", pick=("assign", "fits_on_one_line", 0),
         lean="attr_fits", params=[("indent", "str"), ("value", "str"), ("print_width", "int")], ret="bool"),
    dict(file="common.py", cls=None, func="show_attributes", kind="expr", pick=("assign", "fits_on_one_line", 1),
         lean="attr_fits_quoted", params=[("indent", "str"), ("value", "str"), ("print_width", "int")], ret="bool"),
    dict(file="common.py", cls=None, func="show_attributes", kind="expr", pick=("if", 8), lean="attr_need_quote",
         params=[("value", "str"), ("fits_on_one_line", "bool")], ret="bool"),
    dict(file="common.py", cls="definition", func="show", kind="expr", pick=("if", 0), lean="definition_template_gate",
         params=[("self.is_template", "int"), ("attributes_level", "int")], ret="bool"),
    dict(file="common.py", cls="definition", func="show", kind="expr", pick=("if", 1), lean="definition_deprecated_gate",
         params=[("self.deprecated", "attr"), ("attributes_level", "int")], ret="bool"),
    dict(file="common.py", cls="definition", func="show", kind="expr", pick=("if", 2), lean="definition_expert_gate",
         params=[("self.expert_level", "optint"), ("expert_level", "optint")], ret="bool"),
    dict(file="common.py", cls="scope", func="show", kind="expr", pick=("if", 0), lean="scope_template_gate",
         params=[("self.is_template", "int"), ("attributes_level", "int")], ret="bool"),
    dict(file="common.py", cls="scope", func="show", kind="expr", pick=("if", 1), lean="scope_expert_gate",
         params=[("self.expert_level", "optint"), ("expert_level", "optint")], ret="bool"),
    dict(file="common.py", cls="definition", func="show", kind="expr", pick=("if", 8), lean="definition_wrap_test",
         params=[("line_plus", "str"), ("print_width", "int"), ("line", "str"), ("indent", "str")], ret="bool"),
]

LEAN_KEYWORDS = {"at", "from", "fun", "end", "in", "then", "else", "do", "let", "have", "show", "match", "with",
                 "if", "open", "def", "theorem", "where", "by", "instance", "structure", "class", "namespace",
                 "section", "variable", "universe", "prefix", "infix", "postfix", "notation", "macro", "syntax", "import", "export", "mutual", "type", "Type", "Prop", "Sort"}


def lname(py):
    n = py.replace("self.", "")
    return n + "_" if n in LEAN_KEYWORDS else n


def chr_lit(c):
    o = ord(c)
    if c == "'":
        return "'\\''"
    if c == "\\":
        return "'\\\\'"
    if 32 <= o < 127:
        return "'%s'" % c
    return "(Char.ofNat %d)" % o


def str_lit(s):
    return "[" + ", ".join(chr_lit(c) for c in s) + "]" if s else "([] : Str)"


def find_func(tree, cls, name):
    scope = tree.body
    if cls is not None:
        for node in tree.body:
            if isinstance(node, ast.ClassDef) and node.name == cls:
                scope = node.body
                break
        else:
            raise Refuse("class %s not found" % cls)
    for node in scope:
        if isinstance(node, ast.FunctionDef) and node.name == name:
            return node
    raise Refuse("function %s not found" % name)


def char_sets(tree):
    """module-level sets of characters built as `X = set()` / `X = set(Y)` followed by `for c in "lit": X.add(c)`;
    returns name → string of the members in insertion order"""
    sets = {}
    for node in tree.body:
        if isinstance(node, ast.Assign) and len(node.targets) == 1 and isinstance(node.targets[0], ast.Name):
            v = node.value
            if isinstance(v, ast.Call) and isinstance(v.func, ast.Name) and v.func.id == "set" and not v.keywords:
                if not v.args:
                    sets[node.targets[0].id] = ""
                elif len(v.args) == 1 and isinstance(v.args[0], ast.Name) and v.args[0].id in sets:
                    sets[node.targets[0].id] = sets[v.args[0].id]
                elif len(v.args) == 1 and isinstance(v.args[0], ast.Constant) and isinstance(v.args[0].value, str):
                    sets[node.targets[0].id] = "".join(dict.fromkeys(v.args[0].value))
                else:
                    sets.pop(node.targets[0].id, None)
            else:
                sets.pop(node.targets[0].id, None)
        elif (isinstance(node, ast.For) and isinstance(node.target, ast.Name) and isinstance(node.iter, ast.Constant)
              and isinstance(node.iter.value, str) and len(node.body) == 1 and not node.orelse):
            st = node.body[0]
            if (isinstance(st, ast.Expr) and isinstance(st.value, ast.Call) and isinstance(st.value.func, ast.Attribute)
                    and st.value.func.attr == "add" and isinstance(st.value.func.value, ast.Name)
                    and st.value.func.value.id in sets and len(st.value.args) == 1
                    and isinstance(st.value.args[0], ast.Name) and st.value.args[0].id == node.target.id):
                name = st.value.func.value.id
                sets[name] = "".join(dict.fromkeys(sets[name] + node.iter.value))
    return sets


class Fn:
    """translation of one function"""

    def __init__(self, target, node, sets, known):
        self.t = target
        self.node = node
        self.sets = sets            # module-level char sets visible to the function
        self.known = known          # name → target of translatable functions (for calls)
        self.used_sets = []
        self.recursive = any(isinstance(n, ast.Call) and isinstance(n.func, ast.Name) and n.func.id == target["func"]
                             for n in ast.walk(node))

    def refuse(self, node, why):
        raise Refuse("%s line %d: %s" % (self.t["func"], getattr(node, "lineno", 0), why))

    # ---------- expressions: return (lean text, type)
    def E(self, e, env):
        if isinstance(e, ast.Constant):
            v = e.value
            if isinstance(v, bool):
                return ("true" if v else "false"), "bool"
            if isinstance(v, int):
                return "(%d : Int)" % v, "int"
            if isinstance(v, str):
                return str_lit(v), "str"
            self.refuse(e, "constant %r" % (v,))
        if isinstance(e, ast.Name):
            if e.id in env:
                return env[e.id]
            if e.id in self.sets:
                if e.id not in self.used_sets:
                    self.used_sets.append(e.id)
                return e.id, "chars"
            self.refuse(e, "unknown name %s" % e.id)
        if isinstance(e, ast.Attribute):
            if isinstance(e.value, ast.Name) and e.value.id == "self":
                key = "self." + e.attr
                if key in env:
                    return env[key]
                self.refuse(e, "attribute %s is not a declared parameter" % key)
            v, ty = self.E(e.value, env)
            if ty == "word" and e.attr == "value":
                return "%s.value" % v, "str"
            if ty == "word" and e.attr == "quote_token":
                return "%s.quote" % v, "optquote"
            self.refuse(e, "attribute .%s of %s" % (e.attr, ty))
        if isinstance(e, ast.UnaryOp):
            if isinstance(e.op, ast.Not):
                return "(!%s)" % self.B(e.operand, env), "bool"
            if isinstance(e.op, ast.USub):
                v, ty = self.E(e.operand, env)
                if ty == "int":
                    return "(-%s)" % v, "int"
            self.refuse(e, "unary operator")
        if isinstance(e, ast.BoolOp):
            op = " && " if isinstance(e.op, ast.And) else " || "
            return "(" + op.join(self.B(v, env) for v in e.values) + ")", "bool"
        if isinstance(e, ast.BinOp):
            a, ta = self.E(e.left, env)
            b, tb = self.E(e.right, env)
            if isinstance(e.op, ast.Add) and ta == tb == "str":
                return "(%s ++ %s)" % (a, b), "str"
            if isinstance(e.op, ast.Add) and ta == tb == "int":
                return "(%s + %s)" % (a, b), "int"
            if isinstance(e.op, ast.Sub) and ta == tb == "int":
                return "(%s - %s)" % (a, b), "int"
            self.refuse(e, "binary operator %s on %s, %s" % (type(e.op).__name__, ta, tb))
        if isinstance(e, ast.Compare):
            if len(e.ops) != 1:
                self.refuse(e, "chained comparison")
            op, rhs = e.ops[0], e.comparators[0]
            if isinstance(op, (ast.Is, ast.IsNot)):
                if not (isinstance(rhs, ast.Constant) and rhs.value is None):
                    self.refuse(e, "`is` with something other than None")
                a, ta = self.E(e.left, env)
                if ta not in ("optstr", "optquote"):
                    self.refuse(e, "`is None` on a value of type %s" % ta)
                return "%s.%s" % (a, "isNone" if isinstance(op, ast.Is) else "isSome"), "bool"
            if isinstance(op, (ast.In, ast.NotIn)):
                a, ta = self.E(e.left, env)
                if ta != "str":
                    self.refuse(e, "`in` with a left operand of type %s" % ta)
                if isinstance(rhs, (ast.List, ast.Tuple)) and all(isinstance(x, ast.Constant) and isinstance(x.value, str) for x in rhs.elts):
                    r = "([%s] : List Str).contains %s" % (", ".join(str_lit(x.value) for x in rhs.elts), a)
                else:
                    b, tb = self.E(rhs, env)
                    if tb == "str":
                        r = "Py.contains %s %s" % (b, a)
                    elif tb == "chars":
                        r = "Py.inChars %s %s" % (a, b)
                    elif tb == "strs":
                        r = "%s.contains %s" % (b, a)
                    else:
                        self.refuse(e, "`in` with a right operand of type %s" % tb)
                return ("(%s)" % r if isinstance(op, ast.In) else "(!(%s))" % r), "bool"
            a, ta = self.E(e.left, env)
            b, tb = self.E(rhs, env)
            if ta != tb or ta not in ("str", "int", "bool", "strs"):
                self.refuse(e, "comparison of %s with %s" % (ta, tb))
            if isinstance(op, ast.Eq):
                return "(%s == %s)" % (a, b), "bool"
            if isinstance(op, ast.NotEq):
                return "(%s != %s)" % (a, b), "bool"
            if ta == "int":
                sym = {ast.Lt: "<", ast.LtE: "≤", ast.Gt: ">", ast.GtE: "≥"}.get(type(op))
                if sym:
                    return "decide (%s %s %s)" % (a, sym, b), "bool"
            self.refuse(e, "comparison operator %s on %s" % (type(op).__name__, ta))
        if isinstance(e, ast.IfExp):
            a, ta = self.E(e.body, env)
            b, tb = self.E(e.orelse, env)
            if ta != tb:
                self.refuse(e, "conditional expression with branches of different types")
            return "(if %s then %s else %s)" % (self.B(e.test, env), a, b), ta
        if isinstance(e, ast.Subscript):
            v, ty = self.E(e.value, env)
            sl = e.slice
            if isinstance(sl, ast.Slice):
                if sl.step is not None or ty not in ("str", "strs"):
                    self.refuse(e, "slice with a step / of type %s" % ty)
                if sl.lower is not None and sl.upper is None:
                    k, tk = self.E(sl.lower, env)
                    fn = "Py.sliceFrom"
                elif sl.upper is not None and sl.lower is None:
                    k, tk = self.E(sl.upper, env)
                    fn = "Py.sliceTo"
                else:
                    self.refuse(e, "slice with both or no bounds")
                if tk != "int":
                    self.refuse(e, "slice bound of type %s" % tk)
                return "(%s %s %s)" % (fn, v, k), ty
            k, tk = self.E(sl, env)
            if tk != "int":
                self.refuse(e, "index of type %s" % tk)
            if ty == "str":
                return "(Py.index %s %s)" % (v, k), "str"
            if ty == "words" and isinstance(sl, ast.Constant) and sl.value == 0:
                return "(Py.first %s)" % v, "word"
            self.refuse(e, "index into %s" % ty)
        if isinstance(e, ast.Call):
            return self.call(e, env)
        self.refuse(e, "expression %s" % type(e).__name__)

    def B(self, e, env):
        """expression in a boolean context (truth value of a string allowed)"""
        v, ty = self.E(e, env)
        if ty == "bool":
            return v
        if ty == "str":
            return "(Py.truthy %s)" % v
        self.refuse(e, "truth value of %s" % ty)

    def call(self, e, env):
        f = e.func
        if isinstance(f, ast.Name):
            if f.id == "len" and len(e.args) == 1 and not e.keywords:
                v, ty = self.E(e.args[0], env)
                if ty in ("str", "strs", "words"):
                    return "(Py.len %s)" % v, "int"
                self.refuse(e, "len of %s" % ty)
            if f.id in self.known:
                tgt = self.known[f.id]
                names = [p for p, _ in tgt["params"]]
                if any(p.startswith("self.") for p in names):
                    self.refuse(e, "call of a method")
                given = dict(zip(names, e.args))
                for kw in e.keywords:
                    if kw.arg is None or kw.arg not in names or kw.arg in given:
                        self.refuse(e, "keyword argument %s" % kw.arg)
                    given[kw.arg] = kw.value
                if len(given) != len(names) or len(e.args) > len(names):
                    self.refuse(e, "wrong number of arguments for %s" % f.id)
                args = []
                for p, ty in tgt["params"]:
                    v, tv = self.E(given[p], env)
                    if tv != ty:
                        self.refuse(e, "argument %s of %s has type %s, expected %s" % (p, f.id, tv, ty))
                    args.append(v)
                head = "%s_fuel fuel" % f.id if (f.id == self.t["func"]) else f.id
                return "(%s %s)" % (head, " ".join(args)), tgt["ret"]
            self.refuse(e, "call of %s" % f.id)
        if isinstance(f, ast.Attribute):
            if e.keywords:
                self.refuse(e, "keyword arguments of a method")
            v, ty = self.E(f.value, env)
            if ty != "str":
                self.refuse(e, "method .%s of %s" % (f.attr, ty))
            args = [self.E(a, env) for a in e.args]
            tys = [t for _, t in args]
            if f.attr in ("startswith", "endswith", "find") and tys == ["str"]:
                return "(Py.%s %s %s)" % (f.attr, v, args[0][0]), ("int" if f.attr == "find" else "bool")
            if f.attr == "lower" and not args:
                return "(Py.lower %s)" % v, "str"
            if f.attr == "replace" and tys == ["str", "str"]:
                pat = e.args[0]
                if isinstance(pat, ast.Constant) and isinstance(pat.value, str) and len(pat.value) == 1:
                    return "(Py.replace1 %s %s %s)" % (v, chr_lit(pat.value), args[1][0]), "str"
                return "(Py.replace %s %s %s)" % (v, args[0][0], args[1][0]), "str"
            if f.attr == "split" and len(e.args) == 1:
                sep = e.args[0]
                if isinstance(sep, ast.Constant) and isinstance(sep.value, str) and len(sep.value) == 1:
                    return "(Py.split1 %s %s)" % (v, chr_lit(sep.value)), "strs"
                self.refuse(e, "split with a separator that is not a one-character literal")
            self.refuse(e, "method .%s with %d argument(s)" % (f.attr, len(args)))
        self.refuse(e, "call")

    # ---------- statements: a statement list becomes one expression; what follows an `if` without return is
    # duplicated into both branches (assignments are `let`s, so shadowing gives the right value in each copy)
    def S(self, stmts, env, ind):
        pad = "  " * ind
        if not stmts:
            raise Refuse("%s: a path falls off the end of the function (returns None)" % self.t["func"])
        st, rest = stmts[0], stmts[1:]
        if isinstance(st, ast.Expr) and isinstance(st.value, ast.Constant) and isinstance(st.value.value, str):
            return self.S(rest, env, ind)
        if isinstance(st, ast.Return):
            if st.value is None:
                self.refuse(st, "bare return")
            v, ty = self.E(st.value, env)
            if ty == "str" and self.t["ret"] == "bool":
                self.refuse(st, "returns a string where a bool is declared")
            if ty != self.t["ret"]:
                self.refuse(st, "returns %s, declared %s" % (ty, self.t["ret"]))
            return pad + v
        if isinstance(st, ast.Assign):
            if len(st.targets) != 1 or not isinstance(st.targets[0], ast.Name):
                self.refuse(st, "assignment target")
            name = st.targets[0].id
            v, ty = self.E(st.value, env)
            if ty not in LEAN_TY:
                self.refuse(st, "assignment of a %s" % ty)
            env2 = dict(env)
            env2[name] = (lname(name), ty)
            return "%slet %s : %s := %s\n%s" % (pad, lname(name), LEAN_TY[ty], v, self.S(rest, env2, ind))
        if isinstance(st, ast.If):
            t = st.test
            # `if X is [not] None` on an Optional parameter: match, X is the unwrapped value in the `some` branch
            if (isinstance(t, ast.Compare) and len(t.ops) == 1 and isinstance(t.ops[0], (ast.Is, ast.IsNot))
                    and isinstance(t.comparators[0], ast.Constant) and t.comparators[0].value is None):
                key = None
                if isinstance(t.left, ast.Name):
                    key = t.left.id
                elif isinstance(t.left, ast.Attribute) and isinstance(t.left.value, ast.Name) and t.left.value.id == "self":
                    key = "self." + t.left.attr
                if key in env and env[key][1] == "optstr":
                    some_body, none_body = (st.body, st.orelse) if isinstance(t.ops[0], ast.IsNot) else (st.orelse, st.body)
                    env_some = dict(env)
                    env_some[key] = (lname(key) + "_v", "str")
                    return ("%smatch %s with\n%s| none =>\n%s\n%s| some %s_v =>\n%s" % (
                        pad, env[key][0], pad, self.S(list(none_body) + rest, env, ind + 2),
                        pad, lname(key), self.S(list(some_body) + rest, env_some, ind + 2)))
            c = self.B(t, env)
            return "%sif %s then\n%s\n%selse\n%s" % (pad, c, self.S(list(st.body) + rest, env, ind + 1), pad,
                                                 self.S(list(st.orelse) + rest, env, ind + 1))
        if isinstance(st, ast.For):
            if st.orelse or not isinstance(st.target, ast.Name):
                self.refuse(st, "for/else or a structured loop variable")
            it, ty = self.E(st.iter, env)
            if ty == "str":
                it = "(Py.chars %s)" % it
            elif ty != "strs":
                self.refuse(st, "loop over %s" % ty)
            if not (len(st.body) == 1 and isinstance(st.body[0], ast.If) and not st.body[0].orelse
                    and len(st.body[0].body) == 1 and isinstance(st.body[0].body[0], ast.Return)
                    and st.body[0].body[0].value is not None):
                self.refuse(st, "loop body is not `if test: return value`")
            var = st.target.id
            ret = st.body[0].body[0]
            if any(isinstance(n, ast.Name) and n.id == var for n in ast.walk(ret.value)):
                self.refuse(st, "the value returned from the loop uses the loop variable")
            env2 = dict(env)
            env2[var] = (lname(var), "str")
            c = self.B(st.body[0].test, env2)
            k = self.S([ret], env, ind + 1)
            # after the loop the variable keeps its last value in Python; refuse a later use
            for n in rest:
                if any(isinstance(x, ast.Name) and x.id == var and isinstance(x.ctx, ast.Load) for x in ast.walk(n)):
                    # a later loop may rebind it first; be conservative only when not rebound
                    if not (isinstance(n, ast.For) and isinstance(n.target, ast.Name) and n.target.id == var
                            and not any(isinstance(x, ast.Name) and x.id == var for x in ast.walk(n.iter))):
                        self.refuse(st, "loop variable used after the loop")
            return "%sif %s.any (fun %s => %s) then\n%s\n%selse\n%s" % (pad, it, lname(var), c, k, pad,
                                                                    self.S(rest, env, ind + 1))
        self.refuse(st, "statement %s" % type(st).__name__)

    def render(self):
        t = self.t
        a = self.node.args
        if a.vararg or a.kwarg or a.kwonlyargs or a.defaults or getattr(a, "posonlyargs", []):
            raise Refuse("%s: signature with defaults / varargs" % t["func"])
        pyargs = [x.arg for x in a.args]
        declared = [p for p, _ in t["params"] if not p.startswith("self.")]
        if [x for x in pyargs if x != "self"] != declared and sorted(x for x in pyargs if x != "self") != sorted(declared):
            raise Refuse("%s: parameters %s, expected %s" % (t["func"], pyargs, declared))
        if self.node.decorator_list:
            raise Refuse("%s: decorated" % t["func"])
        env = {p: (lname(p), ty) for p, ty in t["params"]}
        body = self.S(list(self.node.body), env, 2 if self.recursive else 1)
        binders = " ".join("(%s : %s)" % (lname(p), LEAN_TY[ty]) for p, ty in t["params"])
        names = " ".join(lname(p) for p, _ in t["params"])
        where = "%s%s.%s" % (t["file"], ":" + t["cls"] if t["cls"] else "", t["func"])
        sets = [(s, "/-- %s: module-level character set %s -/\ndef %s : List Char := %s\n" % (
            t["file"], s, s, "[" + ", ".join(chr_lit(c) for c in self.sets[s]) + "]")) for s in self.used_sets]
        if not self.recursive:
            return sets, "/-- %s -/\ndef %s %s : %s :=\n%s\n" % (where, t["func"], binders, LEAN_TY[t["ret"]], body)
        firststr = [lname(p) for p, ty in t["params"] if ty == "str"]
        if not firststr or t["ret"] not in DEFAULT:
            raise Refuse("%s: recursive without a string parameter to bound the depth" % t["func"])
        tys = " → ".join(LEAN_TY[ty] for _, ty in t["params"])
        return sets, ("/-- %s, recursion depth bounded by `fuel` -/\ndef %s_fuel : Nat → %s → %s\n  | 0, %s => %s\n  | fuel + 1, %s =>\n%s\n"
                      "/-- %s -/\ndef %s %s : %s := %s_fuel (Py.fuel %s) %s\n" % (
                          where, t["func"], tys, LEAN_TY[t["ret"]], ", ".join("_" for _ in t["params"]), DEFAULT[t["ret"]],
                          ", ".join(lname(p) for p, _ in t["params"]), body,
                          where, t["func"], binders, LEAN_TY[t["ret"]], t["func"], firststr[0], names))


def tname(t):
    return t.get("lean") or t["func"]


def message_skeleton(e):
    """the literal text of a message expression with the formatted values left out"""
    if isinstance(e, ast.Constant) and isinstance(e.value, str):
        return e.value
    if isinstance(e, ast.BinOp) and isinstance(e.op, ast.Mod):
        return message_skeleton(e.left)
    if isinstance(e, ast.BinOp) and isinstance(e.op, ast.Add):
        a, b = message_skeleton(e.left), message_skeleton(e.right)
        return None if a is None or b is None else a + b
    if isinstance(e, ast.JoinedStr):
        out = ""
        for v in e.values:
            out += v.value if isinstance(v, ast.Constant) else "%s"
        return out
    return None


def site_of(skeleton):
    """the harness's SITE name of a RuntimeError message (harness/common.py: classify_runtime)"""
    import sys
    if HERE not in sys.path:
        sys.path.insert(0, HERE)
    from common import classify_runtime
    return classify_runtime(skeleton.replace("%s", "x").replace("%d", "1"))[0]


WHERE_STR_DEF = "def where_str():\n    if words is None:\n        return ''\n    return words[0].where_str()"


class FnM(Fn):
    """a function that may raise: the result is `R ret`; dynamically typed values are `PVal` (type "val")"""

    def coerce(self, v, ty, want, node):
        if ty == want:
            return v
        if want == "val":
            if ty == "bool":
                return "(PVal.bool %s)" % v
            if ty == "optnum":
                return "(Py.ofOptNum %s)" % v
            if ty == "vals":
                return "(PVal.list %s)" % v
        if want == "optwords" and ty == "words":
            return "(some %s)" % v
        if want == "int" and ty == "optint":
            return "(Py.getInt %s)" % v
        self.refuse(node, "a value of type %s where %s is needed" % (ty, want))

    def E(self, e, env):
        if isinstance(e, ast.Constant) and e.value is None:
            return "PVal.none", "val"
        if (isinstance(e, ast.Attribute) and isinstance(e.value, ast.Name) and e.value.id == "freephil"
                and e.attr == "Auto"):
            return "PVal.auto", "val"
        if isinstance(e, ast.Attribute) and isinstance(e.value, ast.Name) and env.get(e.value.id, ("", ""))[1] == "path":
            return "()", "path"
        if isinstance(e, ast.List) and not e.elts:
            return "([] : List PVal)", "vals"
        if isinstance(e, ast.Compare) and len(e.ops) == 1:
            op, rhs = e.ops[0], e.comparators[0]
            if isinstance(op, (ast.Is, ast.IsNot)):
                a, ta = self.E(e.left, env)
                neg = isinstance(op, ast.IsNot)
                if isinstance(rhs, ast.Constant) and rhs.value is None:
                    if ta == "val":
                        r = "(Py.isNone %s)" % a
                    elif ta in ("optnum", "optint", "optwords", "optstr", "optquote"):
                        r = "%s.isNone" % a
                    else:
                        self.refuse(e, "`is None` on a value of type %s" % ta)
                else:
                    b, tb = self.E(rhs, env)
                    if b != "PVal.auto" or ta != "val":
                        self.refuse(e, "`is` with something other than None / Auto, or on a %s" % ta)
                    r = "(Py.isAuto %s)" % a
                return ("(!%s)" % r if neg else r), "bool"
            if isinstance(op, (ast.Eq, ast.NotEq, ast.Lt, ast.LtE, ast.Gt, ast.GtE)):
                a, ta = self.E(e.left, env)
                b, tb = self.E(rhs, env)
                if "val" in (ta, tb) or "optnum" in (ta, tb):
                    fn = {ast.Eq: "Py.veq", ast.GtE: "Py.ge", ast.LtE: "Py.le"}.get(type(op))
                    if fn is None:
                        self.refuse(e, "comparison operator %s on objects" % type(op).__name__)
                    return "(%s %s %s)" % (fn, self.coerce(a, ta, "val", e), self.coerce(b, tb, "val", e)), "bool"
                if ta == tb == "optint" and isinstance(op, (ast.Eq, ast.NotEq)):
                    return "(%s %s %s)" % (a, "==" if isinstance(op, ast.Eq) else "!=", b), "bool"
                if set((ta, tb)) == {"int", "optint"}:
                    sym = {ast.Lt: "<", ast.LtE: "≤", ast.Gt: ">", ast.GtE: "≥"}.get(type(op))
                    if sym is None:
                        self.refuse(e, "== between int and None-able int")
                    return "decide (%s %s %s)" % (self.coerce(a, ta, "int", e), sym, self.coerce(b, tb, "int", e)), "bool"
        return Fn.E(self, e, env)

    def B(self, e, env):
        v, ty = self.E(e, env)
        if ty == "val":
            return "(Py.vtruthy %s)" % v
        if ty == "vals":
            return "(!%s.isEmpty)" % v
        if ty == "bool":
            return v
        if ty == "str":
            return "(Py.truthy %s)" % v
        self.refuse(e, "truth value of %s" % ty)

    def call(self, e, env):
        f = e.func
        if isinstance(f, ast.Name) and not e.keywords and len(e.args) == 1:
            if f.id in ("round", "int", "len") or f.id == "str_from_words":
                v, ty = self.E(e.args[0], env)
                if ty == "val" and f.id in ("round", "int"):
                    return "(Py.%s %s)" % (f.id, v), "val"
                if ty == "val" and f.id == "len":
                    return "(Py.vlen %s)" % v, "int"
                if ty == "words" and f.id == "str_from_words":
                    return "(Py.str_from_words %s)" % v, "val"
        if isinstance(f, ast.Name) and f.id == "isinstance" and len(e.args) == 2 and not e.keywords:
            v, ty = self.E(e.args[0], env)
            c = e.args[1]
            if ty == "val" and isinstance(c, ast.Name) and c.id in ("int", "float"):
                return "(Py.isinstance_%s %s)" % (c.id, v), "bool"
            self.refuse(e, "isinstance test")
        if (isinstance(f, ast.Attribute) and isinstance(f.value, ast.Name) and f.value.id == "math"
                and f.attr == "isfinite" and len(e.args) == 1 and not e.keywords):
            v, ty = self.E(e.args[0], env)
            if ty == "val":
                return "(Py.isfinite %s)" % v, "bool"
        if isinstance(f, ast.Attribute) and f.attr in ("lower", "strip") and not e.args and not e.keywords:
            v, ty = self.E(f.value, env)
            if ty == "val":
                v, ty = "(Py.strOf %s)" % v, "str"
            if ty == "str":
                return "(%s %s)" % ("Py.lower" if f.attr == "lower" else "Phil.strip", v), "str"
        if isinstance(f, ast.Attribute) and isinstance(f.value, ast.Name) and env.get(f.value.id, ("", ""))[1] == "path":
            return "()", "path"
        return Fn.call(self, e, env)

    # ---------- calls that may raise: (lean text of an `R _` expression, result type) or None
    def mcall(self, e, env):
        if not isinstance(e, ast.Call):
            return None
        f = e.func
        key = None
        if isinstance(f, ast.Name):
            key = f.id
        elif isinstance(f, ast.Attribute) and isinstance(f.value, ast.Name) and f.value.id == "self":
            key = "self." + f.attr
        if key is None:
            return None
        if not (key in env and env[key][1].startswith("fn:")) and not any(
                t.get("monadic") and t["func"] == key.replace("self.", "") for t in self.alltargets):
            return None
        if e.args:
            self.refuse(e, "positional arguments in a call that may raise")
        given = {kw.arg: kw.value for kw in e.keywords}
        if key in env and env[key][1].startswith("fn:"):
            sig = env[key][1][3:]
            argtys, ret = sig.split("->")
            args = []
            names = []
            for kw in e.keywords:
                v, ty = self.E(kw.value, env)
                if ty == "path":
                    continue
                args.append((v, ty))
                names.append(kw.arg)
            if [t for _, t in args] != argtys.split(","):
                self.refuse(e, "arguments of %s: %s, declared %s" % (key, [t for _, t in args], argtys))
            return "(%s %s)" % (env[key][0], " ".join(v for v, _ in args)), ret
        callee = None
        for t in self.alltargets:
            if t.get("monadic") and t["func"] == key.replace("self.", "") and tname(t) != tname(self.t) and (
                    (t["cls"] is not None) == key.startswith("self.")):
                callee = t
        if callee is None:
            return None
        args = []
        for p, ty in callee["params"]:
            if ty == "path":
                continue
            if p.startswith("self."):
                if p not in env:
                    self.refuse(e, "callee attribute %s is not a parameter of the caller" % p)
                v, tv = env[p]
            elif p in given:
                v, tv = self.E(given[p], env)
            elif ty == "optwords":
                v, tv = "none", "optwords"
            else:
                self.refuse(e, "argument %s of %s missing" % (p, key))
            args.append(self.coerce(v, tv, ty, e))
        for k in given:
            if k not in [p for p, _ in callee["params"]]:
                self.refuse(e, "unknown keyword %s" % k)
        return "(%s %s)" % (tname(callee), " ".join(args)), callee["ret"]

    def where(self, node, env):
        """line expression for the `where_str` occurring in a message, or `none`"""
        for n in ast.walk(node):
            if isinstance(n, ast.Call):
                f = n.func
                if isinstance(f, ast.Name) and f.id == "where_str":
                    if not self.has_where:
                        self.refuse(n, "where_str() without the local helper")
                    ty = env["words"][1]
                    return "(Py.where_opt words)" if ty == "optwords" else "(Py.where_ words)"
                if isinstance(f, ast.Attribute) and f.attr == "where_str":
                    v = f.value
                    if (isinstance(v, ast.Subscript) and isinstance(v.value, ast.Name) and v.value.id == "words"
                            and isinstance(v.slice, ast.Constant) and v.slice.value == 0 and env["words"][1] == "words"):
                        return "(Py.where_ words)"
                    self.refuse(n, "where_str of something other than words[0]")
        return "none"

    def ret(self, v, ty, node):
        want = self.t["ret"]
        return ".ok %s" % self.coerce(v, ty, want, node)

    def S(self, stmts, env, ind, cont=None):
        pad = "  " * ind
        if not stmts:
            if cont is not None:
                return pad + cont(env)
            if self.t["ret"] == "unit":
                return pad + ".ok ()"
            raise Refuse("%s: a path falls off the end of the function (returns None)" % self.t["func"])
        st, rest = stmts[0], stmts[1:]
        if isinstance(st, ast.Expr) and isinstance(st.value, ast.Constant) and isinstance(st.value.value, str):
            return self.S(rest, env, ind, cont)
        if isinstance(st, ast.Pass):
            return self.S(rest, env, ind, cont)
        if isinstance(st, ast.FunctionDef):
            if st.name == "where_str" and ast.unparse(st) == WHERE_STR_DEF and "words" in env:
                self.has_where = True
                return self.S(rest, env, ind, cont)
            self.refuse(st, "local function other than the where_str helper")
        if isinstance(st, ast.Return):
            if cont is not None:
                self.refuse(st, "return inside a loop")
            if st.value is None:
                self.refuse(st, "bare return")
            m = self.mcall(st.value, env)
            if m is not None:
                if m[1] != self.t["ret"]:
                    self.refuse(st, "returns %s, declared %s" % (m[1], self.t["ret"]))
                return pad + m[0]
            v, ty = self.E(st.value, env)
            return pad + self.ret(v, ty, st)
        if isinstance(st, ast.Raise):
            exc = st.exc
            if not (isinstance(exc, ast.Call) and isinstance(exc.func, ast.Name) and exc.func.id == "RuntimeError"
                    and len(exc.args) == 1 and not exc.keywords):
                self.refuse(st, "raise of something other than RuntimeError(message)")
            sk = message_skeleton(exc.args[0])
            if sk is None:
                self.refuse(st, "message without a literal text")
            site = site_of(sk)
            if site == "other":
                self.refuse(st, "message %r has no SITE name" % sk)
            return '%s.error (Err.runtime "%s" %s)' % (pad, site, self.where(exc.args[0], env))
        if isinstance(st, ast.Assert):
            c = self.B(st.test, env)
            return '%sif %s then\n%s\n%selse\n%s  .error (Err.stray "AssertionError" "%s")' % (
                pad, c, self.S(rest, env, ind + 1, cont), pad, pad, self.t["func"])
        if isinstance(st, ast.Try):
            if st.orelse or st.finalbody or len(st.handlers) != 1 or len(st.body) != 1:
                self.refuse(st, "try statement shape")
            h = st.handlers[0]
            b = st.body[0]
            # `try: "%d" % x except ValueError: raise ...` — CPython refuses to write ints beyond
            # sys.get_int_max_str_digits(); such ints are outside the modelled domain: no effect
            if (isinstance(b, ast.Expr) and isinstance(b.value, ast.BinOp) and isinstance(b.value.op, ast.Mod)
                    and isinstance(b.value.left, ast.Constant) and b.value.left.value == "%d"
                    and isinstance(b.value.right, ast.Name) and isinstance(h.type, ast.Name) and h.type.id == "ValueError"):
                return "%s-- try \"%%d\" %% %s: no effect on the modelled domain\n%s" % (
                    pad, b.value.right.id, self.S(rest, env, ind, cont))
            # `try: return float(x) except Cls: pass`
            if (isinstance(b, ast.Return) and isinstance(b.value, ast.Call) and isinstance(b.value.func, ast.Name)
                    and b.value.func.id == "float" and len(b.value.args) == 1 and not b.value.keywords
                    and isinstance(h.type, ast.Name) and len(h.body) == 1 and isinstance(h.body[0], ast.Pass)
                    and self.t["ret"] == "val" and cont is None):
                v, ty = self.E(b.value.args[0], env)
                if ty != "val":
                    self.refuse(st, "float() of a %s" % ty)
                return ("%smatch Py.float %s with\n%s| .ok v => .ok v\n%s| .error e =>\n%s  if Py.isExc e \"%s\" then\n%s\n%s  else .error e" % (
                    pad, v, pad, pad, pad, h.type.id, self.S(rest, env, ind + 2, cont), pad))
            if self.t.get("tail_at_try") and cont is None:
                # everything from the first other `try` on is the declared tail parameter (int() / eval of the text)
                return pad + env[self.t["tail_at_try"]][0]
            self.refuse(st, "try statement")
        if isinstance(st, ast.Expr):
            c = st.value
            # result.append(value) on a list accumulator
            if (isinstance(c, ast.Call) and isinstance(c.func, ast.Attribute) and c.func.attr == "append"
                    and isinstance(c.func.value, ast.Name) and env.get(c.func.value.id, ("", ""))[1] == "vals"
                    and len(c.args) == 1 and not c.keywords):
                name = c.func.value.id
                v, ty = self.E(c.args[0], env)
                return "%slet %s : List PVal := %s ++ [%s]\n%s" % (pad, lname(name), env[name][0],
                                                                 self.coerce(v, ty, "val", st), self.S(rest, env, ind, cont))
            m = self.mcall(c, env)
            if m is None:
                self.refuse(st, "expression statement")
            return "%smatch %s with\n%s| .error e => .error e\n%s| .ok _ =>\n%s" % (
                pad, m[0], pad, pad, self.S(rest, env, ind + 2, cont))
        if isinstance(st, ast.Assign):
            if len(st.targets) != 1 or not isinstance(st.targets[0], ast.Name):
                self.refuse(st, "assignment target")
            name = st.targets[0].id
            m = self.mcall(st.value, env)
            env2 = dict(env)
            if m is not None:
                env2[name] = (lname(name), m[1])
                return "%smatch %s with\n%s| .error e => .error e\n%s| .ok %s =>\n%s" % (
                    pad, m[0], pad, pad, lname(name), self.S(rest, env2, ind + 2, cont))
            v, ty = self.E(st.value, env)
            if ty == "path":
                env2[name] = ("()", "path")
                return self.S(rest, env2, ind, cont)
            if ty not in LEAN_TY:
                self.refuse(st, "assignment of a %s" % ty)
            env2[name] = (lname(name), ty)
            return "%slet %s : %s := %s\n%s" % (pad, lname(name), LEAN_TY[ty], v, self.S(rest, env2, ind, cont))
        if isinstance(st, ast.If):
            c = self.B(st.test, env)
            return "%sif %s then\n%s\n%selse\n%s" % (pad, c, self.S(list(st.body) + rest, env, ind + 1, cont), pad,
                                                 self.S(list(st.orelse) + rest, env, ind + 1, cont))
        if isinstance(st, ast.For):
            # `for x in xs: BODY` where BODY appends to ONE list accumulator `acc` (bound before the loop) → foldlM
            if st.orelse or not isinstance(st.target, ast.Name) or cont is not None:
                self.refuse(st, "for/else, a structured loop variable or a nested loop")
            it, ty = self.E(st.iter, env)
            if ty != "val":
                self.refuse(st, "loop over %s" % ty)
            accs = sorted(set(n.func.value.id for n in ast.walk(st) if isinstance(n, ast.Call)
                              and isinstance(n.func, ast.Attribute) and n.func.attr == "append"
                              and isinstance(n.func.value, ast.Name)))
            if len(accs) != 1 or env.get(accs[0], ("", ""))[1] != "vals":
                self.refuse(st, "loop without exactly one list accumulator")
            acc = accs[0]
            var = st.target.id
            assigned = set(t.id for n in ast.walk(st) if isinstance(n, ast.Assign) for t in n.targets if isinstance(t, ast.Name))
            for n in rest:
                for x in ast.walk(n):
                    if isinstance(x, ast.Name) and isinstance(x.ctx, ast.Load) and x.id in assigned | {var}:
                        self.refuse(st, "a variable of the loop body is used after the loop")
            env2 = dict(env)
            env2[var] = (lname(var), "val")
            body = self.S(list(st.body), env2, ind + 2, cont=lambda envx: ".ok %s" % envx[acc][0])
            return ("%smatch (Py.items %s).foldlM (m := Except Err) (init := %s) (fun (%s : List PVal) (%s : PVal) =>\n%s) with\n%s| .error e => .error e\n%s| .ok %s =>\n%s" % (
                pad, it, env[acc][0], lname(acc), lname(var), body, pad, pad, lname(acc), self.S(rest, env, ind + 2, None)))
        self.refuse(st, "statement %s" % type(st).__name__)

    def render(self):
        t = self.t
        self.has_where = False
        a = self.node.args
        if a.vararg or a.kwarg or a.kwonlyargs or getattr(a, "posonlyargs", []) or self.node.decorator_list:
            raise Refuse("%s: signature with varargs / decorated" % t["func"])
        for d in a.defaults:
            if not (isinstance(d, ast.Constant) and d.value is None):
                raise Refuse("%s: a default other than None" % t["func"])
        if a.defaults:
            last = [x.arg for x in a.args][-len(a.defaults):]
            for p, ty in t["params"]:
                if p in last and ty != "optwords":
                    raise Refuse("%s: default None on %s of type %s" % (t["func"], p, ty))
        pyargs = [x.arg for x in a.args if x.arg != "self"]
        extra = [t.get("tail_at_try")]
        declared = [p for p, ty in t["params"] if not p.startswith("self.") and not ty.startswith("fn:") and p not in extra]
        declared += [p for p, ty in t["params"] if ty.startswith("fn:") and p in pyargs]
        if sorted(pyargs) != sorted(declared):
            raise Refuse("%s: parameters %s, expected %s" % (t["func"], pyargs, declared))
        env = {p: (lname(p) if ty != "path" else "()", ty) for p, ty in t["params"]}
        body = self.S(list(self.node.body), env, 1)
        real = [(p, ty) for p, ty in t["params"] if ty != "path"]
        binders = " ".join("(%s : %s)" % (lname(p), LEAN_TY[ty]) for p, ty in real)
        where = "%s%s.%s" % (t["file"], ":" + t["cls"] if t["cls"] else "", t["func"])
        return [], "/-- %s -/\ndef %s %s : R %s :=\n%s\n" % (where, tname(t), binders, LEAN_TY[t["ret"]], body)


def stmts_in_order(body):
    """all statements below `body` in source order (nested function / class definitions are not entered)"""
    for st in body:
        yield st
        if isinstance(st, (ast.FunctionDef, ast.ClassDef)):
            continue
        for field in ("body", "orelse", "finalbody"):
            sub = getattr(st, field, None)
            if isinstance(sub, list):
                for x in stmts_in_order(sub):
                    yield x
        for h in getattr(st, "handlers", []):
            for x in stmts_in_order(h.body):
                yield x


class FnX(FnM):
    """ONE expression of a function (picked by position) as a pure function of its free variables"""

    def E(self, e, env):
        if isinstance(e, ast.Compare) and len(e.ops) == 1:
            op, rhs = e.ops[0], e.comparators[0]
            if isinstance(op, (ast.Is, ast.IsNot)) and isinstance(rhs, ast.Constant) and rhs.value is None:
                a, ta = self.E(e.left, env)
                if ta == "attr":
                    r = "(Py.attrIsNone %s)" % a
                    return ("(!%s)" % r if isinstance(op, ast.IsNot) else r), "bool"
            if isinstance(op, (ast.Lt, ast.LtE, ast.Gt, ast.GtE)):
                a, ta = self.E(e.left, env)
                b, tb = self.E(rhs, env)
                if ta == tb == "optint":
                    sym = {ast.Lt: "<", ast.LtE: "≤", ast.Gt: ">", ast.GtE: "≥"}[type(op)]
                    return "decide (%s %s %s)" % (self.coerce(a, ta, "int", e), sym, self.coerce(b, tb, "int", e)), "bool"
        if isinstance(e, ast.BinOp) and isinstance(e.op, ast.Mult):
            a, ta = self.E(e.left, env)
            b, tb = self.E(e.right, env)
            if ta == "str" and tb == "int":
                return "(Py.repeat_ %s %s)" % (a, b), "str"
            self.refuse(e, "* on %s, %s" % (ta, tb))
        return FnM.E(self, e, env)

    def B(self, e, env):
        v, ty = self.E(e, env)
        if ty == "attr":
            return "(Py.attrTruthy %s)" % v
        if ty == "bool":
            return v
        if ty == "str":
            return "(Py.truthy %s)" % v
        self.refuse(e, "truth value of %s" % ty)

    def picked(self):
        pick = self.t["pick"]
        k = 0
        for st in stmts_in_order(self.node.body):
            if pick[0] == "if" and isinstance(st, ast.If):
                if k == pick[1]:
                    return st.test, True
                k += 1
            if (pick[0] == "assign" and isinstance(st, ast.Assign) and len(st.targets) == 1
                    and isinstance(st.targets[0], ast.Name) and st.targets[0].id == pick[1]):
                if k == pick[2]:
                    return st.value, False
                k += 1
        raise Refuse("%s: no %s" % (tname(self.t), (pick,)))

    def render(self):
        t = self.t
        self.has_where = False
        expr, is_test = self.picked()
        plain = [p for p, _ in t["params"] if not p.startswith("self.")]
        ln = lambda p: ("self_" + p[5:]) if (p.startswith("self.") and p[5:] in plain) else lname(p)
        env = {p: (ln(p), ty) for p, ty in t["params"]}
        # every free variable of the expression must be a declared parameter
        if is_test and t["ret"] == "bool":
            v, ty = self.B(expr, env), "bool"
        else:
            v, ty = self.E(expr, env)
        if ty != t["ret"]:
            raise Refuse("%s: the expression has type %s, declared %s" % (tname(t), ty, t["ret"]))
        binders = " ".join("(%s : %s)" % (ln(p), LEAN_TY[ty]) for p, ty in t["params"])
        where = "%s%s.%s, %s" % (t["file"], ":" + t["cls"] if t["cls"] else "", t["func"],
                                 "test of `if` number %d" % t["pick"][1] if t["pick"][0] == "if"
                                 else "right side of assignment number %d to %s" % (t["pick"][2], t["pick"][1]))
        sets = [(s_, "/-- %s: module-level character set %s -/\ndef %s : List Char := %s\n" % (
            t["file"], s_, s_, "[" + ", ".join(chr_lit(c) for c in self.sets[s_]) + "]")) for s_ in self.used_sets]
        return sets, "/-- %s -/\ndef %s %s : %s :=\n  %s\n" % (where, tname(t), binders, LEAN_TY[t["ret"]], v)


class FnChain(Fn):
    """a function that climbs the `primary_parent_scope` chain with a `while X is not None:` loop collecting strings
    into a list: the loop becomes a structural recursion over the chain parameter (type "chain")"""

    def E(self, e, env):
        if isinstance(e, ast.List) and len(e.elts) == 1:
            v, ty = self.E(e.elts[0], env)
            if ty == "str":
                return "[%s]" % v, "strs"
        if (isinstance(e, ast.Attribute) and e.attr == "name" and isinstance(e.value, ast.Name)
                and env.get(e.value.id, ("", ""))[1] == "chainhead"):
            return env[e.value.id][0], "str"
        return Fn.E(self, e, env)

    def call(self, e, env):
        f = e.func
        if (isinstance(f, ast.Attribute) and f.attr == "join" and isinstance(f.value, ast.Constant)
                and isinstance(f.value.value, str) and len(e.args) == 1 and not e.keywords):
            v, ty = self.E(e.args[0], env)
            if ty == "strs":
                return "(Py.join %s %s)" % (str_lit(f.value.value), v), "str"
        return Fn.call(self, e, env)

    def is_parent_of(self, e, var):
        return (isinstance(e, ast.Attribute) and e.attr == "primary_parent_scope" and isinstance(e.value, ast.Name)
                and e.value.id == var)

    def S(self, stmts, env, ind):
        pad = "  " * ind
        if stmts:
            st, rest = stmts[0], stmts[1:]
            if (isinstance(st, ast.Expr) and isinstance(st.value, ast.Call) and isinstance(st.value.func, ast.Attribute)
                    and st.value.func.attr == "reverse" and isinstance(st.value.func.value, ast.Name)
                    and not st.value.args and not st.value.keywords
                    and env.get(st.value.func.value.id, ("", ""))[1] == "strs"):
                x = env[st.value.func.value.id][0]
                return "%slet %s : List Str := %s.reverse\n%s" % (pad, x, x, self.S(rest, env, ind))
            if isinstance(st, ast.While):
                t = st.test
                if not (isinstance(t, ast.Compare) and len(t.ops) == 1 and isinstance(t.ops[0], ast.IsNot)
                        and isinstance(t.comparators[0], ast.Constant) and t.comparators[0].value is None
                        and isinstance(t.left, ast.Name) and env.get(t.left.id, ("", ""))[1] == "chain") or st.orelse:
                    self.refuse(st, "while loop that is not `while X is not None` on a parent chain")
                var = t.left.id
                body = list(st.body)
                if len(body) < 2:
                    self.refuse(st, "loop body")
                step, app, guards = body[-1], body[-2], body[:-2]
                if not (isinstance(step, ast.Assign) and len(step.targets) == 1 and isinstance(step.targets[0], ast.Name)
                        and step.targets[0].id == var and self.is_parent_of(step.value, var)):
                    self.refuse(step, "the loop does not end with `X = X.primary_parent_scope`")
                if not (isinstance(app, ast.Expr) and isinstance(app.value, ast.Call) and isinstance(app.value.func, ast.Attribute)
                        and app.value.func.attr == "append" and isinstance(app.value.func.value, ast.Name)
                        and len(app.value.args) == 1 and not app.value.keywords
                        and env.get(app.value.func.value.id, ("", ""))[1] == "strs"):
                    self.refuse(app, "the loop does not append to a list of strings")
                acc = app.value.func.value.id
                envb = {var: (lname(var) + "_name", "chainhead"), acc: env[acc]}
                tests = []
                for g in guards:
                    if not (isinstance(g, ast.If) and not g.orelse and len(g.body) == 1 and isinstance(g.body[0], ast.Break)):
                        self.refuse(g, "loop statement other than `if test: break`")
                    tests.append(self.B(g.test, envb))
                item, ti = self.E(app.value.args[0], envb)
                if ti != "str":
                    self.refuse(app, "appends a %s" % ti)
                for n in rest:
                    if any(isinstance(x, ast.Name) and x.id == var for x in ast.walk(n)):
                        self.refuse(st, "the chain variable is used after the loop")
                a = env[acc][0]
                aux = "%s_climb" % self.t["func"]
                body_txt = "%s %s_rest (%s ++ [%s])" % (aux, lname(var), a, item)
                for c in reversed(tests):
                    body_txt = "if %s then %s else %s" % (c, a, body_txt)
                self.aux = ("/-- the `while %s is not None` loop of %s: one step per ancestor -/\n"
                            "def %s : List Str → List Str → List Str\n  | [], %s => %s\n  | %s_name :: %s_rest, %s =>\n    %s\n" % (
                                var, self.t["func"], aux, a, a, lname(var), lname(var), a, body_txt))
                return "%slet %s : List Str := %s %s %s\n%s" % (pad, a, aux, env[var][0], a, self.S(rest, env, ind))
        return Fn.S(self, stmts, env, ind)

    def render(self):
        self.aux = ""
        sets, text = Fn.render(self)
        return sets, self.aux + text


HEADER = """/-
  GENERATED by harness/translate.py from src/freephil — do not edit.
  Lean translations of pure leaf functions, regenerated on every check run; semantics of the Python subset:
  Phil/Generated/PyPrelude.lean; equality with the hand-written model: Phil/Props/Translated.lean, Phil/Props/Translated2.lean,
  Phil/Props/Translated3.lean.
-/
import Phil.Generated.PyPrelude
set_option linter.unusedVariables false
namespace Phil.Gen
"""
FOOTER = "\nend Phil.Gen\n"


def blocks_of(text):
    return {m.group(1): m.group(2) for m in re.finditer(r"-- BEGIN (\w+)\n(.*?)-- END \1\n", text or "", re.S)}


def translate(old_text=None):
    """returns (text, notes).  A refused function keeps its committed block (if any) and yields a note."""
    notes = []
    old = blocks_of(old_text)
    known = {t["func"]: t for t in TARGETS if not t.get("monadic") and not t.get("kind")}
    trees = {}
    out = [HEADER]
    emitted_sets = set()
    for t in TARGETS:
        name = tname(t)
        try:
            if t["file"] not in trees:
                tree = ast.parse(_src(t["file"]))
                trees[t["file"]] = (tree, char_sets(tree))
            tree, sets = trees[t["file"]]
            cls_ = {"expr": FnX, "chain": FnChain}.get(t.get("kind")) or (FnM if t.get("monadic") else Fn)
            fn = cls_(t, find_func(tree, t["cls"], t["func"]), sets, known)
            fn.alltargets = TARGETS
            set_defs, text = fn.render()
            block = "".join(d for s, d in set_defs if s not in emitted_sets) + text
            emitted_sets.update(fn.used_sets)
        except (Refuse, SyntaxError, OSError, RecursionError) as e:
            notes.append("%s REFUSED (%s); %s" % (name, e, "committed definition kept" if name in old else "no definition emitted"))
            if name not in old:
                continue
            block = old[name]
        out.append("\n-- BEGIN %s\n%s-- END %s\n" % (name, block, name))
    out.append(FOOTER)
    return "".join(out), notes


def regenerate():
    """called by the runner next to extract_tables.regenerate(); returns a note or None, never raises an alarm"""
    path = _out()
    old = open(path).read() if os.path.exists(path) else None
    text, notes = translate(old)
    if old != text:
        os.makedirs(os.path.dirname(path), exist_ok=True)
        with open(path, "w") as f:
            f.write(text)
        changed = [k for k, v in blocks_of(text).items() if blocks_of(old).get(k) != v]
        notes.insert(0, "translated definitions changed and were regenerated from the source: %s" % ", ".join(changed))
    return "; ".join(notes) if notes else None


if __name__ == "__main__":
    import sys
    if "--print" in sys.argv:
        text, notes = translate(open(_out()).read() if os.path.exists(_out()) else None)
        sys.stdout.write(text)
        for n in notes:
            sys.stderr.write("note: %s\n" % n)
    else:
        print(regenerate() or "unchanged")
