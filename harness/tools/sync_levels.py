import ast,subprocess,sys
# sync_levels.py Cxx : take LEVEL_TEXT / LEVEL_NOTE / TECHNIQUE from the committed version and put them into the working file
p=sys.argv[1]; path='/verif/harness/props/%s.py'%p
old=subprocess.run(['git','-C','/verif','show','HEAD:harness/props/%s.py'%p],stdout=subprocess.PIPE).stdout.decode()
want={}
for node in ast.parse(old).body:
    if isinstance(node,ast.Assign) and len(node.targets)==1 and isinstance(node.targets[0],ast.Name) and node.targets[0].id in ('LEVEL_TEXT','LEVEL_NOTE','TECHNIQUE'):
        want[node.targets[0].id]=ast.literal_eval(node.value)
src=open(path).read(); lines=src.split('\n'); edits=[]
for node in ast.parse(src).body:
    if isinstance(node,ast.Assign) and len(node.targets)==1 and isinstance(node.targets[0],ast.Name) and node.targets[0].id in want:
        edits.append((node.lineno-1,node.end_lineno,node.targets[0].id))
for a,b,name in sorted(edits,reverse=True):
    lines[a:b]=['%s = %r'%(name,want[name])]
open(path,'w').write('\n'.join(lines)); print(p,'synced',sorted(want))
