#!/bin/sh
# merge_st.sh Cxx : bring a strengthening agent's changes from /var/tmp/st-Cxx into /verif (harness files only), show what else changed
P=$1; S=/var/tmp/st-$P
cd /verif
for f in $(cd $S && git status --porcelain | awk '{print $2}' | grep -v '^evidence/\|^replays/\|^lean/.lake\|^lean/.audit'); do
  case "$f" in
    harness/props/$P.py|seeded/$P-5/*|seeded/$P-5/) mkdir -p $(dirname $f); cp -r $S/$f $(dirname $f)/ 2>/dev/null || cp $S/$f $f; echo "copied $f";;
    *) echo "OTHER CHANGE: $f";;
  esac
done
