import json,sys
a=json.load(open('/verif/harness/obligations.json')); b=json.load(open(sys.argv[1]))
for p,e in b.items():
    if p not in a: a[p]=e; continue
    am=a[p]["module"] if isinstance(a[p]["module"],list) else [a[p]["module"]]
    bm=e["module"] if isinstance(e["module"],list) else [e["module"]]
    for m in bm:
        if m not in am: am.append(m)
    a[p]["module"]=am
    for t in e["theorems"]:
        if t not in a[p]["theorems"]: a[p]["theorems"].append(t)
json.dump(a,open('/verif/harness/obligations.json','w'),indent=1)
print({p:len(e["theorems"]) for p,e in a.items()})
