#!/bin/sh
# seed_verify.sh <PROP> <worktree> [name]: confirm a seeded fault independently and file it under /verif/seeded/
PROP="$1"; WT="$2"; NAME="${3:-$PROP-1}"
D="$(cd "$(dirname "$0")/.." && pwd)"
OUT="$D/seeded/$NAME"
mkdir -p "$OUT"
cp "$WT/_out/patch.diff" "$WT/_out/demo.py" "$WT/_out/meta.json" "$OUT/" || exit 3
# the worktree is brought to exactly HEAD + patch.diff (authors working concurrently have been seen to disturb each other)
( cd "$WT" && git checkout -q -- src && git apply _out/patch.diff ) || { echo "patch.diff does not apply to the worktree's HEAD"; exit 3; }
S=/var/tmp/seedchk-$$
rm -rf $S; mkdir -p $S; cp -r /repo/src /repo/tests /repo/.git /repo/pytest.ini /repo/setup.cfg /repo/pyproject.toml $S/ 2>/dev/null
cd $S && git checkout -q -- . 2>/dev/null
mkdir -p _out; cp "$OUT/demo.py" _out/
echo "== demo on unchanged tree (worktree with the change stashed)"
# (no `git stash`: the stash is shared by all worktrees of a repository and concurrent authors collide)
( cd "$WT" && git diff -- src > $S.wt.diff && git apply -R $S.wt.diff && PYTHONPATH=$WT/src /venv/bin/python _out/demo.py >/dev/null 2>&1; echo "exit $?"; git apply $S.wt.diff; rm -f $S.wt.diff ) | tee "$OUT/demo_unchanged.txt"
git apply "$OUT/patch.diff" || { echo "patch does not apply"; rm -rf $S; exit 3; }
echo "== tests with patch"; PYTHONPATH=$S/src /venv/bin/python -m pytest -q -p no:cacheprovider 2>&1 | tail -1 | tee "$OUT/tests_with_patch.txt"
echo "== demo with patch (worktree as left by its author)"
( cd "$WT" && PYTHONPATH=$WT/src /venv/bin/python _out/demo.py >/dev/null 2>&1; echo "exit $?" ) | tee "$OUT/demo_patched.txt"
cd "$D"; rm -rf $S
echo "== check $PROP on patched tree"
harness/mutant.sh "$OUT/patch.diff" "$PROP" | grep -E "VIOLATION|tier=" | tee "$OUT/check_result.txt"
