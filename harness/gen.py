"""Generators: PHIL token soup, structured documents, mutations, value strings."""
import random

IDENTS = ["a", "b", "c", "ab", "s", "t", "foo", "bar", "x1", "_y", "a.b", "s.t.u", "include", "__r__", "None", "Auto"]
ATTRS_D = ["help", "caption", "short_caption", "optional", "type", "multiple", "input_size", "style",
           "expert_level", "deprecated", "alias"]
ATTRS_S = ["style", "help", "caption", "short_caption", "optional", "call", "multiple",
           "sequential_format", "disable_add", "disable_delete", "expert_level", "alias"]
TYPES = ["int", "float", "bool", "str", "qstr", "path", "key", "words", "strings", "choice",
         "choice(multi=True)", "ints", "floats", "ints(size=2)", "ints(size_min=1, size_max=3)",
         "floats(value_min=0.5, value_max=2)", "int(value_min=0)", "int(allow_none=False)",
         "float(value_max=1.5, allow_none=False)", "ints(allow_none_elements=True)",
         "floats(size=3, allow_auto_elements=True)", "foo", "int(1)", "int(bad=1)", "ints(size=0)",
         "int(value_min=3, value_max=1)", "None", "Auto"]
SOUP = ["a", "b", "s", "t", "x", "=", "=", "{", "}", ";", "#", "# c", "!", "!a", ".help", ".type", ".optional",
        ".multiple", ".expert_level", ".foo", "!.help", "\\", "\\\n", "\n", "\n", " ", "  ", "\t", "'", '"', "'''", '"""',
        "'q'", '"q r"', "1", "2.5", "True", "no", "None", "Auto", "int", "$a", "$(a.b)", "*x", "x+y",
        "%", "%s", "a%b", "#phil", "#phil __OFF__", "#phil __ON__", "#phil __END__", "__ON__", "include", "file", "a.b", ".", "..", "a.", "\\\\", "\\'", "\\\"", "é", " ", "\xa0"]


def soup(rng, n=None):
    n = n if n is not None else rng.randint(0, 14)
    parts = []
    for _ in range(n):
        parts.append(rng.choice(SOUP))
        if rng.random() < 0.5:
            parts.append(rng.choice([" ", " ", "\n", ""]))
    return "".join(parts)


def mutate(rng, text):
    if not text:
        return text
    k = rng.randint(0, 5)
    i = rng.randrange(len(text))
    j = min(len(text), i + rng.randint(1, 4))
    if k == 0:
        return text[:i] + text[j:]
    if k == 1:
        return text[:i] + text[i:j] + text[i:]
    if k == 2 and j < len(text):
        return text[:i] + text[j:j + 1] + text[i:j] + text[j + 1:]
    if k == 3:
        return text[:i]
    if k == 4:
        return text[:i] + rng.choice(SOUP) + text[i:]
    return text[:i] + rng.choice(["'", '"', "{", "}", ";", "=", "\n", "\\", "#", "!", "."]) + text[j:]


WORD_CHARS = "abcxyz019_.-+*/,:()[]<>@%&|^~?"


def plain_word(rng):
    n = rng.randint(1, 6)
    w = "".join(rng.choice(WORD_CHARS) for _ in range(n))
    if w in ("\\",):
        w = "w"
    return w


QCLASSES = ["'", '"', "\\", "\n", " ", "$", "#", "{", "}", ";", "=", "a", "b", "é"]


def qstring(rng, maxlen=8):
    return "".join(rng.choice(QCLASSES) for _ in range(rng.randint(0, maxlen)))


def pyquote(q, s):
    return q + s.replace("\\", "\\\\").replace(q[0], "\\" + q[0]) + q


def value_word(rng, allow_multiline=True):
    r = rng.random()
    if r < 0.55:
        return plain_word(rng)
    q = rng.choice(["'", '"', "'''", '"""'])
    s = qstring(rng)
    if not allow_multiline:
        s = s.replace("\n", " ")
    return pyquote(q, s)


def help_text(rng):
    n = rng.randint(1, 25)
    ws = []
    for _ in range(n):
        r = rng.random()
        if r < 0.7:
            ws.append("".join(rng.choice("abcdefgh-") for _ in range(rng.randint(1, 9))))
        elif r < 0.8:
            ws.append("w" * rng.randint(20, 60))
        elif r < 0.9:
            ws.append(rng.choice(['"', "'", "\\", "a\\b", 'q"r', "#", "$x", "{", ";"]))
        else:
            ws.append(rng.choice(["None", "Auto", "none", "x y", "1", "a_b", "it's"]))
    sep = rng.choice([" ", " ", "  ", "\n"])
    return sep.join(ws)


def attr_value(rng, name):
    if name in ("optional", "multiple", "disable_add", "disable_delete"):
        return rng.choice(["True", "False", "yes", "no", "on", "off", "1", "0", "None", "Auto", "true", "maybe", "TRUE"])
    if name in ("input_size", "expert_level"):
        return rng.choice(["0", "1", "2", "3", "4", "10", "-1", "None", "+2", "007", "x", "True", "Auto"])
    if name == "type":
        return rng.choice(TYPES)
    if name == "call":
        return "None"
    if name == "sequential_format":
        return rng.choice(["None", "abc", "%d", "x%dy", "%s%s", "Auto", "%", "%(a)s", "'%03d'"])
    t = help_text(rng) if rng.random() < 0.6 else rng.choice(["abc", "None", "Auto", "x y", "a_b", "1"])
    r = rng.random()
    if r < 0.5:
        return pyquote('"', t)
    if r < 0.6:
        return pyquote("'", t)
    # unquoted words on one line
    ws = [w for w in t.replace("\n", " ").split(" ") if w and w[0] not in "'\"" and w not in ("\\", "{", "}", ";", "#")
          and not any(ch in w for ch in "{};")]
    return " ".join(ws) if ws else "x"


class DocGen:
    """Structured PHIL documents with random layout."""

    def __init__(self, rng, depth=3, attrs=True, layout=True, names=None):
        self.rng = rng
        self.depth = depth
        self.attrs = attrs
        self.layout = layout
        self.names = names or ["a", "b", "c", "d", "s", "t", "u", "foo", "bar_1"]

    def sp(self):
        if not self.layout:
            return " "
        return self.rng.choice([" ", " ", " ", "  ", "\t", ""])

    def nl(self):
        r = self.rng
        if not self.layout:
            return "\n"
        k = r.random()
        if k < 0.6:
            return "\n"
        if k < 0.7:
            return "\n\n"
        if k < 0.8:
            return " # comment text\n"
        if k < 0.85:
            return "\n# a full line comment { ; =\n"
        if k < 0.9:
            return ";"
        if k < 0.95:
            return " ;\n"
        return "\n  \n"

    def name(self, dotted=True):
        r = self.rng
        n = r.choice(self.names)
        if dotted and r.random() < 0.2:
            n = n + "." + r.choice(self.names)
            if r.random() < 0.3:
                n = n + "." + r.choice(self.names)
        return n

    def words(self):
        r = self.rng
        n = r.choice([1, 1, 1, 2, 2, 3, 5, 12])
        ws = [value_word(r) for _ in range(n)]
        out = ws[0]
        multiline = "\n" in ws[0]
        for w in ws[1:]:
            quoted = w[0] in "'\""
            k = r.random()
            if multiline and not quoted:
                continue  # an unquoted word cannot follow a multi-line quoted word
            if self.layout and k < 0.1 and not multiline:
                out += " \\\n  " + w
            elif self.layout and k < 0.2 and quoted:
                out += "\n    " + w
                multiline = True  # later words are on another line than the first
            else:
                out += " " + w
            if "\n" in w:
                multiline = True
        return out

    def attr_lines(self, names, indent):
        r = self.rng
        out = ""
        if not self.attrs:
            return out
        for _ in range(r.choice([0, 0, 0, 1, 1, 2, 3])):
            n = r.choice(names)
            bang = "!" if r.random() < 0.08 else ""
            out += indent + "  " + bang + "." + n + self.sp() + "=" + self.sp() + attr_value(r, n) + self.nl()
        return out

    def objects(self, depth, indent=""):
        r = self.rng
        out = ""
        for _ in range(r.choice([0, 1, 1, 2, 2, 3, 4])):
            bang = "!" if r.random() < 0.1 else ""
            if depth > 0 and r.random() < 0.35:
                n = self.name()
                out += indent + bang + n
                attrs = self.attr_lines(ATTRS_S, indent)
                if attrs:
                    out += "\n" + attrs + indent + "{" + self.nl()
                else:
                    out += self.sp() + "{" + self.rng.choice(["\n", " ", ""])
                out += self.objects(depth - 1, indent + "  ")
                out += indent + "}" + self.nl()
            else:
                n = self.name()
                out += indent + bang + n + self.sp() + "=" + self.sp() + self.words() + self.nl()
                out += self.attr_lines(ATTRS_D, indent)
            if self.layout and r.random() < 0.04:
                out += "#phil __OFF__\n junk { ' \n#phil __ON__\n"
        return out

    def doc(self):
        return self.objects(self.depth)
