#!/venv/bin/python
"""Validation of `treeMultiFetch` on `denoteDoc` documents (masters with `.multiple` definitions,
sources with $variables) against the real freephil."""
import os, random, re, subprocess, sys, warnings, json
warnings.filterwarnings("ignore")
sys.path.insert(0, "/repo/src")
import freephil

N = int(sys.argv[1]) if len(sys.argv) > 1 else 400
SEED = int(sys.argv[2]) if len(sys.argv) > 2 else 1
rnd = random.Random(SEED)

NAMES = ["a", "b", "c", "d", "s", "t", "u"]
VARNAMES = NAMES + ["q", "q", "q", "r", "r", "s.q", "s.a", "s.b", "t.a", "s.t.a", ".a", ".s.a", "HOME_X", "zz", "s.t", "t"]

def gen_master(depth=0):
    """tree master: defs and non-multiple scopes, distinct names"""
    names = rnd.sample(NAMES, rnd.randint(1, 5))
    out = []
    for n in names:
        if n in ("s", "t", "u") and depth >= 2:
            continue
        if n in ("s", "t", "u") and rnd.random() < 0.96:
            out.append((n, gen_master(depth + 1)))
        else:
            out.append((n, rnd.choice(["1", "None", "x y", "0"])))
    return out

def show_master(m, ind=0):
    s = ""
    for n, v in m:
        if isinstance(v, list):
            s += " " * ind + n + " {\n" + show_master(v, ind + 2) + " " * ind + "}\n"
        else:
            s += " " * ind + n + " = " + v + "\n" + (" " * ind + ".multiple = True\n" if rnd.random() < 0.55 else "")
    return s

def gen_word():
    r = rnd.random()
    v = rnd.choice(VARNAMES)
    if r < 0.30:
        return rnd.choice(["1", "2", "xy", "None", "k"])
    if r < 0.55:
        return "$" + v if "." not in v or rnd.random() < 0.3 else "$(" + v + ")"
    if r < 0.65:
        return "$(" + v + ")"
    if r < 0.72:
        return "pre$(" + v + ")post"
    if r < 0.78:
        return '"q $' + rnd.choice(NAMES + ["q", "r"]) + ' r"'
    if r < 0.83:
        return "'lit $" + rnd.choice(NAMES) + "'"
    if r < 0.88:
        return "$" + rnd.choice(NAMES) + "$" + rnd.choice(NAMES)
    if r < 0.91:
        return '"$' + rnd.choice(NAMES) + '"'
    if r < 0.93:
        return rnd.choice(["$", "$(a", "$(1a)", "x$", "$1", "\\$a", "a\\$b$c"])
    return rnd.choice(["7", "$" + rnd.choice(NAMES)])

def gen_src(depth=0, n=None):
    s = ""
    if depth == 0 and rnd.random() < 0.5:
        s += rnd.choice(["q = 1 2\n", "q = k\nr = $q \"m $q\"\n", "s.q = 5\nq = $(s.q)\n", "q = 1\nq = 2\nr = $q\nq = 3\n", "r = 0\n!q = 1\n"])
    k = rnd.randint(1, 5) if n is None else n
    for _ in range(k):
        r = rnd.random()
        bang = "!" if rnd.random() < 0.08 else ""
        if r < 0.22 and depth < 2:
            nm = rnd.choice(["s", "t", "u", "s.t"] + (["a"] if rnd.random() < 0.05 else []))
            s += bang + nm + " {\n" + gen_src(depth + 1, rnd.randint(0, 3)) + "}\n"
        else:
            nm = rnd.choice(["a", "b", "c", "d"] if rnd.random() < 0.7 else ["s.a", "s.b", "t.a", "s.t.a", "u.b", "q", "q", "r", "r", "q", "s.q"] + (["s", "t"] if rnd.random() < 0.1 else []))
            ws = " ".join(gen_word() for _ in range(rnd.randint(1, 3)))
            s += bang + nm + " = " + ws + "\n"
    return s

def classify(msg):
    line = None
    m = re.search(r"\(input line (\d+)\)", msg)
    if m:
        line = int(m.group(1))
    if msg.startswith("Undefined variable"):
        return "undefined_variable", line
    if msg.startswith("Not a definition"):
        return "not_a_definition", line
    if msg.startswith("Incompatible parameter objects"):
        return "incompatible", None
    if "$ must be followed by an identifier" in msg:
        return "dollar_identifier", line
    if 'missing ")"' in msg:
        return "missing_paren", line
    if "improper variable name" in msg:
        return "improper_variable_name", line
    return "OTHER:" + msg, line

def run_py(mt, srcs, env):
    for k in list(os.environ):
        if k in ("HOME_X",) or k in NAMES or k in ("zz",):
            del os.environ[k]
    for k, v in env:
        os.environ[k] = v
    try:
        master = freephil.parse(mt)
        sources = [freephil.parse(s) for s in srcs]
    except Exception as e:
        return None
    try:
        res, unused = master.fetch(sources=sources, track_unused_definitions=True)
    except RuntimeError as e:
        site, line = classify(str(e))
        return "ERR|%s|%s" % (site, "-" if line is None else line)
    finally:
        for k, v in env:
            os.environ.pop(k, None)
    vals = []
    for d in res.all_definitions():
        ws = ",".join((w.quote_token or "_") + w.value for w in d.object.words)
        vals.append(d.path + "=" + ws)
    un = ",".join(str(u.path) for u in unused)
    mp = set(d.path for d in master.all_definitions())
    naive = sum(1 for so in sources for d in so.all_definitions() if d.path not in mp)
    global BYREF, SUBST
    if naive > len(unused): BYREF += 1
    if any(d.object.words and any("$" in w.value and w.quote_token != "'" for w in d.object.words) for so in sources for d in so.all_definitions() if d.path in mp): SUBST += 1
    return "OK|" + ";".join(vals) + "|" + un

def lean_str(s):
    return '"' + s.replace("\\", "\\\\").replace('"', '\\"').replace("\n", "\\n") + '"'

BYREF = 0
SUBST = 0
cases = []
while len(cases) < N:
    mt = show_master(gen_master())
    srcs = [gen_src() for _ in range(rnd.choice([1, 1, 2, 3]))]
    env = []
    pe = rnd.choice([0.2, 0.5, 0.9])
    for k in ["HOME_X", "zz", "a", "b", "c", "d", "s", "t", "s.a", "t.a"]:
        if rnd.random() < pe:
            env.append((k, rnd.choice(["E1", "e two", ""])))
    py = run_py(mt, srcs, env)
    if py is None:
        continue
    cases.append((mt, srcs, env, py))

with open("/var/tmp/pc6/lean/ValCases.lean", "w") as f:
    f.write("import Phil.Proofs.FetchVars2\nimport Phil.Props.C06\nopen Phil Phil.C12 Phil.C06\n")
    f.write(open("/var/tmp/pc6/harness/extra/fetchvars3_valhead.lean").read())
    f.write("def cases : List (String × List String × List (String × String)) := [\n")
    f.write(",\n".join("  (%s, [%s], [%s])" % (lean_str(mt), ", ".join(lean_str(s) for s in srcs),
            ", ".join("(%s, %s)" % (lean_str(k), lean_str(v)) for k, v in env)) for mt, srcs, env, _ in cases))
    f.write("\n]\n#eval do\n  for c in cases do\n    IO.println (\"@@\" ++ runCase c.1 c.2.1 c.2.2)\n")

out = subprocess.run("cd /var/tmp/pc6/lean && lake env lean ValCases.lean", shell=True, capture_output=True, text=True)
os.remove("/var/tmp/pc6/lean/ValCases.lean")
# a result may contain newlines only through env values; we use none with newlines
lines = out.stdout.split("@@")[1:]
lines = [l.rstrip("\n") for l in lines]
if len(lines) != len(cases):
    print("Lean output mismatch", len(lines), len(cases)); print(out.stdout[-3000:]); print(out.stderr[-3000:]); sys.exit(2)
bad = 0
stats = {"OK": 0, "ERR": 0}
sites = {}
nvars = 0
for (mt, srcs, env, py), ln in zip(cases, lines):
    stats[py[:2] if py.startswith("OK") else "ERR"] += 1
    if py.startswith("ERR"):
        sites[py.split("|")[1]] = sites.get(py.split("|")[1], 0) + 1
    if py != ln:
        bad += 1
        if bad <= 5:
            print("MISMATCH\nmaster:\n%s\nsources: %r\nenv: %r\npy : %s\nlean: %s\n" % (mt, srcs, env, py, ln))
print("cases", len(cases), "mismatches", bad, stats, sites, "ok-with-consumed-by-reference", BYREF, "ok-with-substituted-consumed-def", SUBST)
