#!/venv/bin/python
"""Validation of `fetch_env_independent` (Props/C12Fetch2.lean) on the real freephil: if
master.fetch(sources) succeeds with none of the variable names in os.environ, it gives the same
result (values with quote tokens, unused list) under random environments defining those names."""
import os, random, re, sys, warnings
warnings.filterwarnings("ignore")
sys.path.insert(0, "/repo/src")
src = open(os.path.join(os.path.dirname(__file__), "fetchvars_val.py")).read()
head = src[:src.index("def lean_str")]
head = head.replace('N = int(sys.argv[1]) if len(sys.argv) > 1 else 400', 'N = int(sys.argv[1]) if len(sys.argv) > 1 else 600')
BYREF = 0
SUBST = 0
exec(head)
ENVNAMES = ["HOME_X", "zz", "a", "b", "c", "d", "s", "t", "u", "q", "r", "s.a", "s.b", "s.q", "t.a", "s.t.a", "s.t"]
def run_env(mt, srcs, env):
    for k in ENVNAMES:
        os.environ.pop(k, None)
    r = run_py(mt, srcs, env)
    for k in ENVNAMES:
        os.environ.pop(k, None)
    return r
n_ok = n_err = n_bad = n_changed_when_err = n_usesvar = 0
tot = 0
while tot < N:
    mt = show_master(gen_master())
    srcs = [gen_src() for _ in range(rnd.choice([1, 1, 2, 3]))]
    base = run_env(mt, srcs, [])
    if base is None:
        continue
    tot += 1
    envs = []
    for _ in range(3):
        pe = rnd.choice([0.3, 0.6, 1.0])
        envs.append([(k, rnd.choice(["E1", "e two", ""])) for k in ENVNAMES if rnd.random() < pe])
    outs = [run_env(mt, srcs, e) for e in envs]
    if base.startswith("OK"):
        n_ok += 1
        if any("$" in s for s in srcs): n_usesvar += 1
        for e, o in zip(envs, outs):
            if o != base:
                n_bad += 1
                if n_bad <= 5:
                    print("VIOLATION\nmaster:\n%s\nsources: %r\nenv: %r\nempty: %s\nenv  : %s\n" % (mt, srcs, e, base, o))
    else:
        n_err += 1
        if any(o != base for o in outs): n_changed_when_err += 1
print("cases", tot, "ok-with-empty-env", n_ok, "(with $ in sources:", n_usesvar, ") violations", n_bad,
      "| failing-with-empty-env", n_err, "of which outcome changes under some env", n_changed_when_err)
