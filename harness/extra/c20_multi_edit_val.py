import random, sys, warnings
warnings.filterwarnings("ignore")
import freephil
from freephil import interface
rnd = random.Random(int(sys.argv[1]) if len(sys.argv)>1 else 1)
VALS = ["a","b","c","d"]
def gen_master(depth, names):
    out=[]; defs=[]
    for n in names:
        k = rnd.random()
        if depth<2 and k<0.35:
            sub, sd = gen_master(depth+1, rnd.sample(["p","q","r","s"], rnd.randint(1,3)))
            out.append("%s {\n%s}\n" % (n, sub)); defs += [(n+"."+p, m, dv) for p,m,dv in sd]
        else:
            mult = rnd.random()<0.5
            dv = rnd.choice(VALS)
            out.append("%s = %s\n  .type = str\n%s" % (n, dv, "  .multiple = True\n" if mult else ""))
            defs.append((n, mult, dv))
    return "".join(out), defs
def dedup_last(xs):
    out=[]
    for i,x in enumerate(xs):
        if x not in xs[i+1:]: out.append(x)
    return out
def insts(w, path):
    segs = path.split(".")
    objs = [w]
    for s in segs[:-1]:
        objs = [k for o in objs for k in o.objects if k.name==s and k.is_scope]
    return [(k.is_template, k.words[0].value) for o in objs for k in o.objects if k.name==segs[-1] and k.is_definition]
n=0; bad=0
for it in range(400):
    mt, defs = gen_master(0, rnd.sample(["g","h","n","m","k"], rnd.randint(1,4)))
    m = freephil.parse(mt)
    idx = interface.index(master_phil=m)
    for step in range(4):
        k = rnd.randint(1,4)
        chosen = [rnd.choice(defs) for _ in range(k)]
        lines = ["%s%s = %s" % ("!" if rnd.random()<0.1 else "", p, rnd.choice(VALS)) for p,_,_ in chosen]
        edit = "\n".join(lines)+"\n"
        before = {p: insts(idx.working_phil, p) for p,_,_ in defs}
        idx.update(edit)
        s1 = idx.working_phil.as_str()
        after = {p: insts(idx.working_phil, p) for p,_,_ in defs}
        ment = set(l.lstrip("!").split(" = ")[0] for l in lines)
        for p,mult,dv in defs:
            ev = [l.split(" = ")[1] for l in lines if l.split(" = ")[0]==p]
            if mult and p in ment:
                exp = dedup_last([v for v in ev if v!=dv])
                got = [v for t,v in after[p] if t==0]
                ok = (got==exp) and after[p][0][1]==dv and after[p][0][0]==(1 if not exp else -1)
            elif mult:
                ok = after[p]==before[p]
            else:
                ok = after[p]==[(0, ev[-1] if ev else before[p][0][1])]
            n+=1
            if not ok:
                bad+=1; print("MISMATCH", repr(mt), repr(edit), p, before[p], after[p])
        idx.update(edit)
        if idx.working_phil.as_str()!=s1:
            bad+=1; print("NOT IDEMPOTENT", repr(mt), repr(edit))
print("checks", n, "bad", bad)
