
def offVarRes (k : Nat) : Option VarRes → Option VarRes
  | some (.ok ws refs) => some (.ok ws (refs.map (· + k)))
  | v => v

partial def offIds (k : Nat) : Obj → Obj
  | .defn m ws => .defn { m with id := m.id.map (· + k), varRes := offVarRes k m.varRes } ws
  | .scope m kids => .scope { m with id := m.id.map (· + k) } (kids.map (offIds k))

def qStr : Option Quote → String
  | none => "_"
  | some .s1 => "'"
  | some .d1 => "\""
  | some .s3 => "'''"
  | some .d3 => "\"\"\""

def envOf (l : List (String × String)) : Env := fun n => (l.find? (fun p => p.1.toList == n)).map (·.2.toList)

def runCase (mt : String) (srcs : List String) (env : List (String × String)) : String :=
  match parseObjs mt.toList, srcs.mapM (fun s => parseObjs s.toList) with
  | .ok m, .ok docs =>
    let ann := (docs.zipIdx.map fun (d, i) => (denoteDoc (envOf env) false d).map (offIds (1000000 * (i + 1))))
    let flat := ann.flatten
    match treeMultiFetch env12 { name := [], id := some 0 } m flat with
    | .error (.runtime site line) => "ERR|" ++ site ++ "|" ++ (match line with | some l => toString l | none => "-")
    | .error _ => "ERR|other"
    | .ok (ro, used) =>
      let vals := (allDefinitions ro.children).map fun x =>
        String.ofList x.1 ++ "=" ++ ",".intercalate (x.2.2.map fun w => qStr w.quote ++ String.ofList w.value)
      let un := (unusedOf flat used).map fun x => String.ofList x.1
      "OK|" ++ ";".intercalate vals ++ "|" ++ ",".intercalate un
  | _, _ => "PARSEFAIL"

