"""Shared plumbing of the correspondence harness: locating the tree under check, the wire codec,
the Lean driver process, canonical forms of real freephil objects and error classification."""
import json
import os
import re
import subprocess
import sys
import warnings

VERIF = os.path.dirname(os.path.dirname(os.path.abspath(__file__)))
REPO = os.environ.get("VERIF_REPO", "/repo")
SRC = os.path.join(REPO, "src")
if SRC not in sys.path:
    sys.path.insert(0, SRC)
warnings.filterwarnings("ignore")
import freephil  # noqa: E402

assert os.path.realpath(freephil.__file__).startswith(os.path.realpath(SRC) + os.sep), (
    "freephil imported from %s, not from %s" % (freephil.__file__, SRC)
)
from freephil import tokenizer  # noqa: E402
warnings.filterwarnings("ignore")  # freephil re-enables its deprecation warnings on import

DRV = os.environ.get("VERIF_DRV") or os.path.join(os.environ.get("VERIF_LEAN") or os.path.join(VERIF, "lean"), ".lake", "build", "bin", "drv")
AutoT = type(freephil.Auto)


def enc(s):
    return "".join("x%x" % ord(c) for c in s)


def dec(s):
    return "".join(chr(int(p, 16)) for p in s.split("x")[1:])


def run_model(requests, chunk=20000):
    """Send requests (python lists) to the Lean driver, return decoded answers in order."""
    answers = []
    for i in range(0, len(requests), chunk):
        part = requests[i : i + chunk]
        data = "".join(json.dumps(r) + "\n" for r in part)
        p = subprocess.run([DRV], input=data.encode(), stdout=subprocess.PIPE, stderr=subprocess.PIPE)
        if p.returncode != 0:
            raise RuntimeError("driver failed: %s" % p.stderr.decode()[-500:])
        lines = p.stdout.decode().splitlines()
        if len(lines) != len(part):
            raise RuntimeError("driver answered %d lines for %d requests" % (len(lines), len(part)))
        answers.extend(json.loads(l) for l in lines)
    return answers


# ------------------------------------------------------------------ canonical forms

# where_str suffix: " (input line N)" or " (<source_info>, line N)"; "(<string>, line N)" is CPython's own
# SyntaxError text, not a PHIL source position
_line_re = re.compile(r"\((?!<string>, |<unknown>, )(?:[^()]*, )?(?:input )?line (\d+)\)\s*$")


def line_of(where_str):
    if not where_str:
        return None
    m = _line_re.search(where_str)
    return int(m.group(1)) if m else None


def quote_tag(q):
    return {None: None, "'": "s1", '"': "d1", "'''": "s3", '"""': "d3"}[q]


def word_j(w):
    return [enc(w.value), quote_tag(w.quote_token), w.line_number]


def attr_j(v):
    if v is None:
        return None
    if isinstance(v, AutoT):
        return ["auto"]
    if isinstance(v, bool):
        return ["b", v]
    if isinstance(v, int):
        return ["i", v]
    if isinstance(v, str):
        return ["s", enc(v)]
    if hasattr(v, "phil_type"):
        try:
            return ["t", enc(str(v))]
        except Exception as e:       # a type object that cannot print itself: an observation, not a harness crash
            return ["t_unprintable", type(e).__name__]
    return ["other", type(v).__name__]


def obj_j(o, with_ids=True, with_lines=True):
    attrs = [attr_j(getattr(o, n)) for n in o.attribute_names]
    head = [
        "d" if o.is_definition else "s",
        enc(o.name),
        o.primary_id if with_ids else None,
        bool(o.is_disabled),
        line_of(o.where_str) if with_lines else None,
        bool(o.merge_names),
        o.is_template,
        attrs,
    ]
    if o.is_definition:
        head.append([word_j(w) for w in o.words])
    else:
        head.append([obj_j(c, with_ids, with_lines) for c in o.objects])
    return head


_sites = [
    ("Syntax error: missing closing quote", "missing_closing_quote"),
    ("Unexpected end of input.", "unexpected_end"),
    ("Unquoted word expected", "unquoted_expected"),
    ("Unknown: #phil", "unknown_phil"),
    ('Syntax error: unexpected "{"', "unexpected_open_brace"),
    ("Syntax error: unexpected ", "unexpected"),
    ("Syntax error: improper scope name", "improper_scope_name"),
    ("Syntax error: improper definition name", "improper_definition_name"),
    ("Syntax error: improper variable name", "improper_variable_name"),
    ("Syntax error: $ must be followed", "dollar_identifier"),
    ('Syntax error: missing ")"', "missing_paren"),
    ("Syntax error: expected ", "expected"),
    ("Unexpected scope attribute:", "unexpected_scope_attribute"),
    ("Unexpected definition attribute:", "unexpected_definition_attribute"),
    ("Missing value for", "missing_value"),
    ("Syntax error: no matching", "no_matching_brace"),
    ("Syntax error: missing", "no_matching_brace"),
    ("Reserved identifier:", "reserved"),
    ("One True or False value expected", "bool_expected"),
    ("Error constructing definition type", "type_construct"),
    ("Unexpected definition type", "type_unexpected"),
    ("Error evaluating definition type", "type_eval"),
    ("Undefined variable:", "undefined_variable"),
    ("Not a definition:", "not_a_definition"),
    ("Include dependency cycle", "include_cycle"),
    ('"include" must be followed by at least two arguments', "include_two_arguments"),
    ('"include file" must be followed exactly one argument', "include_file_one_argument"),
    ('"include scope" must be followed one or two arguments', "include_scope_arguments"),
    ('include scope: path "', "include_scope_not_found"),
    ("Unknown include type:", "unknown_include_type"),
    ("Duplicate definitions in master", "duplicate_master"),
    ("Incompatible parameter objects", "incompatible"),
    ("Too many values for", "too_many"),
    ("Not enough values for", "not_enough"),
    ("Multiple choices for", "choice_multiple"),
    ("Unspecified choice for", "choice_unspecified"),
    ("Improper master choice definition", "improper_master_choice"),
    ("Invalid choice", "invalid_choice"),
    ("Empty list for mandatory", "empty_mandatory_choice"),
]
_contains = [
    (" element is less than the minimum allowed value", "value_min"),
    (" element is greater than the maximum allowed value", "value_max"),
    (" element cannot be None", "element_none"),
    (" element cannot be Auto", "element_auto"),
    (" cannot be None", "cannot_be_none"),
]
_num_site = re.compile(r"^Error interpreting .* as a(n)? (numeric|integer|floating-point) expression", re.S)
_brace_line = re.compile(r'for "\{" at (?:[^,]*, )?(?:input )?line (\d+)$')


def classify_runtime(msg):
    """(site, line) of a RuntimeError message"""
    site = "other"
    for prefix, s in _sites:
        if msg.startswith(prefix):
            site = s
            break
    else:
        m = _num_site.match(msg)
        if m:
            site = {"numeric": "numeric_expected", "integer": "integer_expected",
                    "floating-point": "float_expected"}[m.group(2)]
        else:
            for sub, s2 in _contains:
                if sub in msg:
                    site = s2
                    break
    if site == "incompatible":
        return site, None
    if site == "no_matching_brace":
        m = _brace_line.search(msg)
        return site, (int(m.group(1)) if m else None)
    m = _line_re.search(msg)
    return site, (int(m.group(1)) if m else None)


def err_j(e):
    """canonical form of an exception raised by the implementation"""
    if isinstance(e, freephil.Sorry):
        return ["err", "sorry", str(e)]
    if type(e) is RuntimeError:
        site, line = classify_runtime(str(e))
        return ["err", "runtime", site, line]
    return ["err", "stray", type(e).__name__, str(e)[:200]]


def call_j(f, okf=lambda x: x):
    """run f(), return ['ok', okf(result)] or the canonical error"""
    try:
        r = f()
    except BaseException as e:  # noqa: BLE001  (Sorry is a SystemExit)
        if isinstance(e, (KeyboardInterrupt, MemoryError)):
            raise
        return err_j(e)
    return ["ok", okf(r)]


def _eq_mod_unsupported(m, i):
    """equality in which a part the model declines to answer (`["unsupported", why]`, e.g. the extracted values of a
    fetch whose value text has no eval answer) matches anything"""
    if isinstance(m, list) and len(m) == 2 and m[0] == "unsupported" and isinstance(m[1], str):
        return True
    if isinstance(m, list) and isinstance(i, list):
        return len(m) == len(i) and all(_eq_mod_unsupported(x, y) for x, y in zip(m, i))
    return m == i


def same_outcome(model, impl, compare_site=True):
    """compare a model answer with an implementation answer; None = skip (unsupported)"""
    if isinstance(model, list) and model and model[0] == "unsupported":
        return None
    if isinstance(model, list) and len(model) == 2 and model[0] == "type-failed":
        return None if model[1] and model[1][0] == "unsupported" else False
    if isinstance(model, list) and len(model) == 2 and model[0] == "parse-failed":
        if model[1] and model[1][0] == "unsupported":
            return None
        return False  # the harness only sends texts the implementation parsed
    if model[0] == "ok" or impl[0] == "ok":
        return _eq_mod_unsupported(model, impl)
    # both errors
    if model[1] != impl[1]:
        return False
    if model[1] == "runtime":
        if compare_site and model[2] != impl[2]:
            return False
        return model[3] == impl[3]
    if model[1] == "stray":
        return model[2] == impl[2]
    return True
