"""Source-drift detector (DESIGN §4, step 1b).  The Lean model was written by hand against particular
Python functions.  For every property this module knows which source files the model of that property
mirrors; `fingerprints()` computes a layout- and comment-independent fingerprint (hash of `ast.dump`
without positions and docstrings) of every function / method in those files, and `drift(prop)` lists the
functions whose fingerprint differs from the committed record `source_fingerprints.json` (taken when
model and code were last validated against each other, see `--record`).

Drift is NEVER an alarm: a harmless rewrite changes fingerprints too.  It only tells the runner that the
code under the model has changed since the tie was last established, and the runner then spends the
budget of the failing-input search on a second, deeper correspondence + oracle pass with a fresh seed
(the same pass it runs after a broken obligation).  Usage:  fingerprint.py --record | --show [PROP]"""
import ast
import hashlib
import json
import os
import sys

HERE = os.path.dirname(os.path.abspath(__file__))
RECORD = os.path.join(HERE, "source_fingerprints.json")

ALL = ["common.py", "converters.py", "tokenizer.py", "tokens.py", "parser.py", "command_line.py", "interface.py"]
CORE = ["common.py", "converters.py", "tokenizer.py", "tokens.py", "parser.py"]
FILES = {
    "C01": CORE, "C02": ["tokenizer.py", "tokens.py", "parser.py", "common.py", "converters.py"],
    "C03": ["tokenizer.py", "tokens.py", "parser.py"],
    "C04": CORE, "C05": CORE, "C06": CORE, "C07": CORE, "C08": CORE + ["cli.py", "interface.py"],
    "C09": CORE, "C10": CORE, "C11": CORE, "C12": CORE, "C13": CORE,
    "C14": CORE + ["command_line.py"], "C15": CORE, "C16": ALL, "C17": ALL, "C18": CORE,
    "C19": CORE, "C20": CORE + ["interface.py"],
}


def _strip_doc(node):
    body = getattr(node, "body", None)
    if isinstance(body, list) and body and isinstance(body[0], ast.Expr) and isinstance(getattr(body[0], "value", None), ast.Constant) \
            and isinstance(body[0].value.value, str):
        node.body = body[1:] or [ast.Pass()]


def _funcs(tree, prefix=""):
    for node in tree.body if hasattr(tree, "body") else []:
        if isinstance(node, (ast.FunctionDef, ast.AsyncFunctionDef)):
            yield prefix + node.name, node
            yield from _funcs(node, prefix + node.name + ".")
        elif isinstance(node, ast.ClassDef):
            yield from _funcs(node, prefix + node.name + ".")


def fingerprints(repo=None, files=ALL + ["cli.py"]):
    repo = repo or os.environ.get("VERIF_REPO", "/repo")
    out = {}
    for name in files:
        path = os.path.join(repo, "src", "freephil", name)
        try:
            tree = ast.parse(open(path).read())
        except (OSError, SyntaxError) as e:
            out[name + ":<file>"] = "unreadable: %s" % type(e).__name__
            continue
        seen = {}
        module_level = []
        for node in tree.body:
            if not isinstance(node, (ast.FunctionDef, ast.AsyncFunctionDef, ast.ClassDef)):
                module_level.append(ast.dump(node, include_attributes=False))
        out[name + ":<module>"] = hashlib.blake2b("\n".join(module_level).encode(), digest_size=8).hexdigest()
        for qual, node in _funcs(tree):
            for sub in ast.walk(node):
                _strip_doc(sub)
            # nested functions are fingerprinted on their own as well; the parent's dump includes them, which is intended
            k = seen.get(qual, 0)
            seen[qual] = k + 1
            key = "%s:%s" % (name, qual if k == 0 else "%s#%d" % (qual, k))
            out[key] = hashlib.blake2b(ast.dump(node, include_attributes=False).encode(), digest_size=8).hexdigest()
        # class-level statements (attribute tables such as `attribute_names`, __slots__)
        for node in ast.walk(tree):
            if isinstance(node, ast.ClassDef):
                stmts = [ast.dump(s, include_attributes=False) for s in node.body
                         if not isinstance(s, (ast.FunctionDef, ast.AsyncFunctionDef, ast.ClassDef))
                         and not (isinstance(s, ast.Expr) and isinstance(getattr(s, "value", None), ast.Constant))]
                out["%s:%s.<class>" % (name, node.name)] = hashlib.blake2b("\n".join(stmts).encode(), digest_size=8).hexdigest()
    return out


def drift(prop, repo=None):
    """(changed, note): names of functions in the files mirrored by `prop`'s model whose fingerprint differs from the record"""
    if not os.path.exists(RECORD):
        return [], "no fingerprint record committed"
    rec = json.load(open(RECORD))
    files = FILES.get(prop, ALL)
    now = fingerprints(repo, files)
    old = {k: v for k, v in rec["fingerprints"].items() if k.split(":")[0] in files}
    changed = sorted(k for k in set(now) | set(old) if now.get(k) != old.get(k))
    return changed, "record taken at repo commit %s" % rec.get("repo_commit", "?")


if __name__ == "__main__":
    if "--record" in sys.argv:
        import subprocess
        repo = os.environ.get("VERIF_REPO", "/repo")
        head = subprocess.run(["git", "-C", repo, "rev-parse", "--short", "HEAD"], stdout=subprocess.PIPE).stdout.decode().strip()
        dirty = subprocess.run(["git", "-C", repo, "status", "--porcelain", "--", "src"], stdout=subprocess.PIPE).stdout.decode().strip()
        if dirty:
            print("refusing to record: %s/src has uncommitted changes" % repo)
            sys.exit(1)
        fp = fingerprints(repo)
        json.dump({"repo_commit": head, "fingerprints": fp}, open(RECORD, "w"), indent=0, sort_keys=True)
        print("recorded %d fingerprints at %s" % (len(fp), head))
    else:
        props = [a for a in sys.argv[1:] if not a.startswith("-")] or sorted(FILES)
        for p in props:
            ch, note = drift(p)
            print(p, "drift:", ch[:8], "(%d)" % len(ch), note)
