"""Source-anchored table extractor (see DESIGN §1): regenerates lean/Phil/Generated/Tables.lean from
/repo/src.  Placeholder until the tables are wired into the model."""


def regenerate():
    return None
