"""Source-anchored table extractor (DESIGN §1): re-reads, with `ast`, the constant tables the Lean model
depends on from $VERIF_REPO/src/freephil and regenerates lean/Phil/Generated/Tables.lean.  The model
imports that file, so a changed table changes the model and `lake build` re-checks every theorem.
If the source no longer has the recognised shape the committed file is left alone and a note is
returned; that alone is never an alarm (the correspondence run still decides)."""
import ast
import os

HERE = os.path.dirname(os.path.abspath(__file__))
VERIF = os.path.dirname(HERE)
OUT = os.path.join(os.environ.get("VERIF_LEAN") or os.path.join(VERIF, "lean"), "Phil", "Generated", "Tables.lean")


def _src(name):
    repo = os.environ.get("VERIF_REPO", "/repo")
    return open(os.path.join(repo, "src", "freephil", name)).read()


def _class_attr_list(tree, cls, attr):
    for node in ast.walk(tree):
        if isinstance(node, ast.ClassDef) and node.name == cls:
            for st in node.body:
                if isinstance(st, ast.Assign) and any(isinstance(t, ast.Name) and t.id == attr for t in st.targets):
                    return ast.literal_eval(st.value)
    raise LookupError("%s.%s" % (cls, attr))


def _func(tree, name):
    for node in ast.walk(tree):
        if isinstance(node, ast.FunctionDef) and node.name == name:
            return node
    raise LookupError(name)


def _str_lists_in(func):
    """all list-of-string literals compared with `in` inside a function, in source order"""
    out = []
    for node in ast.walk(func):
        if isinstance(node, ast.Compare) and any(isinstance(op, ast.In) for op in node.ops):
            for c in node.comparators:
                try:
                    v = ast.literal_eval(c)
                except Exception:
                    continue
                if isinstance(v, list) and all(isinstance(x, str) for x in v):
                    out.append((node.lineno, v))
    return [v for _, v in sorted(out, key=lambda t: t[0])]


def extract():
    common = ast.parse(_src("common.py"))
    conv = ast.parse(_src("converters.py"))
    t = {}
    t["defAttrNames"] = _class_attr_list(common, "definition", "attribute_names")
    t["scopeAttrNames"] = _class_attr_list(common, "scope", "attribute_names")
    lists = _str_lists_in(_func(conv, "bool_from_words"))
    if len(lists) != 2:
        raise LookupError("bool_from_words tables")
    t["boolFalse"], t["boolTrue"] = lists
    # the two tokenizer settings of parse()
    settings = []
    for node in ast.walk(_func(common, "parse")):
        if isinstance(node, ast.Call) and getattr(node.func, "attr", "") == "settings":
            settings.append((node.lineno, {k.arg: ast.literal_eval(k.value) for k in node.keywords}))
    settings = [s for _, s in sorted(settings, key=lambda x: x[0])]
    if len(settings) != 2:
        raise LookupError("parse() settings")
    t["structSingle"] = settings[0].get("unquoted_single_character_words", "")
    t["structComment"] = settings[0].get("comment_characters", "")
    t["structMeta"] = settings[0].get("meta_comment", None)
    t["valueSingle"] = settings[1].get("unquoted_single_character_words", "")
    for k in ("contiguous_word_characters",):
        if settings[0].get(k, "") != "" or settings[1].get(k, "") != "":
            raise LookupError("contiguous_word_characters is no longer empty")
    for node in common.body:
        if isinstance(node, ast.Assign) and any(isinstance(x, ast.Name) and x.id == "default_print_width" for x in node.targets):
            t["defaultPrintWidth"] = ast.literal_eval(node.value)
    if "defaultPrintWidth" not in t or t["structMeta"] is None:
        raise LookupError("default_print_width / meta_comment")
    # the match classes of the argument interpreter: integer constants returned by get_path_score, in source order
    cl = ast.parse(_src("command_line.py"))
    rets = []
    for node in ast.walk(_func(cl, "get_path_score")):
        if isinstance(node, ast.Return) and isinstance(node.value, ast.Constant) and isinstance(node.value.value, int):
            rets.append((node.lineno, node.value.value))
    t["pathScoreReturns"] = [v for _, v in sorted(rets)]
    if len(t["pathScoreReturns"]) < 5:
        raise LookupError("get_path_score returns")
    # keyword defaults of the numeric / choice converter constructors: (name, default) as text
    def init_defaults(cls):
        for node in ast.walk(conv):
            if isinstance(node, ast.ClassDef) and node.name == cls:
                for st in node.body:
                    if isinstance(st, ast.FunctionDef) and st.name == "__init__":
                        names = [a.arg for a in st.args.args[1:]]
                        return ["%s=%r" % (n, ast.literal_eval(d)) for n, d in zip(names, st.args.defaults)]
        raise LookupError(cls + ".__init__")
    t["numberInitDefaults"] = init_defaults("number_converters_base")
    t["numbersInitDefaults"] = init_defaults("numbers_converters_base")
    t["choiceInitDefaults"] = init_defaults("choice_converters")
    return t


def lean_str_list(xs):
    return "[" + ", ".join('"%s"' % x.replace("\\", "\\\\").replace('"', '\\"') for x in xs) + "]"


def render(t):
    def chars(s):
        return "[" + ", ".join("'%s'" % (c if c not in "'\\" else "\\" + c) for c in s) + "]"
    return """/-
  GENERATED by harness/extract_tables.py from src/freephil (common.py, converters.py) — do not edit.
  Constant tables the model depends on; regenerated on every check run.
-/
namespace Phil.Gen

def defAttrNames : List String := %s
def scopeAttrNames : List String := %s
def boolFalse : List String := %s
def boolTrue : List String := %s
def structSingle : List Char := %s
def structComment : List Char := %s
def structMeta : String := "%s"
def valueSingle : List Char := %s
def defaultPrintWidth : Int := %d
def pathScoreReturns : List Nat := %s
def numberInitDefaults : List String := %s
def numbersInitDefaults : List String := %s
def choiceInitDefaults : List String := %s

end Phil.Gen
""" % (lean_str_list(t["defAttrNames"]), lean_str_list(t["scopeAttrNames"]), lean_str_list(t["boolFalse"]),
       lean_str_list(t["boolTrue"]), chars(t["structSingle"]), chars(t["structComment"]), t["structMeta"],
       chars(t["valueSingle"]), t["defaultPrintWidth"], "[" + ", ".join(str(v) for v in t["pathScoreReturns"]) + "]",
       lean_str_list(t["numberInitDefaults"]), lean_str_list(t["numbersInitDefaults"]), lean_str_list(t["choiceInitDefaults"]))


def regenerate():
    try:
        text = render(extract())
    except (LookupError, SyntaxError, ValueError, OSError) as e:
        return "source shape not recognised (%s); committed tables kept" % e
    old = open(OUT).read() if os.path.exists(OUT) else None
    if old != text:
        os.makedirs(os.path.dirname(OUT), exist_ok=True)
        with open(OUT, "w") as f:
            f.write(text)
        return "tables changed and were regenerated from the source"
    return None


if __name__ == "__main__":
    print(regenerate() or "tables up to date")
