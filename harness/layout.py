"""Abstract PHIL trees and the layout grammar that renders them (C02, C15, C01, C19).

An abstract tree is a list of nodes:
  {"k": "d", "name", "dis", "words": [{"v", "q"}], "attrs": [{"n", "dis", "text", "val"}]}
  {"k": "s", "name", "dis", "attrs": [...], "objs": [...]}
`val` is the canonical attribute value (common.attr_j form) the attribute text must produce.
The renderer chooses terminators, blanks, comments, continuations, dotted-vs-nested spelling and
off-regions at random and records the 1-based line of every token it emits (`_line` fields).
"""
from common import enc

NAMES = ["a", "b", "c", "d", "s", "t", "u", "foo", "bar_1", "x2", "_p", "Name"]
STR_ATTRS_D = ["help", "caption", "short_caption", "style", "alias"]
STR_ATTRS_S = ["style", "help", "caption", "short_caption", "alias"]
BOOL_ATTRS_D = ["optional", "multiple"]
BOOL_ATTRS_S = ["optional", "multiple", "disable_add", "disable_delete"]
INT_ATTRS_D = ["input_size", "expert_level"]
INT_ATTRS_S = ["expert_level"]

TYPE_TABLE = [
    ("int", "int(allow_none=True)"), ("float", "float(allow_none=True)"), ("bool", "bool"), ("str", "str"),
    ("qstr", "qstr"), ("path", "path"), ("key", "key"), ("words", "words"), ("strings", "strings"),
    ("choice", "choice"), ("choice(multi=True)", "choice(multi=True)"), ("choice(multi=False)", "choice"),
    ("ints", "ints"), ("floats", "floats"), ("ints(size=2)", "ints(size=2)"),
    ("ints(size_min=1, size_max=3)", "ints(size_min=1, size_max=3)"),
    ("ints ( size_min = 2 )", "ints(size_min=2)"), ("floats(size_max=4)", "floats(size_max=4)"),
    ("floats(value_min=0.5, value_max=2)", "floats(value_min=0.5, value_max=2)"),
    ("floats(value_min=-1.25)", "floats(value_min=-1.25)"),
    ("int(value_min=0)", "int(value_min=0, allow_none=True)"),
    ("int(value_min=-3, value_max=7)", "int(value_min=-3, value_max=7, allow_none=True)"),
    ("int(allow_none=False)", "int(allow_none=False)"),
    ("float(value_max=1.5, allow_none=False)", "float(value_max=1.5, allow_none=False)"),
    ("float(value_min=2)", "float(value_min=2, allow_none=True)"),
    ("ints(allow_none_elements=True)", "ints(allow_none_elements=True)"),
    ("floats(size=3, allow_auto_elements=True)", "floats(size=3, allow_auto_elements=True)"),
    ("ints(size=1, value_min=0, value_max=9, allow_none_elements=True, allow_auto_elements=True)",
     "ints(size=1, value_min=0, value_max=9, allow_none_elements=True, allow_auto_elements=True)"),
    ("str()", "str"), ("int()", "int(allow_none=True)"),
]
BOOL_TABLE = [("True", True), ("False", False), ("yes", True), ("no", False), ("on", True), ("off", False),
              ("1", True), ("0", False), ("true", True), ("FALSE", False), ("Yes", True), ("oFf", False)]

QCHARS = ["'", '"', "\\", "\n", " ", "$", "#", "{", "}", ";", "=", "a", "b", "c", "é", "!", "."]
# every character that is whitespace for the tokenizer (str.isspace) but does not end a line: form feed (page break),
# vertical tab, FS/GS/RS/US, NEL, NBSP, the Unicode spaces, LS/PS ...  Blank and TAB are the ordinary layout; a carriage
# return is written only as part of a CR LF line end (a lone CR has no agreed meaning as a line).
# Emitted only on request (`exotic=` of TreeGen / Renderer); they never advance the renderer's line count.
EXOTIC_WS = [chr(i) for i in range(0x3001) if chr(i).isspace() and chr(i) not in " \t\n\r"]
# the realistic ones first: a page break, and what str.splitlines() would (wrongly, here) take for a line boundary
EXOTIC_COMMON = ["\x0c", "\x0c", "\x0b", "\x1c", "\x1d", "\x1e", "\x85", "\u2028", "\u2029", "\xa0", "\x1f"]


def exotic_char(rng):
    return rng.choice(EXOTIC_COMMON if rng.random() < 0.7 else EXOTIC_WS)
PLAIN = "abcxyz019_.-+*/,:()[]<>@%&|^~?="


def pyquote(q, s):
    return q + s.replace("\\", "\\\\").replace(q[0], "\\" + q[0]) + q


class TreeGen:
    def __init__(self, rng, depth=3, attrs=True, quotes_in_comments=False, multiline=True, experts=False, exotic=0.0):
        self.rng = rng
        self.exotic = exotic  # probability that a quoted word carries non-newline exotic whitespace in its value
        self.depth = depth
        self.attrs = attrs
        self.multiline = multiline
        self.experts = experts

    def word(self):
        r = self.rng
        if r.random() < 0.55:
            n = r.randint(1, 6)
            w = "".join(r.choice(PLAIN) for _ in range(n))
            # words the value tokenizer would treat specially, or that are None/Auto spellings, stay out of
            # the plain stream (they are covered by dedicated generators)
            if w in ("\\", "#") or w[0] in "'\"" or w.startswith("#"):
                w = "w" + w.replace("\\", "")
            return {"v": w, "q": None}
        q = r.choice(["'", '"', "'''", '"""'])
        s = "".join(r.choice(QCHARS) for _ in range(r.choice([0, 1, 2, 3, 5, 8, 12])))
        if not self.multiline:
            s = s.replace("\n", " ")
        if self.exotic and r.random() < self.exotic:
            for _ in range(r.choice([1, 1, 2])):
                k = r.randint(0, len(s))
                s = s[:k] + exotic_char(r) + s[k:]
        return {"v": s, "q": q}

    def words(self):
        r = self.rng
        out = []
        multi = False
        for _ in range(r.choice([1, 1, 1, 2, 2, 3, 4, 9])):
            w = self.word()
            if multi and w["q"] is None:
                # the parser never accepts an unquoted word after a quoted word that spans lines
                w = {"v": w["v"], "q": r.choice(["'", '"'])}
            if "\n" in w["v"]:
                multi = True
            out.append(w)
        return out

    def free_text(self):
        r = self.rng
        ws = []
        for _ in range(r.choice([1, 1, 2, 3, 6, 14, 30])):
            k = r.random()
            if k < 0.7:
                ws.append("".join(r.choice("abcdefgh-_") for _ in range(r.randint(1, 9))))
            elif k < 0.8:
                ws.append("w" * r.randint(15, 50))
            elif k < 0.9:
                ws.append(r.choice(['"', "'", "\\", "a\\b", 'q"r', "#", "$x", "{", ";", "=", "it's"]))
            else:
                ws.append(r.choice(["None", "Auto", "none", "1", "a_b", "x.y"]))
        return ws

    def attr(self, is_def):
        r = self.rng
        k = r.random()
        dis = r.random() < 0.08
        if k < 0.5:
            n = r.choice(STR_ATTRS_D if is_def else STR_ATTRS_S)
            ws = self.free_text()
            form = r.random()
            if form < 0.5:
                text = " ".join(ws)
                if r.random() < 0.2:
                    text = text.replace(" ", "  ", 1)
                words = [{"v": text, "q": '"'}]
            elif form < 0.65:
                words = [{"v": " ".join(ws), "q": r.choice(["'", '"""'])}]
            else:
                # several words; unquoted where the value tokenizer allows it
                words = []
                for w in ws:
                    bad = w[0] in "'\"#" or any(c in w for c in "{};") or w == "\\"
                    words.append({"v": w, "q": '"' if bad or r.random() < 0.2 else None})
            val_text = " ".join(w["v"] for w in words)
            if len(words) == 1 and words[0]["q"] is None and val_text.lower() == "none":
                val = None
            elif len(words) == 1 and words[0]["q"] is None and val_text.lower() == "auto":
                val = ["auto"]
            else:
                val = ["s", enc(val_text)]
            return {"n": n, "dis": dis, "words": words, "val": val}
        if k < 0.7:
            n = r.choice(BOOL_ATTRS_D if is_def else BOOL_ATTRS_S)
            if n == "multiple" and is_def is False and r.random() < 0.5:
                n = "optional"
            t, b = r.choice(BOOL_TABLE)
            if r.random() < 0.1:
                return {"n": n, "dis": dis, "words": [{"v": "None", "q": None}], "val": None}
            return {"n": n, "dis": dis, "words": [{"v": t, "q": None}], "val": ["b", b]}
        if k < 0.85:
            n = r.choice(INT_ATTRS_D if is_def else INT_ATTRS_S)
            i = r.choice([0, 1, 2, 3, 4, 10, 400])
            return {"n": n, "dis": dis, "words": [{"v": str(i), "q": None}], "val": ["i", i]}
        if is_def:
            t, c = r.choice(TYPE_TABLE)
            return {"n": "type", "dis": dis, "words": [{"v": w, "q": None} for w in t.split(" ")], "val": ["t", enc(c)]}
        return {"n": "help", "dis": dis, "words": [{"v": "h", "q": None}], "val": ["s", enc("h")]}

    def attrs_for(self, is_def):
        r = self.rng
        if not self.attrs:
            out = []
        else:
            out = [self.attr(is_def) for _ in range(r.choice([0, 0, 0, 1, 1, 2, 3]))]
        if self.experts and r.random() < 0.4:
            i = r.choice([0, 1, 2, 3, 4])
            out.append({"n": "expert_level", "dis": False, "words": [{"v": str(i), "q": None}], "val": ["i", i]})
        return out

    def objs(self, depth):
        r = self.rng
        out = []
        for _ in range(r.choice([0, 1, 1, 2, 2, 3, 4]) if depth < self.depth else r.choice([1, 2, 3, 4])):
            dis = r.random() < 0.1
            if depth > 1 and r.random() < 0.06:
                # an enabled attribute-free scope whose only child is a DISABLED scope or definition: the renderer may
                # spell it `!a.b {` / `!a.b = 1` (the `!` belongs to the innermost object)
                inner_dis = {"k": "s", "name": r.choice(NAMES), "dis": True, "attrs": self.attrs_for(False),
                             "objs": self.objs(depth - 2)} if r.random() < 0.6 else \
                            {"k": "d", "name": r.choice(NAMES), "dis": True, "words": self.words(), "attrs": self.attrs_for(True)}
                out.append({"k": "s", "name": r.choice(NAMES), "dis": False, "attrs": [], "objs": [inner_dis]})
            elif depth > 0 and r.random() < 0.4:
                out.append({"k": "s", "name": r.choice(NAMES), "dis": dis, "attrs": self.attrs_for(False),
                            "objs": self.objs(depth - 1)})
            else:
                out.append({"k": "d", "name": r.choice(NAMES), "dis": dis, "words": self.words(),
                            "attrs": self.attrs_for(True)})
        return out

    def tree(self):
        return self.objs(self.depth)


class Renderer:
    """text of an abstract tree under random layout choices; records `_line` of every token"""

    def __init__(self, rng, layout=1.0, comment_quotes=False, off_regions=True, exotic=0.0, spread=0.0):
        self.rng = rng
        self.exotic = exotic  # probability, per layout decision, of whitespace other than blank / TAB / LF (EXOTIC_WS, CR LF)
        # probability, per word of a value, of a backslash continuation in front of it - also in front of the FIRST word, so
        # that a value starts on a later line than its name (`a = \<LF>  v`); draws nothing when 0
        self.spread = spread
        self.p = layout
        self.comment_quotes = comment_quotes
        self.off_regions = off_regions
        self.out = []
        self.n_nl = 0
        self.features = set()

    def emit(self, s):
        self.out.append(s)
        self.n_nl += s.count("\n")

    def line(self):
        return 1 + self.n_nl

    def fancy(self):
        return self.rng.random() < self.p

    def odd(self):
        """True when this layout decision is to use exotic whitespace (draws nothing when the option is off)"""
        return bool(self.exotic) and self.rng.random() < self.exotic

    def xws(self, lo=1):
        """a run of whitespace that contains no line feed but at least `lo` exotic characters"""
        r = self.rng
        self.features.add("exotic_ws")
        s = "".join(exotic_char(r) for _ in range(r.choice([lo, lo, lo + 1])))
        return r.choice(["", " ", "\t"]) + s + r.choice(["", "", " "])

    def sp(self, must=False):
        r = self.rng
        if self.odd():
            self.emit(self.xws())
            return
        if not self.fancy():
            self.emit(" ")
            return
        s = r.choice([" ", " ", "  ", "\t", " \t ", "" if not must else " "])
        self.emit(s)

    def comment_text(self):
        r = self.rng
        ws = []
        for _ in range(r.randint(0, 5)):
            ws.append(r.choice(["c", "text", "{", "}", ";", "=", "x=1", "#", "!a", ".help", "a b", "\\x", "it's", "q\"r"]))
        if self.comment_quotes:
            ws.append(r.choice(["'multi", '"open', "'''", "'x'"]))
            self.features.add("comment_with_quote")
        if self.odd():
            ws.insert(r.randint(0, len(ws)), self.xws().strip(" \t") + r.choice(["", "x = 1", "}", "it's"]))
            self.features.add("exotic_ws_in_comment")
        t = " ".join(ws)
        if t.endswith("\\"):
            t += "."
        return t

    def terminator(self, in_scope, last):
        """end of a value: newline / ; / comment / (nothing before a closing brace or EOF)"""
        r = self.rng
        if self.odd():
            k = r.random()
            if k < 0.3:
                # a page break and its kin: a line of its own holding only exotic whitespace
                self.features.add("exotic_ws_line")
                self.emit("\n" + self.xws() + "\n")
            elif k < 0.5:
                self.emit(self.xws() + "\n")
            elif k < 0.7:
                self.features.add("crlf")
                self.emit(r.choice(["\r\n", " \r\n", "\r\n\r\n", "\r\n  \r\n"]))
            elif k < 0.85:
                self.features.add("crlf")
                self.emit(" # " + self.comment_text() + "\r\n")
            else:
                self.features.add("exotic_ws_line")
                self.emit("\n#" + self.comment_text() + "\n" + self.xws() + "\n\n")
            return
        if not self.fancy():
            self.emit("\n")
            return
        k = r.random()
        if k < 0.45:
            self.emit("\n")
        elif k < 0.55:
            self.features.add("semicolon")
            self.emit(r.choice([";", " ;", "; ", ";\n", " ; \n"]))
        elif k < 0.7:
            self.features.add("trailing_comment")
            self.emit(" # " + self.comment_text() + "\n")
        elif k < 0.8:
            self.features.add("blank_lines")
            self.emit("\n" + r.choice(["\n", "  \n", "\t\n\n"]))
        elif k < 0.9:
            self.features.add("comment_line")
            self.emit("\n" + r.choice(["", "  "]) + "#" + r.choice([" ", "c", "!"]) + self.comment_text() + "\n")
        elif last and in_scope:
            self.features.add("brace_terminates")
            self.emit(" ")
        else:
            self.emit("\n")

    def quoted(self, q, v):
        """the quoted spelling of a word; under fancy layouts a backslash-newline (which the tokenizer drops)
        is inserted between characters now and then"""
        if not self.fancy() or self.rng.random() > 0.25:
            return pyquote(q, v)
        out = q
        for ch in v:
            if self.rng.random() < 0.2:
                out += "\\\n"
                self.features.add("backslash_newline_in_quotes")
            out += ch.replace("\\", "\\\\").replace(q[0], "\\" + q[0])
        if self.rng.random() < 0.2:
            out += "\\\n"
            self.features.add("backslash_newline_in_quotes")
        return out + q

    def value_words(self, words, first_line_token):
        """emit the words of a value; the first word is on the line of the name unless a continuation precedes it (`spread`)"""
        r = self.rng
        last_start_line = self.line()
        prev = None
        for i, w in enumerate(words):
            later_unquoted = any(w2["q"] is None for w2 in words[i + 1:])
            text = w["v"] if w["q"] is None else (pyquote(w["q"], w["v"]) if later_unquoted else self.quoted(w["q"], w["v"]))
            if i == 0:
                self.sp()
                if self.spread and r.random() < self.spread:
                    self.features.add("value_starts_on_continuation_line")
                    self.emit(r.choice(["\\\n", "\\\n   ", "\\\n\t", "\\ \n  "]))
            elif self.spread and last_start_line == self.line() and r.random() < self.spread:
                self.features.add("backslash_continuation")
                self.emit(r.choice([" \\\n", " \\\n   ", "\t\\\n\t", " \\  \n "]))
            else:
                quoted = w["q"] is not None
                same_line_ok = last_start_line == self.line()  # previous word did not span lines
                k = r.random()
                if self.fancy() and k < 0.15 and same_line_ok:
                    self.features.add("backslash_continuation")
                    self.emit(r.choice([" \\\n", " \\\n   ", "\t\\\n\t"]))
                elif self.fancy() and k < 0.3 and quoted:
                    self.features.add("quoted_continuation_line")
                    self.emit(r.choice(["\n", "\n    ", " \n\n  "]))
                elif not same_line_ok and not quoted:
                    # an unquoted word cannot follow a multi-line quoted word: quote it instead
                    # (callers avoid this; kept for safety)
                    raise ValueError("unrenderable word sequence")
                elif self.odd():
                    self.emit(self.xws())
                else:
                    self.emit(r.choice([" ", " ", "  ", "\t"]) if self.fancy() else " ")
            w["_line"] = self.line()
            last_start_line = self.line()
            self.emit(text)
            prev = w

    def attrs(self, attrs, indent):
        for a in attrs:
            self.emit(indent + "  ")
            a["_line"] = self.line()
            self.emit(("!" if a["dis"] else "") + "." + a["n"])
            self.sp()
            self.emit("=")
            self.value_words(a["words"], None)
            self.terminator(False, False)

    def off_region(self):
        r = self.rng
        if not (self.off_regions and self.fancy() and r.random() < 0.08):
            return
        if self.out and not "".join(self.out[-3:]).endswith("\n"):
            return
        self.features.add("off_region")
        junk = r.choice(["junk { ' \n", "a = 'unclosed\n} } ;\n", "\n\n", "x\n#phil\nfoo\n", "#philx __ON__\n", " #phil __ON__\n",
                         "#phil __ON__ x\n"])
        closer = r.choice(["#phil __ON__\n", "#phil  __ON__  \n", "#phil\n__ON__\n", "#phil \n\n  __ON__\n"])
        if self.odd():
            # switched-off content of any kind: exotic whitespace on a line of its own, in the middle and at the end of a line
            self.features.add("exotic_ws_in_off_region")
            junk = r.choice([self.xws() + "\n", "any { \" " + self.xws() + "\n", "p = 1" + self.xws() + "q = '\n", "\r\n"]) + junk
        if self.odd():
            # ... and between / after the words of the line that switches parsing on again
            self.features.add("exotic_ws_in_off_region")
            closer = r.choice(["#phil" + self.xws() + "__ON__\n", "#phil __ON__" + self.xws() + "\n", "#phil __ON__\r\n",
                               "#phil" + self.xws() + "\n" + self.xws() + "__ON__" + self.xws() + "\n"])
        self.emit("#phil __OFF__\n" + junk + closer)

    def node(self, n, indent, in_scope, last):
        r = self.rng
        bang = "!" if n["dis"] else ""
        if n["k"] == "d":
            self.emit(indent if self.fancy() else "")
            n["_line"] = self.line()
            self.emit(bang + n["name"])
            self.sp()
            self.emit("=")
            self.value_words(n["words"], n)
            last_here = last and not n["attrs"]
            self.terminator(in_scope, last_here)
            self.attrs(n["attrs"], indent)
            return
        # a scope; dotted spelling when it has exactly one child, no attributes and is enabled
        chain = [n]
        cur = n
        while (cur["k"] == "s" and not cur["attrs"] and not cur["dis"] and len(cur["objs"]) == 1
               and self.fancy() and r.random() < 0.5):
            cur = cur["objs"][0]
            chain.append(cur)
        if len(chain) > 1:
            self.features.add("dotted_name")
            inner = chain[-1]
            for sc in chain[:-1]:
                sc["_line"] = None
                sc["_dotted"] = True
            dotted = ".".join(c["name"] for c in chain)
            saved = inner["name"]
            inner = dict(inner)
            inner["name"] = dotted
            self.node(inner, indent, in_scope, last)
            chain[-1]["_line"] = inner.get("_line")
            chain[-1]["_merge"] = True
            return
        self.emit(indent if self.fancy() else "")
        n["_line"] = self.line()
        self.emit(bang + n["name"])
        if n["attrs"]:
            self.emit(r.choice(["\n", " ", "  \n"]) if self.fancy() else "\n")
            self.attrs(n["attrs"], indent)
            self.emit(indent + "{")
        else:
            self.emit(r.choice([" {", "{", "\n{", "  {", "\n\n  {"]) if self.fancy() else " {")
        self.emit(r.choice(["\n", " ", "", "\n\n", " # c\n"]) if self.fancy() else "\n")
        self.body(n["objs"], indent + "  ", True)
        self.emit(indent + "}" if self.fancy() else "}")
        self.emit(r.choice(["\n", " ", "\n\n", " # c }\n", ";" if False else "\n"]) if self.fancy() else "\n")

    def body(self, objs, indent, in_scope):
        for i, n in enumerate(objs):
            self.off_region()
            self.node(n, indent, in_scope, i == len(objs) - 1)

    def render(self, tree):
        self.body(tree, "", False)
        if self.off_regions and self.fancy() and self.rng.random() < 0.05:
            if not self.out or "".join(self.out[-3:]).endswith("\n"):
                self.features.add("end_cut")
                self.emit(self.rng.choice(["#phil __END__\nz = 1\n", "#phil __END__\n} ' junk", "#phil __OFF__\nq = 2\n",
                                           "#phil __OFF__\nq\n#phil __END__\nr = 3\n"]))
        return "".join(self.out)


def expected_attrs(names, attrs):
    vals = {n: None for n in names}
    for a in attrs:
        if not a["dis"]:
            vals[a["n"]] = a["val"]
    return [vals[n] for n in names]


def compare(parsed, abstract, path="", lines=True):
    """compare real parsed objects (list) with abstract nodes (list); returns None or a description"""
    from common import attr_j, line_of, quote_tag
    if len(parsed) != len(abstract):
        return "%s: %d objects parsed, %d expected (%r)" % (path or "<root>", len(parsed), len(abstract),
                                                            [o.name for o in parsed])
    for o, n in zip(parsed, abstract):
        p = path + "." + n["name"] if path else n["name"]
        kind = "d" if o.is_definition else "s"
        if kind != n["k"] or o.name != n["name"]:
            return "%s: got %s %r" % (p, kind, o.name)
        if bool(o.is_disabled) != bool(n["dis"]):
            return "%s: disabled flag %r, expected %r" % (p, o.is_disabled, n["dis"])
        if lines and "_line" in n and line_of(o.where_str) != n["_line"]:
            return "%s: reported line %r, token is on line %r" % (p, line_of(o.where_str), n["_line"])
        got = [attr_j(getattr(o, a)) for a in o.attribute_names]
        exp = expected_attrs(o.attribute_names, n["attrs"])
        if got != exp:
            for a, g, e in zip(o.attribute_names, got, exp):
                if g != e:
                    return "%s: attribute %s = %r, expected %r" % (p, a, g, e)
        if kind == "d":
            gw = [(w.value, w.quote_token) for w in o.words]
            ew = [(w["v"], w["q"]) for w in n["words"]]
            if gw != ew:
                return "%s: words %r, expected %r" % (p, gw, ew)
            if lines:
                gl = [w.line_number for w in o.words]
                el = [w.get("_line") for w in n["words"]]
                if gl != el:
                    return "%s: word lines %r, tokens are on lines %r" % (p, gl, el)
        else:
            r = compare(o.objects, n["objs"], p, lines)
            if r:
                return r
    return None


def strip_marks(tree):
    """remove renderer marks so a tree can be rendered again"""
    for n in tree:
        for k in ("_line", "_dotted", "_merge"):
            n.pop(k, None)
        for a in n["attrs"]:
            a.pop("_line", None)
            for w in a["words"]:
                w.pop("_line", None)
        if n["k"] == "d":
            for w in n["words"]:
                w.pop("_line", None)
        else:
            strip_marks(n["objs"])
    return tree
