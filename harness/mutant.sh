#!/bin/sh
# mutant.sh <patch> <PROP> [--reverse] [--tier T]: run a check against a scratch copy of /repo with a patch applied
P="$(cd "$(dirname "$1")" && pwd)/$(basename "$1")"; PROP="$2"; shift 2
REV=""; TIER=quick
while [ $# -gt 0 ]; do case "$1" in --reverse) REV="-R";; --tier) TIER="$2"; shift;; esac; shift; done
D="$(cd "$(dirname "$0")/.." && pwd)"
S=/var/tmp/vmut-$$
rm -rf $S; mkdir -p $S; cp -r /repo/src /repo/.git $S/ 2>/dev/null
( cd $S && git checkout -q -- . 2>/dev/null; git apply $REV "$P" ) || { echo "patch failed"; rm -rf $S; exit 3; }
# a private copy of the Lean project: the run regenerates Phil/Generated/Tables.lean from the patched tree and may
# leave failed builds behind; neither must leak into /verif/lean (checks may be running there concurrently)
cp -r "$D/lean" $S/lean
VERIF_LEAN=$S/lean VERIF_REPO=$S VERIF_OUT=$S/out "$D/check" "$PROP" --tier "$TIER"; RC=$?
rm -rf $S
exit $RC
