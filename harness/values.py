"""Canonical forms of Python values / words, eval and %-format answer tables for the converter model."""
import math

from common import freephil, AutoT, enc, word_j, tokenizer


def num_j(x):
    if isinstance(x, bool):
        return ["b", x]
    if isinstance(x, int):
        return ["int", x]
    if isinstance(x, float):
        if math.isnan(x):
            return ["nan"]
        if math.isinf(x):
            return ["inf"] if x > 0 else ["ninf"]
        n, d = x.as_integer_ratio()
        return ["flt", n, d]
    return None


def pval_j(v):
    if v is None:
        return None
    if isinstance(v, AutoT):
        return ["auto"]
    n = num_j(v)
    if n is not None:
        return n
    if isinstance(v, str):
        return ["s", enc(v)]
    if isinstance(v, list):
        if v and all(isinstance(w, tokenizer.word) for w in v):
            return ["w", [word_j(w) for w in v]]
        return ["l", [pval_j(x) for x in v]]
    return ["other", type(v).__name__]


def pynum(s):
    """what number_from_value_string computes for one value string: int(s), else eval(s)"""
    try:
        return int(s)
    except Exception:
        pass
    try:
        return eval(s, math.__dict__, {})
    except Exception:
        return _RAISES


_RAISES = object()


def eval_j(s):
    r = pynum(s)
    if r is _RAISES:
        return ["raises"]
    if r is None:
        return ["none"]
    if isinstance(r, bool):
        return ["bool", r]
    n = num_j(r)
    if n is not None:
        return n
    return ["other"]


def str_from_words(words):
    return " ".join(w.value for w in words)


def pieces(words):
    """the value strings number_from_value_string will see for these words (scalar and list readings)"""
    s = str_from_words(words)
    out = [s]
    t = s
    while True:
        changed = False
        for o, c in ["()", "[]"]:
            while t.startswith(o) and t.endswith(c):
                t = t[1:-1].strip()
                changed = True
        if not changed:
            break
    out.extend(t.replace(",", " ").replace(";", " ").split())
    return out


def eval_table(words):
    seen = {}
    for p in pieces(words):
        if p not in seen:
            low = p.lower().strip()
            if low in ("true", "false", "none", "auto"):
                continue
            seen[p] = eval_j(p)
    return [[enc(k), v] for k, v in seen.items()]


def fmt_table(value):
    """'%.10g' answers for every float/int in a value"""
    out = []

    def add(x):
        j = num_j(x)
        if j is not None and j[0] != "b":
            try:
                out.append([j, enc("%.10g" % (x + 0.0))])
            except Exception:
                pass
    if isinstance(value, list):
        for x in value:
            add(x)
    else:
        add(value)
    return out
