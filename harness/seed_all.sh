#!/bin/sh
# seed_all.sh: re-run the owning property's quick check against every stored seeded fault; prints one line each.
D="$(cd "$(dirname "$0")/.." && pwd)"
cd "$D"
for d in seeded/C*/; do
  n=$(basename "$d"); p=${n%%-*}
  r=$(harness/mutant.sh "$d/patch.diff" "$p" 2>&1 | grep -E "^VIOLATION|patch failed" | head -1)
  echo "$n ${r:-MISSED}"
done
