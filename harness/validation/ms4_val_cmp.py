import json
cases = json.load(open("val_cases.json"))
lines = [l.rstrip("\n") for l in open("val4_out.txt") if "\t" in l]
assert len(lines) == len(cases), (len(lines), len(cases))
st = dict(total=0, inclass=0, compared=0, equal=0, mismatch=0, nonempty=0, differs_from_alldefs=0)
for c, l in zip(cases, lines):
    inC, keys, nc, un, un2 = l.split("\t")
    st["total"] += 1
    if inC != "true" or keys != "true" or nc != "true" or not c["py"]["ok"]: continue
    st["inclass"] += 1
    un = un.split("§") if un else []
    un2 = un2.split("§") if un2 else []
    st["compared"] += 1
    if c["py"]["un"] == un: st["equal"] += 1
    else:
        st["mismatch"] += 1; print(c["m"]); print("--"); print(c["s"]); print(c["py"]["un"], un)
    if un: st["nonempty"] += 1
    if un != un2: st["differs_from_alldefs"] += 1
print(st)
