import json, sys, warnings
warnings.filterwarnings("ignore")
sys.path.insert(0,'/repo/src')
import freephil
def dump(o, pre=""):
    out = []
    for c in o.objects:
        if c.is_definition:
            out.append("D %s%s %d %s" % (pre, c.name, c.is_template, "|".join(w.value for w in c.words)))
        else:
            out.append("S %s%s %d" % (pre, c.name, c.is_template)); out += dump(c, pre + c.name + ".")
    return out
cases = json.load(open("val_cases.json"))
lines = [l.rstrip("\n") for l in open("val_out.txt") if "\t" in l]
same = both_fail = diff = 0
for c, l in zip(cases, lines):
    if l.split("\t")[0] != "true": continue
    M = freephil.parse(c["m"])
    try: a = dump(M.fetch())
    except Exception as ex: a = "EXC"
    try: b = dump(M.fetch(source=freephil.parse(c["m"])))
    except Exception as ex: b = "EXC"
    if a == "EXC" and b == "EXC": both_fail += 1
    elif a == b: same += 1
    else: diff += 1; print(c["m"]); print(a); print(b)
print("same", same, "both_fail", both_fail, "diff", diff)
