import sys, re, warnings
warnings.filterwarnings("ignore")
sys.path.insert(0, "/repo/src")
import freephil
n = bad = 0
for ln in sys.stdin:
    ln = ln.rstrip("\n")
    if "\t" not in ln: continue
    h, spec = ln.split("\t")
    text = "".join(chr(int(c)) for c in h.split(".")) if h else ""
    n += 1
    try:
        freephil.parse(input_string=text); got = "OK"
    except RuntimeError as e:
        m = re.match(r'Syntax error: no matching "}" for "{" at input line (\d+)', str(e))
        got = "ERR " + m.group(1) if m else "OTHER " + str(e)
    except Exception as e:
        got = "EXC %s %s" % (type(e).__name__, e)
    if got != spec:
        bad += 1
        if bad <= 5: print("MISMATCH", repr(text), spec, got)
print("compared", n, "mismatches", bad)
