import json, sys
cases = json.load(open("val_cases.json"))
lines = [l.rstrip("\n") for l in open("val_out.txt") if "\t" in l]
assert len(lines) == len(cases), (len(lines), len(cases))
st = dict(total=0, inclass=0, repeat=0, nokeys=0, ok_equal=0, unused_equal=0, clash_agree=0, mismatch=0, model_bad=0, idem_ok=0, idem_bad=0, outclass=0)
bad = []
for c, l in zip(cases, lines):
    inC, old, keys, nc, res, un, model = l.split("\t")
    st["total"] += 1
    if inC != "true":
        st["outclass"] += 1; continue
    st["inclass"] += 1
    if old == "false": st["repeat"] += 1
    if keys != "true":
        st["nokeys"] += 1; continue
    res = res.split("§") if res else []
    un = un.split("§") if un else []
    py = c["py"]
    if nc == "true":
        if model != "OK true true": st["model_bad"] += 1; bad.append(("model", c, l))
        if py["ok"] and py["res"] == res:
            st["ok_equal"] += 1
            if py["un"] == un: st["unused_equal"] += 1
            else: st["mismatch"] += 1; bad.append(("unused", c, l))
            if py.get("idem") is True: st["idem_ok"] += 1
            else: st["idem_bad"] += 1; bad.append(("idem", c, l))
        else:
            st["mismatch"] += 1; bad.append(("result", c, l))
    else:
        if model != "ERR": st["model_bad"] += 1; bad.append(("model", c, l))
        if (not py["ok"]) and "Incompatible" in py["err"]: st["clash_agree"] += 1
        else: st["mismatch"] += 1; bad.append(("clash", c, l))
print(st)
for b in bad[:5]:
    print(b[0]); print(b[1]["m"]); print("--"); print(b[1]["s"]); print(b[1]["py"]); print(b[2][:400]); print("=====")
