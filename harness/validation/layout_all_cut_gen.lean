import Phil.Proofs.LayoutAll
open Phil
instance : Inhabited DocEnd := ⟨.eof⟩
instance : Inhabited Terminator := ⟨.eof⟩
abbrev G := StateM Nat
def rnd (n : Nat) : G Nat := do
  let s ← get
  let s' := (s * 1103515245 + 12345) % 2147483648
  set s'
  pure ((s' / 65536) % n)
def pick {α} [Inhabited α] (xs : List α) : G α := do
  let i ← rnd xs.length
  pure (xs.getD i default)
def S (s : String) : Str := s.toList

def genFill : G FillLine := do
  let ind ← pick [S "", S "  ", S "\t"]
  let cmt ← pick [none, some (S " c"), some (S "x y"), some (S "")]
  pure { ind := ind, cmt := cmt }
def genLines (mx : Nat) : G (List FillLine) := do
  let n ← rnd (mx + 1)
  let mut r := []
  for _ in [0:n] do r := (← genFill) :: r
  pure r
def genRegion : G OffRegion := do
  let rest ← pick [S "", S " junk", S " x = 1"]
  let nb ← rnd 3
  let mut body := []
  for _ in [0:nb] do body := (← pick [S "x = 1", S "#phil __OFF__", S "q { {", S "", S "#philx y", S "  #phil __ON__"]) :: body
  let junk ← pick [S "", S "zz"]
  let b3 ← pick [S "", S " "]
  pure { ind := (← pick [S "", S " "]), b1 := (← pick [S " ", S "  "]), rest := rest, body := body, junk := junk, b2 := S " ", b3 := b3 }
def genPre3 : G Pre3 := do
  let ns ← pick [0, 0, 0, 1, 2]
  let mut segs := []
  for _ in [0:ns] do
    let ls ← genLines 2
    segs := (ls, (← genRegion)) :: segs
  pure { segs := segs, lines := (← genLines 2), ind := (← pick [S "", S " ", S "   "]) }
def genPre : G Pre := do
  pure { lines := (← genLines 2), ind := (← pick [S "", S " ", S "  "]) }
def genWord : G Word := do
  pick [{ value := S "1" }, { value := S "ab" }, { value := S "x.y" }, { value := S "p q", quote := some .d1 },
        { value := S "l1\nl2", quote := some .d1 }, { value := S "", quote := some .s1 }, { value := S "a#b", quote := some .s1 }]
def genWords : G (List Word) := do
  let n ← rnd 3
  let mut r := [← genWord]
  for _ in [0:n] do r := (← genWord) :: r
  pure r
def genGap (first : Bool) (w : Word) : G Gap := do
  let k ← rnd 6
  if k == 0 then pure { bs := some (S " "), ws := S "\n  " }
  else if k == 1 && w.quote.isSome then pure { ws := S "\n " }
  else if k == 2 && first then pure { ws := S "" }
  else pure { ws := (← pick [S " ", S "  "]) }
def genGaps (ws : List Word) : G (List Gap) := do
  let mut r := []
  let mut first := true
  for w in ws do
    r := r ++ [← genGap first w]
    first := false
  pure r
def genTerm : G Terminator := do
  let k ← rnd 8
  if k == 0 then pure (.semi (S " "))
  else if k == 1 then pure (.comment (S " ") (S " c"))
  else if k == 2 then pure .eof
  else if k == 3 then pure (.semi (S ""))
  else pure (.nl (← pick [S "", S " "]))
def genLayout3 (ws : List Word) : G DefLayout3 := do
  pure { pre := (← genPre3), sp1 := (← pick [S " ", S "", S "  "]), gaps := (← genGaps ws), term := (← genTerm) }
def genAttr3 : G AttrIt3 := do
  let k ← rnd 4
  let (n, ws) ← (if k == 0 then pure ("expert_level", [({ value := S "2" } : Word)])
    else if k == 1 then pure ("optional", [({ value := S "true" } : Word)])
    else do pure ("help", (← genWords)))
  pure { n := n, ws := ws, L := (← genLayout3 ws), b := (← pick [false, false, true]) }
def genList {α} (mx : Nat) (g : G α) : G (List α) := do
  let n ← rnd (mx + 1)
  let mut r := []
  for _ in [0:n] do r := (← g) :: r
  pure r
def genName : G Str := pick [S "a", S "b", S "cc", S "d1", S "x_y"]
def genPath : G (List Str) := do
  let k ← rnd 4
  if k == 0 then pure [← genName] else if k == 1 then pure [← genName, ← genName] else pure []
def genHAttr : G AttrIt := do
  let ws ← genWords
  let gaps := ws.map (fun _ => S " ")
  let t ← pick [Terminator.nl (S ""), .semi (S " "), .nl (S " ")]
  pure { n := "help", ws := ws, L := { pre := (← genPre), sp1 := S " ", gaps := gaps, term := t }, b := (← pick [false, true]) }
def genItem : Nat → G DocItem
  | 0 => do
    let ws ← genWords
    pure (.defn (← genPath) (← genName, ws) (← genLayout3 ws) (← pick [false, false, true]) (← genList 2 genAttr3))
  | d + 1 => do
    let k ← rnd 3
    if k == 0 then
      let n ← rnd 4
      let mut kids := []
      for _ in [0:n] do kids := (← genItem d) :: kids
      pure (.scope (← genPath) (← genName) (← pick [false, false, true]) (← genPre3) (← genList 1 genHAttr) (← genPre) kids (← genPre3))
    else genItem 0
def genItems (mx depth : Nat) : G (List DocItem) := do
  let n ← rnd (mx + 1)
  let mut xs := []
  for _ in [0:n] do xs := (← genItem depth) :: xs
  pure xs
def genCut : Nat → G CutDoc
  | 0 => do pure (.here (← genItems 2 1) (← genPre3) (S " ") (← pick [S "", S "\n}} x"]))
  | d + 1 => do
    let k ← rnd 3
    let inner ← (if k == 0 then genCut 0 else genCut d)
    pure (.deeper (← genItems 2 1) (← genPath) (← genName) (← pick [false, true]) (← genPre3) (← genList 1 genHAttr) (← genPre) inner)
def codes (s : Str) : String := ".".intercalate (s.map (fun c => toString c.toNat))
def main (args : List String) : IO Unit := do
  let n := (args.getD 0 "100").toNat!
  let mut seed := (args.getD 1 "1").toNat!
  let mut kept := 0
  let mut bad := 0
  let mut tries := 0
  while kept < n do
    tries := tries + 1
    let (c0, s') := (genCut 2).run seed
    seed := s'
    let (c, s'') := (do let xs ← genItems 2 1; pure (CutDoc.deeper xs (← genPath) (← genName) false (← genPre3) [] (← genPre) c0) : G CutDoc).run seed
    seed := s''
    if c.wf then
      kept := kept + 1
      let spec := "ERR " ++ toString ((c.errLine 1 none).getD 0)
      let model := match parseObjs c.text with
        | .ok _ => "OK"
        | .error (.runtime "no_matching_brace" l) => "ERR " ++ toString (l.getD 0)
        | .error err => "OTHER " ++ reprStr err
      if spec != model then
        bad := bad + 1
        IO.eprintln s!"MISMATCH model/spec: {repr (String.ofList c.text)}\n spec {spec}\n model {model}"
      IO.println (codes c.text ++ "\t" ++ spec)
  IO.eprintln s!"kept {kept} of {tries} tries, model/spec mismatches {bad}"
