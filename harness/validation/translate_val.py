import random, sys, warnings
warnings.filterwarnings("ignore")
sys.path.insert(0, "/repo/src")
import freephil
from freephil import tokens, tokenizer, common, command_line
random.seed(int(sys.argv[1]) if len(sys.argv) > 1 else 1)
N = 1500
def enc(s): return " ".join(str(ord(c)) for c in s)
def rs(alpha, lo, hi): return "".join(random.choice(alpha) for _ in range(random.randint(lo, hi)))
cases = []
# get_path_score
ai = command_line.argument_interpreter.__new__(command_line.argument_interpreter)
for _ in range(N):
    al = random.choice(["ab.", "ab.", "a.", "abc._"])
    t = rs(al, 0, 8)
    m = random.random()
    if m < 0.5 and t:
        i = random.randint(0, len(t)); j = random.randint(i, len(t)); s = t[i:j]
    else:
        s = rs(al, 0, 4)
    hm = random.random()
    if hm < 0.3: h = None
    elif hm < 0.7 and t: h = t[:random.randint(0, len(t))]
    else: h = rs(al, 0, 3)
    if hm >= 0.3 and random.random() < 0.3: t = h + "." + s
    ai.home_scope = h
    r = ai.get_path_score(s, t)
    cases.append(("gps", "N" if h is None else "S" + enc(h), enc(s), enc(t), str(r)))
for _ in range(N):
    s = rs(random.choice(["ab_.1", "a_.9 ", "a.b", "_A.z0-"]), 0, 7)
    cases.append(("std", enc(s), "1" if tokens.is_standard_identifier(s) else "0"))
    s = rs(random.choice(["_a", "_", "__x"]), 0, 8)
    cases.append(("res", enc(s), "1" if common.is_reserved_identifier(s) else "0"))
for _ in range(N):
    s = rs("ab\\'\" \n", 0, 8)
    q = random.choice(["'", '"', "a", "\\"])
    cases.append(("esc", enc(q), enc(s), enc(tokenizer.escape_python_str(q, s))))
    qt = random.choice(["'", '"', "'''", '"""', "ab"])
    cases.append(("quo", enc(qt), enc(s), enc(tokenizer.quote_python_str(qt, s))))
class W:
    def __init__(s, v, q): s.value = v; s.quote_token = q
for _ in range(N // 3):
    ws = [W(random.choice(["none", "None", "NONE", "auto", "Auto", "aUTO", "x", "", "nones"]), random.choice([None, None, '"', "'"])) for _ in range(random.choice([0, 1, 1, 1, 2]))]
    cases.append(("pln", ";".join(("U" if w.quote_token is None else "Q") + enc(w.value) for w in ws), "1" if tokens.is_plain_none(ws) else "0", "1" if tokens.is_plain_auto(ws) else "0"))
# prelude primitives directly (general replace, find, slices, index)
for _ in range(N):
    s = rs("abc", 0, 8); p = rs("abc", 1, 3); r = rs("xa", 0, 2); k = random.randint(-10, 10)
    cases.append(("rep", enc(s), enc(p), enc(r), enc(s.replace(p, r))))
    cases.append(("fnd", enc(s), enc(p), str(s.find(p)), "1" if p in s else "0", "1" if s.startswith(p) else "0", "1" if s.endswith(p) else "0"))
    cases.append(("slc", enc(s), str(k), enc(s[k:]), enc(s[:k]), enc(s[k]) if -len(s) <= k < len(s) else "X", enc("|".join(s.split("a")))))
sys.stdout.write("\n".join(",".join(c) for c in cases))
sys.stderr.write("%d cases\n" % len(cases))
