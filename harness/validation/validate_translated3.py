"""validation of the third batch of translated pieces against the real Python (run with /venv/bin/python)"""
import ast, os, random, subprocess, sys, unicodedata
sys.path.insert(0, "/var/tmp/pf4/harness")
os.environ.setdefault("VERIF_REPO", "/repo")
sys.path.insert(0, "/repo/src")
import warnings; warnings.simplefilter("ignore")
import freephil, freephil.common as C
import translate as T
rnd = random.Random(20260930)

def lstr(s):
    return "([%s].map Char.ofNat : Str)" % ", ".join(str(ord(c)) for c in s) if s else "([] : Str)"
def lint(i):
    return "((%d) : Int)" % i
def lbool(b):
    return "true" if b else "false"
def lattr(v):
    if v is None: return "AttrVal.none"
    if v is freephil.Auto: return "AttrVal.auto"
    if isinstance(v, bool): return "(AttrVal.bool %s)" % lbool(v)
    if isinstance(v, int): return "(AttrVal.int (%d))" % v
    return "(AttrVal.str %s)" % lstr(v)
def loptint(v):
    return "(none : Option Int)" if v is None else "(some ((%d) : Int))" % v

ALPH = "abzAZ_.09 -\"\\\t"
def rstr(maxlen=8):
    k = rnd.random()
    if k < 0.15: return rnd.choice(["none", "None", "AUTO", "auto", "help", "alias", "deprecated", "a.b", "_x1", "", "x"])
    return "".join(rnd.choice(ALPH) for _ in range(rnd.randint(0, maxlen)))
def rname():
    return rnd.choice(["help", "alias", "deprecated", "caption", "short_caption", "optional", "type", "multiple", "expert_level", "style", ""]) if rnd.random() < 0.8 else rstr()
def rattr():
    k = rnd.randint(0, 5)
    return [None, freephil.Auto, rstr(), rnd.choice([True, False]), rnd.randint(-3, 3), rstr()][k]
def rint(lo=-3, hi=40):
    return rnd.randint(lo, hi)
def roptint():
    return None if rnd.random() < 0.25 else rnd.randint(-2, 4)

GEN = {"str": (rstr, lstr), "attr": (rattr, lattr), "int": (rint, lint), "bool": (lambda: rnd.random() < 0.5, lbool),
       "optint": (roptint, loptint)}
def show(v):
    if isinstance(v, bool): return "true" if v else "false"
    if isinstance(v, str): return " ".join(str(ord(c)) for c in v)
    return str(v)

lean = ["import Phil.Generated.Translated", "open Phil", "def shS (s : Str) : String := \" \".intercalate (s.map (fun c => toString c.toNat))"]
expected = []
N = 300
tree = ast.parse(open("/repo/src/freephil/common.py").read())
sets = T.char_sets(tree)
for t in T.TARGETS:
    if t.get("kind") != "expr": continue
    fn = T.FnX(t, T.find_func(tree, t["cls"], t["func"]), sets, {})
    expr, _ = fn.picked()
    code = compile(ast.Expression(expr), "<picked>", "eval")
    rows = []
    for _ in range(N):
        vals = [GEN[ty][0]() for _, ty in t["params"]]
        loc = {}
        class Self: pass
        selfo = Self()
        for (p, ty), v in zip(t["params"], vals):
            if p.startswith("self."): setattr(selfo, p[5:], v)
            else: loc[p] = v
        loc["self"] = selfo
        try:
            r = eval(code, C.__dict__, loc)
        except TypeError as e:
            continue
        r = bool(r) if t["ret"] == "bool" else r
        rows.append("(%s)" % " ".join([T.tname(t) if False else "Gen." + T.tname(t)] + [GEN[ty][1](v) for (_, ty), v in zip(t["params"], vals)]))
        expected.append((T.tname(t), show(r)))
    conv = "toString" if t["ret"] == "bool" else "shS"
    lean.append("#eval IO.println (\"\\n\".intercalate ([%s].map %s))" % (",\n ".join(rows), conv))

# full_path on hand-made chains (module-level function takes any object with .name / .primary_parent_scope)
class O:
    def __init__(self, name, parent): self.name, self.primary_parent_scope = name, parent
rows = []
for _ in range(600):
    names = [rnd.choice(["a", "b.c", "", "x1", "scope", "_"]) if rnd.random() < 0.9 else rstr() for _ in range(rnd.randint(0, 5))]
    if rnd.random() < 0.7: names.append("")      # the root scope
    par = None
    for n in reversed(names): par = O(n, par)
    own = rnd.choice(["d", "a.b", "", "x"])
    expected.append(("full_path", show(C.full_path(O(own, par)))))
    rows.append("(Gen.full_path %s [%s])" % (lstr(own), ", ".join(lstr(n) for n in names)))
lean.append("#eval IO.println (\"\\n\".intercalate ([%s].map shS))" % ",\n ".join(rows))
# full_path on parsed trees
txt = "a { b.c { d = 1\n e { f = 2 } }\n g = 3 }\nh = 4\n i.j { k.l = 5 }"
root = freephil.parse(txt)
def walk(o):
    for x in o.objects:
        yield x
        if x.is_scope:
            for y in walk(x): yield y
rows = []
for o in walk(root):
    ch = []; p = o.primary_parent_scope
    while p is not None: ch.append(p.name); p = p.primary_parent_scope
    expected.append(("full_path_parsed", show(o.full_path())))
    rows.append("(Gen.full_path %s [%s])" % (lstr(o.name), ", ".join(lstr(n) for n in ch)))
lean.append("#eval IO.println (\"\\n\".intercalate ([%s].map shS))" % ",\n ".join(rows))
# .lower().strip() on ASCII strings with the whitespace of the isspace table
WS = " \t\n\r\x0b\x0c\x1c\x1d\x1e\x1f\x85\xa0\u2003\u3000"
rows = []
for _ in range(600):
    s = "".join(rnd.choice(WS + "aAzZ1nNoOeEtTrRuU") for _ in range(rnd.randint(0, 7)))
    expected.append(("lower_strip", show(s.lower().strip())))
    rows.append("(Phil.strip (Py.lower %s))" % lstr(s))
lean.append("#eval IO.println (\"\\n\".intercalate ([%s].map shS))" % ",\n ".join(rows))
os.makedirs("/var/tmp/pf4/scratch", exist_ok=True)
open("/var/tmp/pf4/scratch/Val3.lean", "w").write("\n".join(lean) + "\n")
out = subprocess.run(["lake", "env", "lean", "/var/tmp/pf4/scratch/Val3.lean"], cwd="/var/tmp/pf4/lean", capture_output=True, text=True)
got = out.stdout.split("\n")
# each #eval prints its rows then a newline
got = [g for g in got]
# align: the outputs are printed in order; an empty string result is an empty line, so compare by blocks
import itertools
lines = out.stdout.split("\n")
if out.returncode != 0: print(out.stdout[-3000:], out.stderr[-3000:])
bad = 0; i = 0; per = {}
for name, e in expected:
    g = lines[i] if i < len(lines) else "<missing>"; i += 1
    per.setdefault(name, [0, 0])[0] += 1
    if g.strip() != e.strip():
        per[name][1] += 1; bad += 1
        if bad < 10: print("MISMATCH", name, "python:", e, "lean:", g)
print("compared", len(expected), "mismatches", bad, per)
# all code points: lower/strip commute in Python itself
cp_bad = [c for c in range(0x110000) if not (0xd800 <= c < 0xe000) and chr(c).lower().strip() != chr(c).strip().lower()]
print("code points where .lower().strip() != .strip().lower():", cp_bad[:10], len(cp_bad))
