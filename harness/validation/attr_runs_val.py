"""Validation of the closed form `reflowStr` / `wsNorm` / `reflowStable` (Phil/Proofs/AttrRoundTrip2.lean, Props/C01Attrs2.lean)
against the real library: random help texts with RUNS of blanks x print widths x indentation.
Python side: definition.show -> parse -> show.  Lean side: `#eval` of attrLineText / reflowStr / wsNorm on the same inputs.
Usage: cd /verif (or a copy) && /venv/bin/python harness/validation/attr_runs_val.py     (needs the built .lake)
"""
import os, subprocess
ROOT = os.path.abspath(os.path.join(os.path.dirname(__file__), "..", ".."))
SCR = os.path.join(ROOT, "scratch"); os.makedirs(SCR, exist_ok=True)
import warnings; warnings.filterwarnings("ignore")
import random, sys, json, subprocess, io
sys.path.insert(0,"/repo/src")
import freephil
rng = random.Random(20260930)
def rand_s():
    n = rng.randint(1,7)
    out = " " * rng.choice([0,0,0,1,3])
    for i in range(n):
        out += "".join(rng.choice("abcxyz-.,") for _ in range(rng.randint(1,9)))
        if i < n-1: out += " " * rng.choice([1,1,2,3,5,8])
    out += " " * rng.choice([0,0,0,1,2])
    return out
cases=[]
for k in range(400):
    s = rand_s(); w = rng.randint(14,40); depth = rng.choice([0,0,1,2])
    src = "a = 1\n"
    obj = freephil.parse(src)
    d = obj.objects[0]
    d.help = s
    # nest to get a prefix of 2*depth blanks
    pre = "  "*depth
    out = io.StringIO()
    try:
        d.show(out=out, prefix=pre, attributes_level=1, print_width=w)
    except ValueError:
        cases.append((s,w,depth,None,None,None)); continue
    text1 = out.getvalue()
    try:
        d2 = freephil.parse(text1).objects[0]
    except Exception as e:
        cases.append((s,w,depth,text1,None,None)); continue
    v2 = d2.help
    out = io.StringIO(); d2.show(out=out, prefix=pre, attributes_level=1, print_width=w)
    text2 = out.getvalue()
    cases.append((s,w,depth,text1,v2,text2))
json.dump(cases, open(os.path.join(SCR,"val1.json"),"w"))
def lit(s): return '"' + s.replace("\\","\\\\").replace('"','\\"').replace("\n","\\n") + '"'
with open(os.path.join(ROOT,"lean","Val1.lean"),"w") as f:
    f.write("import Phil.Proofs.AttrRoundTrip2\nopen Phil\n")
    f.write("def cases : List (String × Int × Nat) := [\n")
    f.write(",\n".join(f"  ({lit(s)}, {w}, {depth})" for (s,w,depth,_,_,_) in cases))
    f.write("]\n")
    f.write('''def hx (s : Str) : String := String.intercalate "," (s.map (fun c => toString c.toNat))
def run : IO Unit := do
  for c in cases do
    let s : String := c.1
    let w : Int := c.2.1
    let depth : Nat := c.2.2
    let pre : Str := List.replicate (2*depth) ' '
    let one := strOneLine pre w "help" s.toList
    let ok := strWrapRunsOK pre w "help" s.toList
    let v := reflowStr pre w "help" s.toList
    let t1 := attrLineText pre w "help" (.str s.toList)
    let t2 := attrLineText pre w "help" (.str v)
    IO.println s!"{one} {ok} {hx v} | {hx t1} | {hx t2} | {hx (wsNorm v)} | {hx (wsNorm s.toList)}"
#eval run
''')
print(len(cases))

out = subprocess.run(["lake","env","lean","Val1.lean"], cwd=os.path.join(ROOT,"lean"), capture_output=True, text=True).stdout
open(os.path.join(SCR,"val1.out"),"w").write(out)
os.remove(os.path.join(ROOT,"lean","Val1.lean"))
import json
cases=json.load(open(os.path.join(SCR,"val1.json")))
lines=[l.rstrip("\n") for l in open(os.path.join(SCR,"val1.out")) if "|" in l]
assert len(lines)==len(cases),(len(lines),len(cases))
def unhx(x): 
    x=x.strip()
    return "".join(chr(int(t)) for t in x.split(",")) if x else ""
import re
n_in=0; bad=0; same2=0; diff2=0; oneline=0; notroom=0
for (s,w,depth,t1,v2,t2),l in zip(cases,lines):
    head,rest=l.split(" ",2)[0:2], l.split(" ",2)[2]
    one, ok = head[0]=="true", head[1]=="true"
    parts=rest.split("|")
    v=unhx(parts[0]); lt1=unhx(parts[1]); lt2=unhx(parts[2]); nv=unhx(parts[3]); ns=unhx(parts[4])
    if not ok:
        if one: oneline+=1
        else: notroom+=1
        continue
    n_in+=1
    pre="  "*depth
    # python text1 = value line + attr lines; compare the attr lines
    pyattr = "\n".join(t1.split("\n")[1:])
    py2attr = "\n".join(t2.split("\n")[1:])
    good = (pyattr==lt1) and (v2==v) and (py2attr==lt2) and (nv==ns) and (" ".join(s.split())==ns)
    if not good:
        bad+=1; print("MISMATCH",repr(s),w,depth,repr(pyattr),repr(lt1),repr(v2),repr(v))
    if t1==t2: same2+=1
    else: diff2+=1
print("in class",n_in,"mismatch",bad,"second print same",same2,"differs",diff2,"one-line",oneline,"other(out of class)",notroom)
