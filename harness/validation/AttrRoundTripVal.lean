import Phil.Proofs.AttrRoundTrip
open Phil

def hexVal (c : Char) : Nat :=
  if c.isDigit then c.toNat - 48 else if 'a' ≤ c ∧ c ≤ 'f' then c.toNat - 87 else 0

def unhexAux : Nat → List Char → List Char
  | 0, _ => []
  | fuel + 1, a :: b :: c :: d :: rest =>
    Char.ofNat (hexVal a * 4096 + hexVal b * 256 + hexVal c * 16 + hexVal d) :: unhexAux fuel rest
  | _, _ => []
def unhex (s : List Char) : List Char := unhexAux s.length s

def hexDigit (n : Nat) : Char := if n < 10 then Char.ofNat (48 + n) else Char.ofNat (87 + n)
def hex4 (c : Char) : List Char :=
  let n := c.toNat
  [hexDigit (n / 4096 % 16), hexDigit (n / 256 % 16), hexDigit (n / 16 % 16), hexDigit (n % 16)]
def hexStr (s : Str) : String := String.ofList (s.flatMap hex4)

def renderVal : AttrVal → String
  | .none => "None"
  | .auto => "Auto"
  | .str s => "s:" ++ hexStr s
  | .bool b => if b then "True" else "False"
  | .int i => String.ofList (intStr i)
  | .conv c => "t:" ++ String.ofList c.render

mutual
def dumpObj : Obj → String
  | .defn m ws => "D(" ++ String.ofList m.name ++ ";" ++
      String.intercalate "," (defAttrNames.map fun n => n ++ "=" ++ renderVal (m.attrs.get n)) ++ ";" ++
      String.intercalate "," (ws.map fun w => hexStr w.value ++ "/" ++ (match w.quote with | none => "-" | some q => String.ofList q.token)) ++ ")"
  | .scope m os => "S(" ++ String.ofList m.name ++ ";" ++ (if m.mergeNames then "m" else "-") ++ ";" ++
      String.intercalate "," (scopeAttrNames.map fun n => n ++ "=" ++ renderVal (m.attrs.get n)) ++ ";" ++
      dumpObjs os ++ ")"
def dumpObjs : List Obj → String
  | [] => ""
  | x :: xs => dumpObj x ++ dumpObjs xs
end

instance (w : Int) (os : List Obj) (ms : List Str) (ind : Str) : Decidable (WrapsOKs w os ms ind) := decWrapsOKs w os ms ind
instance (os : List Obj) : Decidable (RTAll os) := decRTAll os

def runCase (L w : Int) (text : Str) : String :=
  match parseObjs text with
  | .error _ => "parse-error"
  | .ok objs =>
    let inClass := decide (RTAll (stripAttrsList objs)) && decide (WrapsOKs w (stripAttrsList objs) [] []) &&
      attrsOKsAt L w objs [] && noDeprecatedList objs
    let printed := kidsTextA L w objs [] []
    (if inClass then "1" else "0") ++ "|" ++ hexStr printed ++ "|" ++
      dumpObjs (normAList L objs)

def main (args : List String) : IO Unit := do
  let lines ← IO.FS.lines (args.headD "cases.txt")
  for line in lines do
    match (line.splitOn " ") with
    | [l, w, t] => IO.println (runCase l.toInt! w.toInt! (unhex t.toList))
    | _ => IO.println "bad-line"
