import sys, re, warnings
warnings.filterwarnings("ignore")
sys.path.insert(0, "/repo/src")
import freephil
def codes(s): return ".".join(str(ord(c)) for c in s)
def cav(v):
    if v is None: return "N"
    if v is True: return "B1"
    if v is False: return "B0"
    if isinstance(v, int): return "I%d" % v
    if isinstance(v, str): return "S" + codes(v)
    return "?"
def line_of(x):
    m = re.search(r"line (\d+)", x.where_str or "")
    return int(m.group(1)) if m else 0
def cattrs(x): return cav(x.help) + "," + cav(x.expert_level) + "," + cav(x.optional)
def canon(x):
    dis = "true" if x.is_disabled else "false"
    if x.is_definition:
        return "D|%s|%s|%d|%s|%s" % (codes(x.name), dis, line_of(x),
            ";".join("%s@%d" % (codes(w.value), w.line_number or 0) for w in x.words), cattrs(x))
    return "S|%s|%s|%d|%s[%s]" % (codes(x.name), dis, line_of(x), cattrs(x), canonL(x.objects))
def canonL(os): return "".join(canon(o) + " " for o in os)
n = bad = 0
for ln in sys.stdin:
    ln = ln.rstrip("\n")
    if "\t" not in ln: continue
    h, spec = ln.split("\t")
    text = "".join(chr(int(c)) for c in h.split(".")) if h else ""
    n += 1
    try:
        got = canonL(freephil.parse(input_string=text).objects)
    except Exception as e:
        got = "ERR %s %s" % (type(e).__name__, e)
    if got != spec:
        bad += 1
        if bad <= 5: print("MISMATCH", repr(text), "\n spec  ", spec, "\n python", got)
print("compared", n, "mismatches", bad)
