import random, sys, json
sys.path.insert(0, '/repo/src')
import warnings; warnings.filterwarnings("ignore")
import freephil

VALS = {"int": ["1", "2", "3", "4"], "bool": ["yes", "no", "True", "False"], "str": ["x", "y", "\"x y\"", "z"], None: ["x", "y", "p q", "z"]}

def gen_kids(rng, depth, top=False):
    """list of nodes; node = dict(k, name, mult, opt, dis, type, val / kids, further=[...])"""
    out = []
    dn = rng.sample(["a", "b", "c", "d"], rng.choice([1, 2, 2, 3]))
    sn = rng.sample(["s", "t", "u"], rng.choice([0, 1, 1, 2]) if depth > 0 else 0)
    names = dn + sn
    rng.shuffle(names)
    for n in names:
        if n in "abcd":
            t = rng.choice(["int", "bool", "str", None])
            mult = rng.random() < 0.5
            node = {"k": "d", "name": n, "mult": mult, "opt": rng.choice([None, None, False]) if mult else None,
                    "dis": rng.random() < 0.08, "type": t, "val": rng.choice(VALS[t]), "further": []}
            if mult and rng.random() < 0.6:
                node["further"] = [("d", rng.choice(VALS[t]), rng.random() < 0.1) for _ in range(rng.choice([1, 2, 3]))]
            if mult and rng.random() < 0.04:
                node["further"].append(("s", None, False))       # clash inside the master
        else:
            mult = rng.random() < 0.6
            kids = gen_kids(rng, depth - 1)
            node = {"k": "s", "name": n, "mult": mult, "opt": rng.choice([None, None, False]) if mult else None,
                    "dis": rng.random() < 0.06, "kids": kids, "further": []}
            if mult and rng.random() < 0.6:
                node["further"] = [("s", src_body(rng, kids, 1), rng.random() < 0.1) for _ in range(rng.choice([1, 2]))]
            if mult and rng.random() < 0.03:
                node["further"].append(("d", "1", False))
        out.append(node)
    return out

def render_master(nodes, ind=""):
    # first occurrences, then the further ones interleaved at random positions after their first
    items = []
    for n in nodes:
        items.append(("first", n))
    lines = []
    pending = []
    for kind, n in items:
        bang = "!" if n["dis"] else ""
        if n["k"] == "d":
            lines.append(ind + bang + n["name"] + " = " + n["val"])
            if n["type"]: lines.append(ind + ".type=" + n["type"])
            if n["mult"]: lines.append(ind + ".multiple=True")
            if n["opt"] is False: lines.append(ind + ".optional=False")
        else:
            lines.append(ind + bang + n["name"])
            if n["mult"]: lines.append(ind + ".multiple=True")
            if n["opt"] is False: lines.append(ind + ".optional=False")
            lines.append(ind + "{")
            lines += render_master(n["kids"], ind + "  ")
            lines.append(ind + "}")
        for f in n["further"]:
            pending.append((n, f))
        # emit some pending further occurrences now, others later
        keep = []
        for (m, f) in pending:
            if random_state.random() < 0.5:
                lines += render_further(m, f, ind)
            else:
                keep.append((m, f))
        pending = keep
    for (m, f) in pending:
        lines += render_further(m, f, ind)
    return lines

def render_further(m, f, ind):
    k, body, dis = f
    bang = "!" if dis else ""
    if k == "d":
        return [ind + bang + m["name"] + " = " + (body or "1")]
    if body is None:
        return [ind + bang + m["name"] + " {", ind + "}"]
    return [ind + bang + m["name"] + " {"] + [ind + "  " + l for l in body] + [ind + "}"]

def src_body(rng, kids, depth):
    """source lines addressing the master kids (relative)"""
    lines = []
    for _ in range(rng.choice([0, 1, 2, 3])):
        r = rng.random()
        if r < 0.08:
            lines.append(rng.choice(["zz = 1", "q { w = 2 }"]))
            continue
        if not kids: continue
        n = rng.choice(kids)
        bang = "!" if rng.random() < 0.07 else ""
        if n["k"] == "d":
            if rng.random() < 0.04:
                lines.append(bang + n["name"] + " { k = 1 }")       # clash
            else:
                lines.append(bang + n["name"] + " = " + rng.choice(VALS[n["type"]]))
        else:
            if rng.random() < 0.04:
                lines.append(bang + n["name"] + " = 1")      # clash
                continue
            sub = src_body(rng, n["kids"], depth + 1)
            if sub and rng.random() < 0.35 and len(sub) == 1 and "{" not in sub[0] and not sub[0].startswith("!"):
                lines.append(bang + n["name"] + "." + sub[0])
            else:
                lines.append(bang + n["name"] + " {")
                lines += ["  " + l for l in sub]
                lines.append("}")
    return lines

def dump(o, pre=""):
    out = []
    for c in o.objects:
        if c.is_definition:
            out.append("D %s%s %d %s" % (pre, c.name, c.is_template, "|".join(w.value for w in c.words)))
        else:
            out.append("S %s%s %d" % (pre, c.name, c.is_template))
            out += dump(c, pre + c.name + ".")
    return out

def lean_str(s):
    return '"' + s.replace("\\", "\\\\").replace('"', '\\"').replace("\n", "\\n") + '"'

random_state = random.Random(0)
def main(n, seed):
    global random_state
    rng = random.Random(seed)
    random_state = rng
    cases = []
    for i in range(n):
        kids = gen_kids(rng, rng.choice([0, 1, 1, 2]), top=True)
        mt = "\n".join(render_master(kids)) + "\n"
        st = "\n".join(src_body(rng, kids, 0) + src_body(rng, kids, 0)) + "\n"
        try:
            M = freephil.parse(mt); S = freephil.parse(st)
        except Exception as ex:
            continue
        try:
            r, un = M.fetch(sources=[S], track_unused_definitions=True)
            py = {"ok": True, "res": dump(r), "un": [u.path for u in un]}
            try:
                r2 = M.fetch(source=r)
                py["idem"] = dump(r2) == dump(r)
            except Exception as ex:
                py["idem"] = "EXC " + str(ex)[:60]
        except Exception as ex:
            py = {"ok": False, "err": str(ex)[:80]}
        cases.append({"m": mt, "s": st, "py": py})
    json.dump(cases, open("val_cases.json", "w"))
    with open("val4.lean", "w") as f:
        f.write("import Phil.Proofs.FetchTreeMS4\nimport Phil.Props.C05TreeMS3\nopen Phil Phil.C05\n")
        f.write("def valCases : List (String × String) := [\n")
        f.write(",\n".join("  (%s, %s)" % (lean_str(c["m"]), lean_str(c["s"])) for c in cases))
        f.write("]\n")
        f.write('''def valLine (c : String × String) : String :=
  let M := tmObjs c.1
  let S := tmObjs c.2
  let inC := masterCheck_ms2 M && srcCheck S
  let keys := keysDefinedMS2B envTm [] M S
  let nc := ms2NoClash [] M S
  let un := ((allDefinitions S).filter (fun x => !(ms2Paths [] M []).contains x.1)).map (fun x => String.ofList x.1)
  let un2 := ((allDefinitions S).filter (fun x => !((allDefinitions M).map (·.1)).contains x.1)).map (fun x => String.ofList x.1)
  s!"{inC}\\t{keys}\\t{nc}\\t{"§".intercalate un}\\t{"§".intercalate un2}"
#eval valCases.forM (fun c => IO.println (valLine c))
''')
    print(len(cases))
main(int(sys.argv[1]), int(sys.argv[2]))
