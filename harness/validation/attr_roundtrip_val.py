"""PA2 validation: treeTextA / normAList (Phil/Proofs/AttrRoundTrip.lean) against the real freephil.
usage (from lean/): /venv/bin/python ../harness/validation/attr_roundtrip_val.py <seed> <n> <short|long|runs|depfalse|dep3>"""
import sys, random, subprocess, warnings
warnings.filterwarnings("ignore")
sys.path.insert(0, "/repo/src")
import freephil
from freephil import Auto

def hx(s): return "".join("%04x" % ord(c) for c in s)

def rv(v):
    if v is None: return "None"
    if v is Auto: return "Auto"
    if isinstance(v, bool): return "True" if v else "False"
    if isinstance(v, int): return str(v)
    if isinstance(v, str): return "s:" + hx(v)
    return "t:" + str(v)

def dump(o):
    if o.is_definition:
        return "D(%s;%s;%s)" % (o.name, ",".join("%s=%s" % (n, rv(getattr(o, n))) for n in o.attribute_names),
            ",".join("%s/%s" % (hx(w.value), w.quote_token or "-") for w in o.words))
    return "S(%s;%s;%s;%s)" % (o.name, "m" if o.merge_names else "-",
        ",".join("%s=%s" % (n, rv(getattr(o, n))) for n in o.attribute_names), "".join(dump(c) for c in o.objects))

NAMES = ["a", "b", "c", "xy", "foo_1", "Bar", "n2", "long_name_here"]
TYPES = ["int", "float", "str", "bool", "choice", "choice(multi=True)", "int(value_min=0)",
         "int(value_min=-1, value_max=5, allow_none=False)", "floats(size=3)", "ints(size_min=1, size_max=4)",
         "float(value_max=2.5)", "strings", "words", "path", "key", "qstr",
         "floats(value_min=0, allow_none_elements=True)", "None", "float(value_min=-0.5, value_max=1.25)",
         "ints(size=2, value_min=0, value_max=9, allow_auto_elements=True)", "Auto"]
WORDS = ["short", "text", "with", "several", "words", "it's", "x-y", "a,b", "(paren)", "100%", "q\\\"q", "back\\\\slash",
         "semi;colon", "#hash", "{brace}", "None", "end."]

def strval(r, mode):
    k = r.random()
    if k < 0.12: return "None"
    if k < 0.17: return "Auto"
    if k < 0.3: return r.choice(["abc", "x_1", "a.b", "Identifier", "none_", "auto2"])
    if k < 0.36: return r.choice(['"None"', '"auto"', '""', '"a"', "'single'"])
    n = r.choice([1, 2, 3, 5, 8, 14, 25]) if mode != "short" else r.choice([1, 2, 3])
    ws = [r.choice(WORDS) for _ in range(n)]
    sep = " "
    if mode == "runs" and r.random() < 0.5:
        return '"' + "".join(w + r.choice([" ", "  ", "   ", "\n", " \n "]) for w in ws).rstrip() + r.choice(["", " "]) + '"'
    return '"' + sep.join(ws) + '"'

DEF_ATTRS = ["help", "caption", "short_caption", "optional", "type", "multiple", "input_size", "style", "expert_level", "deprecated", "alias"]
SC_ATTRS = ["style", "help", "caption", "short_caption", "optional", "multiple", "sequential_format", "disable_add", "disable_delete", "expert_level", "alias"]

def attrval(r, n, mode):
    if n in ("optional", "multiple", "disable_add", "disable_delete"):
        return r.choice(["True", "False", "None", "Auto", "yes", "no", "1", "0"])
    if n == "deprecated":
        return r.choice(["True", "None"]) if mode != "depfalse" else r.choice(["True", "False", "None", "Auto"])
    if n in ("input_size", "expert_level"):
        return r.choice(["0", "1", "2", "5", "-3", "None", "Auto", "12"])
    if n == "type": return r.choice(TYPES)
    if n == "sequential_format": return "None"
    return strval(r, mode)

def gen(r, depth, ind, mode, pdep):
    out = []
    for _ in range(r.choice([1, 1, 2, 3])):
        nm = r.choice(NAMES)
        if r.random() < 0.2: nm = nm + "." + r.choice(NAMES)
        if r.random() < 0.08: nm = nm + "." + r.choice(NAMES)
        if depth > 0 and r.random() < 0.4:
            out.append(ind + nm)
            for n in SC_ATTRS:
                if r.random() < 0.25: out.append(ind + "  ." + n + " = " + attrval(r, n, mode))
            out.append(ind + "{")
            if r.random() < 0.85: out += gen(r, depth - 1, ind + "  ", mode, pdep)
            out.append(ind + "}")
        else:
            vals = [r.choice(["1", "abc", "2.5", '"x y"', "'z'", "*a", "b", '"q\\"uote"', "-3"]) for _ in range(r.choice([1, 1, 2, 3]))]
            if r.random() < 0.1: vals += ["longvalueword%d" % k for k in range(r.choice([3, 8]))]
            out.append(ind + nm + " = " + " ".join(vals))
            for n in DEF_ATTRS:
                p = 0.3 if n != "deprecated" else pdep
                if r.random() < p: out.append(ind + "  ." + n + " = " + attrval(r, n, mode))
    return out

def main():
    seed = int(sys.argv[1]); N = int(sys.argv[2]); mode = sys.argv[3]
    r = random.Random(seed)
    cases = []
    while len(cases) < N:
        text = "\n".join(gen(r, r.choice([0, 1, 2, 3]), "", mode, (0.03 if mode not in ("depfalse","dep3") else 0.3))) + "\n"
        try:
            t = freephil.parse(input_string=text)
        except Exception as e:
            continue
        L = (3 if mode == "dep3" else r.choice([1, 2, 2, 3, 3])); w = r.choice([30, 40, 50, 60, 79, 100, 200])
        cases.append((text, L, w, t))
    inp = "".join("%d %d %s\n" % (L, w, hx(text)) for text, L, w, t in cases)
    import tempfile, os
    here = os.path.dirname(os.path.abspath(__file__))
    with tempfile.NamedTemporaryFile("w", suffix=".txt", delete=False) as f:
        f.write(inp); casefile = f.name
    res = subprocess.run(["lake", "env", "lean", "--run", os.path.join(here, "AttrRoundTripVal.lean"), casefile],
                         capture_output=True, text=True, cwd=os.path.join(here, "..", "..", "lean"))
    os.unlink(casefile)
    lines = [l for l in res.stdout.split("\n") if l and (l[:2] in ("1|","0|") or l=="parse-error" or l=="bad-line")]
    assert len(lines) == len(cases), (len(lines), len(cases), res.stderr[:500], res.stdout[:500])
    stats = dict(inclass=0, agree=0, outclass=0, out_agree=0, out_differ=0, second_print_same=0, perr=0, wrapped_in=0)
    bad = []
    for (text, L, w, t), line in zip(cases, lines):
        if line == "parse-error":
            stats["perr"] += 1; continue
        flag, printed, dmp = line.split("|")
        try:
            s1 = t.as_str(attributes_level=L, print_width=w)
            t2 = freephil.parse(input_string=s1)
            d2 = "".join(dump(c) for c in t2.objects)
            s2 = t2.as_str(attributes_level=L, print_width=w)
            ok = (hx(s1) == printed) and (d2 == dmp)
        except Exception as e:
            ok = False; s1 = "EXC %r" % e; d2 = ""; s2 = None
        if flag == "1":
            stats["inclass"] += 1
            if ok:
                stats["agree"] += 1
                if s2 == s1: stats["second_print_same"] += 1
                else: bad.append(("SECOND PRINT", text, L, w, s1, s2))
            else:
                bad.append(("IN CLASS DISAGREE", text, L, w, s1, d2, dmp))
        else:
            stats["outclass"] += 1
            if ok: stats["out_agree"] += 1
            else: stats["out_differ"] += 1
    print(stats)
    for b in bad[:5]:
        print("----"); 
        for x in b: print(repr(x) if not isinstance(x, str) or len(x) < 3000 else x[:3000])
main()
