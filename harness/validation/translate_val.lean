import Phil.Generated.Translated
import Phil.Tok
open Phil

def dec (s : String) : Str := (s.splitOn " ").filterMap (fun t => if t.isEmpty then none else some (Char.ofNat t.toNat!))
def b (s : String) : Bool := s == "1"
def decW (s : String) : Word :=
  let q := s.take 1; let v := dec (s.drop 1).toString
  { value := v, quote := if q.toString == "U" then none else some .d1 }

def check (l : String) : Bool :=
  match l.splitOn "," with
  | ["gps", h, s, t, r] =>
    let ho := if h == "N" then none else some (dec (h.drop 1).toString)
    Gen.get_path_score ho (dec s) (dec t) == r.toInt!
  | ["std", s, r] => Gen.is_standard_identifier (dec s) == b r
  | ["res", s, r] => Gen.is_reserved_identifier (dec s) == b r
  | ["esc", q, s, r] => Gen.escape_python_str (dec q) (dec s) == dec r
  | ["quo", q, s, r] => Gen.quote_python_str (dec q) (dec s) == dec r
  | ["pln", ws, r1, r2] =>
    let w := if ws.isEmpty then [] else (ws.splitOn ";").map decW
    Gen.is_plain_none w == b r1 && Gen.is_plain_auto w == b r2
  | ["rep", s, p, r, o] => Py.replace (dec s) (dec p) (dec r) == dec o
  | ["fnd", s, p, i, c, sw, ew] =>
    Py.find (dec s) (dec p) == i.toInt! && Py.contains (dec s) (dec p) == b c && Py.startswith (dec s) (dec p) == b sw
      && Py.endswith (dec s) (dec p) == b ew
  | ["slc", s, k, a, c, i, sp] =>
    Py.sliceFrom (dec s) k.toInt! == dec a && Py.sliceTo (dec s) k.toInt! == dec c && (i == "X" || Py.index (dec s) k.toInt! == dec i)
      && Phil.joinWith ['|'] (Py.split1 (dec s) 'a') == dec sp
  | _ => false

#eval show IO Unit from do
  let txt ← IO.FS.readFile "../scratch/cases.txt"
  let ls := txt.splitOn "\n"
  let bad := ls.filter (fun l => !check l)
  IO.println s!"{ls.length} cases, {bad.length} mismatches"
  for l in bad.take 10 do IO.println l
