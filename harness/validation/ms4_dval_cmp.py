import json
cases = json.load(open("dval_cases.json"))
lines = [l.rstrip("\n") for l in open("dval_out.txt") if "\t" in l]
assert len(lines) == len(cases), (len(lines), len(cases))
st = dict(total=0, inclass=0, repeat=0, nokeys=0, equal=0, nonempty=0, clash_agree=0, mismatch=0, model_bad=0, restore_eq=0, restore_ne=0, dd_eq=0, dd_ne=0)
bad=[]
for c, l in zip(cases, lines):
    inC, old, keys, nc, res, model = l.split("\t")
    st["total"] += 1
    if inC != "true": continue
    st["inclass"] += 1
    if old == "false": st["repeat"] += 1
    if keys != "true": st["nokeys"] += 1; continue
    res = res.split("§") if res else []
    py = c["py"]
    if nc == "true":
        if model != "OK true true": st["model_bad"] += 1; bad.append(("model", c, l))
        if py["ok"] and py["res"] == res:
            st["equal"] += 1
            if res: st["nonempty"] += 1
            if isinstance(py.get("w"), list):
                if py["w"] == py["r"]: st["restore_eq"] += 1
                else: st["restore_ne"] += 1; bad.append(("restore", c, l))
                if py["dd"] == py["res"]: st["dd_eq"] += 1
                else: st["dd_ne"] += 1
        else: st["mismatch"] += 1; bad.append(("result", c, l))
    else:
        if model != "ERR": st["model_bad"] += 1; bad.append(("model", c, l))
        if (not py["ok"]) and "Incompatible" in py["err"]: st["clash_agree"] += 1
        else: st["mismatch"] += 1; bad.append(("clash", c, l))
print(st)
import sys
for b in bad[:int(sys.argv[1]) if len(sys.argv)>1 else 4]:
    print(b[0]); print(b[1]["m"]); print("--"); print(b[1]["s"]); print(b[1]["py"]); print(b[2][:400]); print("=====")
