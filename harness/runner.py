"""check runner: obligations (Lean build + axiom audit), known findings, correspondence + oracle,
failing-input search, verdict, evidence.  Usage: runner.py <PROPERTY> [--tier quick|thorough] [--replay file]"""
import argparse
import hashlib
import importlib
import json
import os
import random
import re
import subprocess
import sys
import time

HERE = os.path.dirname(os.path.abspath(__file__))
VERIF = os.path.dirname(HERE)
LEAN = os.environ.get("VERIF_LEAN") or os.path.join(VERIF, "lean")
OUT = os.environ.get("VERIF_OUT", VERIF)  # evidence/replays root (mutant self-tests write elsewhere)
sys.path.insert(0, HERE)

ALLOWED_AXIOMS = {"propext", "Classical.choice", "Quot.sound"}
FORBIDDEN = re.compile(r"\b(sorry|admit|native_decide|bv_decide|implemented_by|unsafe)\b|^\s*axiom\s|maxHeartbeats\s+0")

TRUSTED_BASE = [
    "Lean 4.33 kernel; axioms allowed: propext, Classical.choice, Quot.sound (audited with #print axioms on every run)",
    "correspondence harness (generators, canonicaliser, diff, line-protocol driver Main.lean/Wire.lean/Codec.lean)",
    "CPython/OS behaviour taken as parameters: eval, %d/%.10g, int(), str.lower/isspace outside the validated table, textwrap, os.path, os.environ, pickle, deepcopy",
]


class Timeout(Exception):
    pass


def sh(cmd, cwd=None, timeout=None):
    p = subprocess.run(cmd, cwd=cwd, stdout=subprocess.PIPE, stderr=subprocess.STDOUT, timeout=timeout)
    out = p.stdout.decode(errors="replace")
    out = "\n".join(l for l in out.splitlines() if "conda.cli.condarc" not in l)
    return p.returncode, out


def strip_comments(text):
    text = re.sub(r"/-.*?-/", "", text, flags=re.S)
    return "\n".join(l.split("--")[0] for l in text.splitlines())


def lean_deps(module, seen=None):
    """transitive Phil.* imports of a module (files)"""
    seen = seen if seen is not None else {}
    path = os.path.join(LEAN, *module.split(".")) + ".lean"
    if module in seen or not os.path.exists(path):
        return seen
    seen[module] = path
    for m in re.findall(r"^import\s+(Phil\.[\w.]+)", open(path).read(), flags=re.M):
        lean_deps(m, seen)
    return seen


def _audit(prop, modules, theorems, log, tier, broken=None):
    """forbidden-construct grep, axiom audit (and, in the thorough tier, leanchecker + umbrella build) for built modules"""
    broken = broken if broken is not None else []
    module = modules[0]
    # forbidden constructs in the files the property depends on
    deps = {}
    for m_ in modules:
        lean_deps(m_, deps)
    for mod, path in deps.items():
        for i, line in enumerate(strip_comments(open(path).read()).splitlines(), 1):
            if FORBIDDEN.search(line):
                broken.append("forbidden construct in %s:%d: %s" % (mod, i, line.strip()[:80]))
    # axiom audit
    adir = os.path.join(LEAN, ".audit")
    os.makedirs(adir, exist_ok=True)
    afile = os.path.join(adir, prop + ".lean")
    with open(afile, "w") as f:
        for m_ in modules:
            f.write("import %s\n" % m_)
        for t in theorems:
            f.write("#print axioms %s\n" % t)
    rc, out = sh(["lake", "env", "lean", afile], cwd=LEAN, timeout=900)
    discharged = 0
    for t in theorems:
        m = re.search(r"'%s' (does not depend on any axioms|depends on axioms: \[([^\]]*)\])" % re.escape(t), out)
        if not m:
            broken.append("theorem %s missing or not checked" % t)
            continue
        axioms = set(a.strip() for a in (m.group(2) or "").split(",") if a.strip())
        bad = axioms - ALLOWED_AXIOMS
        if bad:
            broken.append("theorem %s depends on %s" % (t, sorted(bad)))
        else:
            discharged += 1
    if rc != 0 and not broken:
        broken.append("axiom audit failed: " + out[-300:])
    if tier == "thorough":
        # independent re-check of the compiled module by the toolchain's external checker
        rc, out = sh(["lake", "env", "leanchecker"] + modules, cwd=LEAN, timeout=1500)
        if rc != 0:
            broken.append("leanchecker rejected %s: %s" % (module, out[-300:]))
        else:
            log.append("leanchecker accepted " + module)
        # one environment for everything: all property modules of all properties import together (no name is defined
        # twice, no theorem silently shadows another)
        if os.path.exists(os.path.join(LEAN, "Phil", "Props", "All.lean")):
            rc, out = sh(["lake", "build", "Phil.Props.All"], cwd=LEAN, timeout=1500)
            if rc != 0:
                broken.append("the umbrella import Phil.Props.All does not build: " + out[-300:])
            else:
                log.append("umbrella import of every property module builds")
    return len(theorems), discharged, broken, theorems


def obligations(prop, log, tier="quick"):
    """build the property's theorems and audit their axioms; returns (n_obligations, n_discharged, broken list)"""
    table = json.load(open(os.path.join(HERE, "obligations.json")))
    entry = table.get(prop)
    if entry is None:
        return 0, 0, ["no obligations registered for %s" % prop], []
    modules = entry["module"] if isinstance(entry["module"], list) else [entry["module"]]
    module = modules[0]
    theorems = entry["theorems"]
    broken = []
    # regenerate source-anchored tables (a changed table changes the model, the build re-checks the proofs)
    try:
        import extract_tables
        note = extract_tables.regenerate()
        if note:
            log.append("tables: " + note)
    except Exception as e:  # the extractor never raises an alarm by itself
        log.append("tables: extractor failed (%s: %s); committed tables used" % (type(e).__name__, e))
    # regenerate the translated leaf functions (Phil/Generated/Translated.lean; equalities in Phil.Props.Translated)
    try:
        import translate
        note = translate.regenerate()
        if note:
            log.append("translate: " + note)
            print("note: translate: " + note)
    except Exception as e:  # the translator never raises an alarm by itself
        log.append("translate: translator failed (%s: %s); committed definitions used" % (type(e).__name__, e))
    rc, out = sh(["lake", "build", "drv"] + modules, cwd=LEAN, timeout=1500)
    if rc != 0:
        # a re-translated leaf function whose equality proof no longer goes through breaks ONLY the obligations stated in
        # Phil/Props/Translated*.lean: the rest of the property's theorems do not import them and are still audited
        failed0 = sorted(set(f for f, _ in re.findall(r"error: (Phil/[\w/]+\.lean):(\d+)", out)))
        rest = [m_ for m_ in modules if not m_.startswith("Phil.Props.Translated")]
        if failed0 and all(f.startswith("Phil/Props/Translated") for f in failed0) and rest and len(rest) < len(modules):
            rc_r, out_r = sh(["lake", "build", "drv"] + rest, cwd=LEAN, timeout=1500)
            if rc_r == 0:
                lost = [t for t in theorems if t.startswith("Phil.Translated")]
                broken.append("the equality between the re-translated source function(s) and the model no longer checks (%s): %s"
                              % (", ".join(failed0), ", ".join(lost[:8]) + (" ..." if len(lost) > 8 else "")))
                log.append(out[-1500:])
                n_all = len(theorems)
                theorems_kept = [t for t in theorems if not t.startswith("Phil.Translated")]
                n2, d2, b2, _ = _audit(prop, rest, theorems_kept, log, tier)
                return n_all, d2, broken + b2, theorems
    if rc != 0:
        log.append(out[-3000:])
        # which theorem files failed
        failed = re.findall(r"error: (Phil/[\w/]+\.lean):(\d+)", out)
        broken.append("lake build %s failed: %s" % (module, sorted(set(f for f, _ in failed))[:5] or out[-300:]))
        # the driver is needed for the correspondence; try to build it alone
        rc2, out2 = sh(["lake", "build", "drv"], cwd=LEAN, timeout=1500)
        if rc2 != 0:
            broken.append("driver build failed")
        return len(theorems), 0, broken, theorems
    return _audit(prop, modules, theorems, log, tier, broken)


class Ctx:
    """what a property module sees"""

    def __init__(self, prop, tier, seed, mode, deadline):
        self.prop = prop
        self.tier = tier
        self.seed = seed
        self.mode = mode  # "normal" | "search"
        self.deadline = deadline
        self.rng = random.Random(seed)
        self.evaluations = 0
        self.distinct = set()
        self.counts = {}
        self.samples = []
        self.disagreements = []  # {"op":..., "case":..., "model":..., "impl":...}
        self.failures = []  # {"case":..., "what":..., "finding": id|None, "model_violates": bool|None}
        self.unsupported = 0
        self.traces = 0
        self.exhaustive = False
        self.notes = []

    def scale(self, quick, thorough, search=None):
        if self.mode == "search":
            return search if search is not None else thorough
        return quick if self.tier == "quick" else thorough

    def time_left(self):
        return self.deadline - time.time()

    def count(self, tag, n=1):
        self.counts[tag] = self.counts.get(tag, 0) + n

    def case(self, key, nontrivial=True):
        self.evaluations += 1
        if nontrivial:
            self.distinct.add(hashlib.blake2b(repr(key).encode(), digest_size=8).digest())

    def sample(self, s):
        if len(self.samples) < 6:
            self.samples.append(s)

    def disagree(self, op, case, model, impl):
        self.disagreements.append({"op": op, "case": case, "model": model, "impl": impl})

    def fail(self, case, what, finding=None, model_violates=None):
        self.failures.append({"case": case, "what": what, "finding": finding, "model_violates": model_violates})

    def corr(self, op, cases, requests, impl_answers, compare_site=True, proj=None):
        """compare driver answers with implementation answers; `proj` restricts successful answers to the
        observables the property mentions"""
        from common import run_model, same_outcome
        answers = run_model(requests)
        for c, a, i in zip(cases, answers, impl_answers):
            if proj is not None and a and i and a[0] == "ok" and i[0] == "ok":
                s = same_outcome(["ok", proj(a[1])], ["ok", proj(i[1])], compare_site)
            else:
                s = same_outcome(a, i, compare_site)
            self.traces += 1
            if s is None:
                self.unsupported += 1
            elif not s:
                self.disagree(op, c, a, i)
        return answers


def load_findings(prop):
    path = os.path.join(VERIF, "known_findings.json")
    if not os.path.exists(path):
        return []
    return [f for f in json.load(open(path)) if f.get("property") == prop]


def write_replay(prop, payload):
    os.makedirs(os.path.join(OUT, "replays"), exist_ok=True)
    h = hashlib.blake2b(json.dumps(payload, sort_keys=True, default=str).encode(), digest_size=5).hexdigest()
    path = os.path.join("replays", "%s-%s.json" % (prop, h))
    with open(os.path.join(OUT, path), "w") as f:
        json.dump(payload, f, indent=1, default=str)
    return path


def main():
    ap = argparse.ArgumentParser()
    ap.add_argument("prop")
    ap.add_argument("--tier", default=os.environ.get("VERIF_TIER", "quick"))
    ap.add_argument("--replay")
    args = ap.parse_args()
    prop = args.prop
    tier = args.tier if args.tier in ("quick", "thorough") else "quick"
    seed = int(os.environ.get("VERIF_SEED", "0") or 0)
    t0 = time.time()
    budget = 240 if tier == "quick" else 1500
    deadline = t0 + budget
    log = []
    # hard watchdog: every loop of a check polls ctx.time_left(), but a generator that never returns would not; a run
    # that is still alive long after its budget is a harness fault (exit 2: neither "held" nor "violated")
    import signal

    def _watchdog(signum, frame):
        print("TIMEOUT: check %s still running %ds after its %ds budget (harness fault, no verdict)" % (prop, 900, budget))
        sys.stdout.flush()
        os._exit(2)
    try:
        signal.signal(signal.SIGVTALRM, _watchdog)
        signal.setitimer(signal.ITIMER_VIRTUAL, budget + 900)     # CPU time of this process, so a loaded machine is no fault
    except (ValueError, OSError):
        pass

    mod = importlib.import_module("props." + prop)

    if args.replay:
        payload = json.load(open(args.replay if os.path.isabs(args.replay) else os.path.join(VERIF, args.replay)))
        ok = mod.replay(payload)
        print("replay: property %s on this input" % ("HOLDS" if ok else "FAILS"))
        sys.exit(0 if ok else 1)

    # 1. obligations
    n_obl, n_dis, broken, theorems = obligations(prop, log, tier)
    for b in broken:
        print("OBLIGATION-BROKEN: " + b)

    # 1b. source drift: has the code under this property's model changed since the tie was last recorded?
    try:
        import fingerprint
        drifted, drift_note = fingerprint.drift(prop)
    except Exception as e:  # the detector never raises an alarm by itself
        drifted, drift_note = [], "drift detector failed (%s: %s)" % (type(e).__name__, e)
    if drifted:
        print("note: source drift under the model of %s: %d function(s) changed since the recorded tie (%s): %s"
              % (prop, len(drifted), drift_note, ", ".join(drifted[:6]) + (" ..." if len(drifted) > 6 else "")))

    # 2. known findings
    findings = load_findings(prop)
    active = {}
    for f in findings:
        if f.get("status") == "finding":
            still = mod.finding_still_fails(f) if hasattr(mod, "finding_still_fails") else True
            if still:
                print("KNOWN-FINDING: property=%s %s [%s]" % (prop, f["what"], f["id"]))
                active[f["id"]] = f
            else:
                print("note: listed finding %s no longer fails on this tree" % f["id"])
        elif f.get("status") == "fixed":
            pass  # history only; suppresses nothing

    # 3. correspondence + oracle
    ctx = Ctx(prop, tier, seed, "normal", deadline)
    if os.path.exists(os.path.join(LEAN, ".lake", "build", "bin", "drv")):
        mod.run(ctx)
    else:
        broken.append("driver binary missing; correspondence not run")
        ctx.mode = "impl-only"
        mod.run(ctx)

    def uncovered(c):
        out = []
        for f in c.failures:
            fids = f.get("finding")
            fids = fids if isinstance(fids, (list, tuple)) else [fids]
            if any(fid in active for fid in fids) and f.get("model_violates") is not False:
                continue
            out.append(f)
        return out

    unc = uncovered(ctx)
    searched = False
    deep_reason = None
    if not unc and (broken or ctx.disagreements):
        deep_reason = "tie-broken"
    elif not unc and drifted and ctx.mode == "normal":
        deep_reason = "source-drift"
    if deep_reason:
        # 4. search for a failing input (after a broken tie), or deeper second pass with a fresh seed (after source drift:
        #    the code under the model changed, so the tie is re-established on more inputs before the theorems are believed)
        searched = True
        sctx = Ctx(prop, tier, seed + 7919, "search", min(deadline, time.time() + (60 if tier == "quick" else 600)))
        sctx.hints = ctx.disagreements[:20]
        try:
            mod.run(sctx)
        except Timeout:
            pass
        ctx.evaluations += sctx.evaluations
        ctx.distinct |= sctx.distinct
        ctx.failures += sctx.failures
        ctx.traces += sctx.traces
        ctx.unsupported += sctx.unsupported
        ctx.disagreements += sctx.disagreements
        for k_, v_ in sctx.counts.items():
            ctx.counts["deep:" + k_] = v_
        unc = uncovered(sctx)

    wall = time.time() - t0
    violations = 0
    exit_code = 0
    if unc:
        f = unc[0]
        if hasattr(mod, "shrink"):
            try:
                f = mod.shrink(f) or f
            except Exception as e:  # shrinking is best effort
                log.append("shrink failed: %r" % e)
        path = write_replay(prop, {"property": prop, "kind": "failing-input", "seed": seed, "tier": tier,
                                   "failure": f, "how_to_replay": "./check %s --replay <this file>" % prop,
                                   "broken_obligations": broken, "disagreements": ctx.disagreements[:3]})
        print("VIOLATION property=%s replay=%s" % (prop, path))
        violations = len(unc)
        exit_code = 1
    elif broken or ctx.disagreements:
        path = write_replay(prop, {"property": prop, "kind": "tie-broken", "seed": seed, "tier": tier,
                                   "broken_obligations": broken,
                                   "disagreements": ctx.disagreements[:5],
                                   "note": "theorem or correspondence no longer checks; search found no failing input"})
        print("VIOLATION property=%s replay=%s no-failing-input-found" % (prop, path))
        violations = 1
        exit_code = 1

    level = getattr(mod, "LEVEL", "proof")
    cov = {
        "obligations": n_obl,
        "discharged": n_dis,
        "checker_cmd": "cd lean && lake build drv %s && lake env lean .audit/%s.lean  (#print axioms on %d theorems)"
                       % (getattr(mod, "MODULE", "Phil.Props." + prop), prop, n_obl),
        "trusted_base": TRUSTED_BASE + getattr(mod, "TRUSTED", []),
        "theorems": theorems,
        "evaluations": ctx.evaluations,
        "distinct_nontrivial": len(ctx.distinct),
        "rule": getattr(mod, "RULE", ""),
        "samples": ctx.samples or ["(no sample recorded)"],
        "traces_validated_against_impl": ctx.traces,
        "programs": ctx.traces,
        "disagreements_checked": len(ctx.disagreements),
        "unsupported_by_model": ctx.unsupported,
        "distribution": ctx.counts,
        "oracle_failures": len(ctx.failures),
        "oracle_failures_covered_by_known_findings": len(ctx.failures) - len(unc),
        "search_ran": searched,
        "deep_pass_reason": deep_reason,
        "source_drift": {"changed_functions": drifted[:40], "n_changed": len(drifted), "note": drift_note},
        "exhaustive": bool(ctx.exhaustive),
        "explanation": getattr(mod, "EXPLANATION", "machine-checked theorems about the Lean model + correspondence run tying the model to /repo"),
        "notes": ctx.notes + log[-5:],
    }
    ev = {
        "property_id": prop,
        "tier": tier,
        "seed": seed,
        "level": level,
        "coverage": cov,
        "assumptions": getattr(mod, "ASSUMPTIONS", []),
        "wall_s": round(wall, 2),
        "violations": violations,
    }
    os.makedirs(os.path.join(OUT, "evidence"), exist_ok=True)
    with open(os.path.join(OUT, "evidence", prop + ".json"), "w") as f:
        json.dump(ev, f, indent=1, default=str)
    print("%s tier=%s seed=%d obligations=%d/%d cases=%d distinct=%d traces=%d disagreements=%d oracle_failures=%d (uncovered %d) unsupported=%d wall=%.1fs"
          % (prop, tier, seed, n_dis, n_obl, ctx.evaluations, len(ctx.distinct), ctx.traces,
             len(ctx.disagreements), len(ctx.failures), len(unc), ctx.unsupported, wall))
    sys.exit(exit_code)


if __name__ == "__main__":
    try:
        main()
    except subprocess.TimeoutExpired as e:
        print("TIMEOUT: %s" % e)
        sys.exit(2)
    except Exception:      # a fault of the harness itself is neither "held" nor "violated"
        import traceback
        traceback.print_exc()
        print("HARNESS-ERROR: the check did not reach a verdict (exit 2)")
        sys.exit(2)
