"""writes /verif/seeded/INDEX.md from the seeded/<id>/ directories and completes each meta.json with what was run"""
import json, os, glob
V = os.path.dirname(os.path.dirname(os.path.abspath(__file__)))
rows = []
for d in sorted(glob.glob(os.path.join(V, "seeded", "C*-*"))):
    name = os.path.basename(d)
    meta = json.load(open(os.path.join(d, "meta.json")))
    def rd(f):
        p = os.path.join(d, f)
        return open(p).read().strip() if os.path.exists(p) else ""
    res = rd("check_result.txt")
    caught = "VIOLATION" in res
    concrete = caught and "no-failing-input-found" not in res
    meta["verified"] = {
        "demo_on_unchanged_tree": rd("demo_unchanged.txt"), "tests_with_patch": rd("tests_with_patch.txt"),
        "demo_with_patch": rd("demo_patched.txt"), "check_on_patched_tree": res,
        "ran": "harness/seed_verify.sh %s <worktree> (scratch copy of /repo at the time, patch applied with git apply; "
               "baseline suite; demo; ./check %s --tier quick via harness/mutant.sh)" % (meta.get("property", name[:3]), meta.get("property", name[:3])),
    }
    notes_p = os.path.join(d, "NOTES.txt")
    json.dump(meta, open(os.path.join(d, "meta.json"), "w"), indent=1)
    rows.append((name, meta.get("property", ""), meta.get("summary", "").replace("|", "/"), meta.get("needs", "").replace("|", "/"),
                 "caught (failing input)" if concrete else ("caught (tie broken, no failing input)" if caught else "MISSED"),
                 open(notes_p).read().strip().replace("\n", " ") if os.path.exists(notes_p) else ""))
with open(os.path.join(V, "seeded", "INDEX.md"), "w") as f:
    f.write("# Seeded faults\n\nWritten by independent sub-agents from the property text alone; confirmed with harness/seed_verify.sh.\n\n")
    f.write("| id | property | change | needs | quick check on the patched tree | what had to be strengthened |\n|---|---|---|---|---|---|\n")
    for r in rows:
        f.write("| %s | %s | %s | %s | %s | %s |\n" % r)
print(len(rows), "faults indexed")
