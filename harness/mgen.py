"""Generators of well-formed masters and of sources written against them (C04-C09, C17, C18, C20)."""
from values import pieces, eval_j, num_j, pynum, _RAISES
from common import enc

NAMES = ["a", "b", "c", "d", "e", "f", "g", "h", "n1", "x_y"]
SNAMES = ["s", "t", "u", "grp", "opts"]

# type -> (list of default texts, list of valid source texts, list of invalid source texts)
TYPES = {
    "int": (["1", "None", "4/2", "Auto"], ["2", "3", "-7", "None", "10", "Auto", "auto"], ["x", "1.5", "inf", '"None"']),
    "int(value_min=0, value_max=9)": (["1"], ["0", "9", "5"], ["-1", "10"]),
    "int(allow_none=False)": (["2"], ["3", "4"], ["None"]),
    "float": (["1.5", "2", "None", "0.5"], ["2.5", "1e-3", "-0.25", "3", "0.50000000000001", "1.5000000000001"], ["x"]),
    "float(value_min=0)": (["0.5"], ["0", "7.25", "0.50000000000001"], ["-1"]),
    "bool": (["True", "False", "yes", "None"], ["True", "False", "no", "on", "0"], ["maybe"]),
    "str": (["x", '"a b"', "None", "a b", "Auto"], ["y", '"p q"', "'it'", "None", "a  b", '"None"', '"Auto"', "Auto", "'none'"], []),
    "qstr": (["x", '"a b" c', "None", '"""a b""" c'], ["y", "'p q' r", '"None"', "None", "'''p q'''"], []),
    "path": (["x.dat", "None", "Auto"], ["/tmp/y", '"a b/c"', '"None"', '"Auto"', "None"], []),
    "key": (["k1", "None"], ["k2", "None", '"None"', "Auto"], []),
    "ints": (["1 2", "None"], ["3", "4 5 6", "1,2"], ["x", "1.5"]),
    "ints(size=2)": (["1 2"], ["3 4"], ["1", "1 2 3"]),
    "floats": (["1.5 2"], ["0.5", "1 2 3"], ["x"]),
    "floats(size_max=2, value_min=0)": (["1"], ["0.5 2"], ["1 2 3", "-1"]),
    "strings": (["a b", "None", "Auto"], ["c", "d 'e f'", '"None"', 'a "Auto"', "Auto", "None"], []),
    "words": (["a 'b c'", "None", 'a """b c"""', "'''p q''' r"], ["d", "e f", '"None"', "None", "Auto", '"""t u"""'], []),
    "choice": (["a *b c", "a b c", "*a b c d", "lo *hi", "x *a"], ["a", "*c", "c", "None"], ["zz", "*a *b"]),
    "choice(multi=True)": (["*a b *c", "a b c", "a *d e", "*lo hi mid"], ["a", "*a *b", "a+b", "None"], ["zz"]),
    None: (["x y", "1", "None", "Auto"], ["p", "q r", "'s t'", '"None"', "'Auto'", "None"], []),
}

# Lexical escapes inside value texts (opt-in: MasterGen(escapes=p) / SourceGen(escapes=p), p = share of the text-typed
# values written this way).  The tokenizer un-escapes `\\` and `\<quote>` inside quoted words, the printer escapes them again and
# the parser gives ONE unquoted backslash at the end of a line the meaning "the value goes on in the next line".  Every value
# below is well-formed and prints/re-parses to itself; what they vary is where a backslash ends up after un-escaping:
ESC_WORDS = [
    '"\\\\"', "'\\\\'", '"""\\\\"""',          # a quoted word whose value IS one backslash, in each quote style
    '"a\\\\"', '"C:\\\\d\\\\"', "'p q\\\\'",      # quoted words that contain / end in a backslash
    '"\\\\\\\\"',                               # value = two backslashes
    '"a\\"b"', "'it\\'s'", '"\\""',             # escaped quote characters
    "a\\b", "a\\", "\\\\",                     # unquoted words with backslashes (never a lone one: that is the continuation)
]
ESC_TYPES = {"str": 2, "qstr": 3, "path": 1, "key": 1, "strings": 3, "words": 3, None: 3}      # type -> most words per value


def esc_value(r, t):
    """a value text for the text-like type t: 1..k words, at least one from ESC_WORDS, any of them possibly last, written on
    one line or continued over two with the unquoted continuation backslash"""
    k = r.randint(1, ESC_TYPES[t])
    ws = [r.choice(ESC_WORDS) if r.random() < 0.7 else r.choice(["x", "'p q'", "z9"]) for _ in range(k)]
    if not any(w in ESC_WORDS for w in ws):
        ws[r.randrange(k)] = r.choice(ESC_WORDS)
    if k > 1 and r.random() < 0.25:
        j = r.randrange(1, k)
        return " ".join(ws[:j]) + " \\\n      " + " ".join(ws[j:])
    return " ".join(ws)


# Spellings of values of the numeric list types (opt-in: MasterGen(lists=p) / SourceGen(lists=p), p = share of the ints / floats
# values written this way).  numbers_from_words joins the words, strips any nesting of enclosing ( ) / [ ] pairs and splits at
# blanks, commas and semicolons; a quoted word contributes its content.  So one list has many spellings -- and the EMPTY list,
# which has no plain spelling at all, is a perfectly legal value written `()`, `[]`, `""`, `","` ... (a user switches a list
# parameter off that way).  (text, number of elements); every element is a small non-negative integer, so a value bound never
# refuses it and the size arguments of the type decide alone whether a spelling is valid.
LIST_SPELLINGS = [
    ("()", 0), ("[]", 0), ('""', 0), ("''", 0), ('","', 0), ("(,)", 0), ("( )", 0), ("[ ]", 0), ("([])", 0), ('" "', 0),
    ("(3)", 1), ("[4]", 1), ('"5"', 1), ("6,", 1),
    ("(3, 4)", 2), ("[1,2]", 2), ("3,4", 2), ('"3 4"', 2), ("(1 2)", 2), ("[[5, 6]]", 2), ('"7;8"', 2),
    ("(7, 8, 9)", 3), ("[1 2 3]", 3), ('"1,2" 3', 3),
]


def is_number_list(t):
    return bool(t) and t.split("(")[0] in ("ints", "floats")


def list_size_bounds(t):
    """(least, most) number of elements the type expression t admits, read off its size arguments"""
    import re
    arg = dict(re.findall(r"(size|size_min|size_max)\s*=\s*(\d+)", t))
    if "size" in arg:
        return int(arg["size"]), int(arg["size"])
    return int(arg.get("size_min", 0)), int(arg.get("size_max", 10 ** 9))


def list_value(r, t, empty=0.5):
    """a LIST_SPELLINGS text the numeric list type t accepts; the empty list in `empty` of the draws where t admits it"""
    lo, hi = list_size_bounds(t)
    ok = [s for s, k in LIST_SPELLINGS if lo <= k <= hi]
    nil = [s for s, k in LIST_SPELLINGS if k == 0]
    if lo == 0 and r.random() < empty:
        return r.choice(nil)
    return r.choice(ok)


class MasterGen:
    def __init__(self, rng, depth=2, multiples=True, nested_multiples=False, noncanonical=True, disabled=True,
                 further=True, types=None, deprecated=False, reopen=None, escapes=0, lists=0):
        self.escapes = escapes
        self.lists = lists
        self.deprecated = deprecated
        self.reopen = (__import__("os").environ.get("VERIF_REOPEN") == "1") if reopen is None else reopen
        self.rng = rng
        self.depth = depth
        self.multiples = multiples
        self.nested_multiples = nested_multiples
        self.noncanonical = noncanonical
        self.disabled = disabled
        self.further = further
        self.types = types or list(TYPES)

    def defn(self, name, in_multiple):
        r = self.rng
        t = r.choice(self.types)
        defaults = TYPES[t][0]
        dv = r.choice(defaults if self.noncanonical else defaults[:1])
        if self.escapes and t in ESC_TYPES and r.random() < self.escapes:
            dv = esc_value(r, t)
        if self.lists and is_number_list(t) and r.random() < self.lists:
            dv = list_value(r, t, empty=0.25)
        mult = self.multiples and (self.nested_multiples or not in_multiple) and r.random() < 0.25
        opt = r.choice([None, None, True, False])
        if t and t.startswith("choice") and opt is False and "*" not in dv:
            dv = "*" + dv
        node = {"k": "d", "name": name, "type": t, "default": dv, "multiple": mult, "optional": opt,
                "dis": self.disabled and r.random() < 0.06, "expert": r.choice([None, None, None, 0, 1, 2]),
                "help": r.choice([None, None, "some help"]), "further": [],
                "deprecated": self.deprecated and not mult and r.random() < 0.12}
        if self.deprecated and not node["deprecated"] and r.random() < 0.06:
            node["deprecated_false"] = r.choice(["False", "false", "no", "0", "None"])
        if mult and self.further and not node["dis"] and r.random() < 0.4:
            node["further"] = [r.choice(TYPES[t][1] or [dv]) for _ in range(r.choice([1, 2]))]
            if self.escapes and t in ESC_TYPES and r.random() < self.escapes:
                node["further"][-1] = esc_value(r, t)
            if self.lists and is_number_list(t) and r.random() < self.lists:
                node["further"][-1] = list_value(r, t)
        if mult and self.disabled and not node["dis"] and r.random() < 0.25:
            # a commented-out example instance next to the declaration (`!name = value`): inert
            node["dis_further"] = [r.choice(TYPES[t][1] or [dv])]
        return node

    def scope(self, name, depth, in_multiple):
        r = self.rng
        mult = self.multiples and (self.nested_multiples or not in_multiple) and r.random() < 0.25
        node = {"k": "s", "name": name, "multiple": mult, "optional": r.choice([None, None, True, False]),
                "dis": self.disabled and r.random() < 0.05, "expert": r.choice([None, None, 0, 1]),
                "help": r.choice([None, "scope help"]), "kids": self.objs(depth - 1, in_multiple or mult), "further": []}
        if mult and self.disabled and not node["dis"] and r.random() < 0.25:
            node["dis_further"] = True      # `!name { ... }` after the declaration: a commented-out example instance
        if self.reopen and not mult and not node["dis"] and len(node["kids"]) >= 2 and r.random() < 0.5:
            node["reopen"] = r.randint(1, len(node["kids"]) - 1)    # written as two blocks of the same (non-multiple) scope
        return node

    def objs(self, depth, in_multiple=False):
        r = self.rng
        n = r.choice([1, 2, 2, 3, 4])
        names = r.sample(NAMES, min(n, len(NAMES)))
        snames = r.sample(SNAMES, len(SNAMES))
        out = []
        for nm in names:
            if depth > 0 and r.random() < 0.3 and snames:
                out.append(self.scope(snames.pop(), depth, in_multiple))
            else:
                out.append(self.defn(nm, in_multiple))
        # look-alike names: a sibling parameter spelt <scope name> + one character + <name of a parameter inside that scope>
        # (`s_a` next to `s { a }`): prefix tests on dotted paths must respect the component boundary
        for sc in [o for o in out if o["k"] == "s"]:
            inner = [k["name"] for k in sc["kids"] if k["k"] == "d"]
            if inner and r.random() < 0.2:
                nm = sc["name"] + r.choice(["_", "x", "_"]) + r.choice(inner)
                if nm not in [o["name"] for o in out]:
                    out.append(self.defn(nm, in_multiple))
        return out

    def tree(self):
        return self.objs(self.depth)

    def extension(self, nodes):
        """A plug-in extension of a master that is applied IN PLACE with scope.adopt_scope() (what
        freephil.interface.index.adopt_phil() does): new parameters / new sub-scopes declared inside existing active scopes
        (any .multiple/.optional combination, the root included) and re-declarations of existing parameters (other type /
        attributes / default).  Returns (tree2, text, tags): the master tree after the extension, the plug-in's text and
        what was touched (for the distribution counts).

        adopt_scope() merges by full path down to the second level only (a re-declared object below `s.t` is appended as
        a duplicate sibling, which makes the master ill-formed), so new objects go into scopes of path length <= 2 and
        re-declarations replace parameters of path length <= 2; the caller still checks that the extended master object
        has the structure of render_master(tree2)."""
        import copy
        r = self.rng
        tree2 = copy.deepcopy(nodes)

        freeze_examples(tree2)

        targets = []        # (path, kids list, inside a .multiple scope, kind of the enclosing scopes)

        def walk(ns, path, in_multiple, kind):
            targets.append((path, ns, in_multiple, kind))
            if len(path) >= 2:
                return
            for n in ns:
                if n["k"] == "s" and not n["dis"]:
                    k = kind
                    if n["multiple"]:
                        k = "mandatory_multiple" if n["optional"] is False or kind == "mandatory_multiple" else "multiple"
                    walk(n["kids"], path + (n["name"],), in_multiple or n["multiple"], k)
        walk(tree2, (), False, "plain")
        tags = []
        edits = []          # (path, [nodes written inside that scope])
        fresh_d = ["p1", "p2", "k_new", "w9"]
        fresh_s = ["plug", "more"]
        saved = self.further
        self.further = False        # a repeated new name inside one plug-in is a re-declaration, not a further instance
        try:
            def edit(path, kids, in_multiple, kind):
                new = []
                taken = {k["name"] for k in kids}
                for _ in range(r.choice([1, 1, 2])):
                    k = r.random()
                    if k < 0.65:
                        nm = r.choice(fresh_d)
                        if nm in taken:
                            continue
                        node = self.defn(nm, in_multiple)
                        kids.append(node)
                    elif k < 0.8:
                        nm = r.choice(fresh_s)
                        if nm in taken:
                            continue
                        node = self.scope(nm, 1, in_multiple)
                        node.pop("reopen", None)
                        kids.append(node)
                    else:
                        # re-declaration of an existing parameter that is written once (replaced where it stands)
                        old = [i for i, c in enumerate(kids) if c["k"] == "d" and not c["dis"] and not c["further"]
                               and not c.get("dis_further") and not c.get("redeclared")
                               and c["name"] not in [x["name"] for x in new]]
                        if not old or len(path) > 1:
                            continue
                        i = r.choice(old)
                        nm = kids[i]["name"]
                        node = self.defn(nm, in_multiple)
                        kids[i] = node
                        # the replacing parameter still belongs to its plug-in (adopt_scope() does not update its
                        # primary_parent_scope) and adopt_scope() replaces inside the primary parent: a second
                        # re-declaration would not reach the master.  One re-declaration per parameter.
                        node["redeclared"] = True
                        tags.append("redeclared_in_" + kind)
                    node["dis"] = False
                    node.pop("dis_further", None)       # adopt_scope() takes the plug-in's active objects only
                    taken.add(nm)
                    new.append(node)
                if new:
                    edits.append((path, new))
                    tags.append("into_" + kind)

            for t in targets:
                if r.random() < (0.6 if t[0] else 0.4):
                    edit(*t)
            for _ in range(3):
                if edits:
                    break
                edit(*r.choice(targets))     # nothing drawn: one scope, with certainty
        finally:
            self.further = saved
        text = ""
        for path, new in edits:
            body = render_master(copy.deepcopy(new), "  " * len(path) if path else "")
            if not path:
                text += body
            elif r.random() < 0.5:
                # nested spelling
                for i, c in enumerate(path):
                    text += "  " * i + c + " {\n"
                text += body
                for i in reversed(range(len(path))):
                    text += "  " * i + "}\n"
            else:
                text += ".".join(path) + " {\n" + body + "}\n"
        return tree2, text, tags


    def default_change(self, nodes):
        """A change of ONE default of a master that is applied IN PLACE by assigning `definition.words` (the public
        attribute of a definition object; what a configuration front-end does to a master it was handed): one active
        parameter gets another valid value of its type, everything else stays.  Parameters whose value is part of a
        template (.multiple themselves or inside a .multiple scope) are drawn three times as often as the others.
        Returns (tree2, path components, new value text, tags), or (nodes, None, None, []) when nothing can be drawn."""
        import copy
        r = self.rng
        tree2 = copy.deepcopy(nodes)
        freeze_examples(tree2)
        cands = []

        def walk(ns, path, in_multiple, seen_kind):
            seen = set()
            for n in ns:
                if n["dis"] or n["name"] in seen:
                    continue
                seen.add(n["name"])
                if n["k"] == "s":
                    walk(n["kids"], path + (n["name"],), in_multiple or n["multiple"], seen_kind)
                    continue
                t = n["type"]
                if t and t.startswith("choice"):
                    alts = [w.lstrip("*") for w in n["default"].split()]
                    k = r.sample(alts, 2 if (t != "choice" and len(alts) > 2 and r.random() < 0.3) else 1)
                    vals = [" ".join(("*" if a in k else "") + a for a in alts)]
                else:
                    vals = list(TYPES[t][1]) + list(TYPES[t][0])
                vals = [v for v in vals if v != n["default"]]
                if not vals:
                    continue
                templ = in_multiple or n["multiple"]
                cands.extend([(path + (n["name"],), n, vals, templ)] * (3 if templ else 1))
        walk(tree2, (), False, None)
        if not cands:
            return nodes, None, None, []
        path, node, vals, templ = r.choice(cands)
        node["default"] = r.choice(vals)
        tag = "words_of_" + ("multiple_definition" if node["multiple"] else "parameter_in_multiple_scope" if templ else "plain_parameter")
        return tree2, list(path), node["default"], [tag]


def freeze_examples(ns):
    """fix the content of the commented-out example instances (`!s { ... }` after a .multiple scope) as rendered now: a
    master changed in place keeps the example block it was parsed with"""
    import copy
    for n in ns:
        if n["k"] == "s":
            if n.get("dis_further"):
                n["dis_further"] = {"frozen": copy.deepcopy(dis_example(n))}
            freeze_examples(n["kids"])


def attr_lines(node, indent):
    s = ""
    if node.get("help"):
        s += '%s  .help = "%s"\n' % (indent, node["help"])
    if node["k"] == "d" and node["type"] is not None:
        s += "%s  .type = %s\n" % (indent, node["type"])
    if node["multiple"]:
        s += "%s  .multiple = True\n" % indent
    if node["optional"] is not None:
        s += "%s  .optional = %s\n" % (indent, node["optional"])
    if node["expert"] is not None:
        s += "%s  .expert_level = %d\n" % (indent, node["expert"])
    if node.get("deprecated"):
        s += "%s  .deprecated = True\n" % indent
    elif node.get("deprecated_false"):
        s += "%s  .deprecated = %s\n" % (indent, node["deprecated_false"])      # spelt out, still not deprecated
    return s


def dis_example(n):
    """content of the commented-out example instance written after a .multiple scope: its first two parameters, or the
    list frozen by MasterGen.extension (a master extended in place keeps the example block it was parsed with)"""
    df = n.get("dis_further")
    return df["frozen"] if isinstance(df, dict) else [k for k in n["kids"] if k["k"] == "d"][:2]


def render_master(nodes, indent=""):
    s = ""
    for n in nodes:
        bang = "!" if n["dis"] else ""
        if n["k"] == "d":
            s += "%s%s%s = %s\n" % (indent, bang, n["name"], n["default"]) + attr_lines(n, indent)
            for f in n["further"]:
                s += "%s%s = %s\n" % (indent, n["name"], f)
            for f in n.get("dis_further") or []:
                s += "%s!%s = %s\n" % (indent, n["name"], f)
        else:
            a = attr_lines(n, indent)
            if a:
                s += "%s%s%s\n%s%s{\n" % (indent, bang, n["name"], a, indent)
            else:
                s += "%s%s%s {\n" % (indent, bang, n["name"])
            k = n.get("reopen")
            if k:
                s += render_master(n["kids"][:k], indent + "  ")
                s += "%s}\n%s%s {\n" % (indent, indent, n["name"])
                s += render_master(n["kids"][k:], indent + "  ")
            else:
                s += render_master(n["kids"], indent + "  ")
            s += "%s}\n" % indent
            if n.get("dis_further"):
                s += "%s!%s {\n" % (indent, n["name"])
                s += render_master(dis_example(n), indent + "  ")
                s += "%s}\n" % indent
    return s


def param_paths(nodes, prefix="", out=None, active_only=True):
    """(path, node) of every definition; scopes as (path, node) too"""
    out = [] if out is None else out
    for n in nodes:
        if active_only and n["dis"]:
            continue
        p = prefix + n["name"]
        out.append((p, n))
        if n["k"] == "s":
            param_paths(n["kids"], p + ".", out, active_only)
    return out


class SourceGen:
    """a source text for a master tree: values for some parameters, plus noise"""

    def __init__(self, rng, valid_only=False, unknown=True, disabled=True, variables=False, escapes=0, lists=0):
        self.escapes = escapes
        self.lists = lists
        self.rng = rng
        self.valid_only = valid_only
        self.unknown = unknown
        self.disabled = disabled
        self.variables = variables

    def value_for(self, node):
        r = self.rng
        d, ok, bad = TYPES[node["type"]]
        if self.escapes and node["type"] in ESC_TYPES and r.random() < self.escapes:
            return esc_value(r, node["type"])
        if self.lists and is_number_list(node["type"]) and r.random() < self.lists:
            return list_value(r, node["type"])
        if node["type"] and node["type"].startswith("choice") and r.random() < 0.85:
            alts = [w.lstrip("*") for w in node["default"].split()]
            k = r.random()
            if k < 0.5:
                return r.choice(alts)
            if k < 0.7:
                return "*" + r.choice(alts)
            if k < 0.8 and node["type"] != "choice":
                return "+".join(r.sample(alts, min(2, len(alts))))
            if k < 0.9:
                return " ".join(("*" if r.random() < 0.4 else "") + a for a in alts)
            return "None"
        if r.random() < (0.5 if node.get("deprecated") else 0.1):
            return node["default"]          # left at the master's default
        if bad and not self.valid_only and r.random() < 0.08:
            return r.choice(bad)
        return r.choice(ok or d)

    def text(self, nodes):
        r = self.rng
        paths = param_paths(nodes, active_only=False)
        defs = [(p, n) for p, n in paths if n["k"] == "d"]
        lines = []
        for _ in range(r.choice([0, 1, 2, 3, 5])):
            if not defs:
                break
            p, n = r.choice(defs)
            bang = "!" if self.disabled and r.random() < 0.07 else ""
            v = self.value_for(n)
            if self.variables and r.random() < 0.35:
                kv = r.random()
                if kv < 0.6:
                    var = "v%d" % r.randint(1, 3)
                    lines.append("%s = %s\n" % (var, v))       # a helper definition the master does not declare
                    if r.random() < 0.35:
                        # a chain: the parameter refers to a helper that refers to a helper
                        var2 = "w%d" % r.randint(1, 2)
                        lines.append("%s = %s\n" % (var2, r.choice(["$" + var, "$(" + var + ")"])))
                        var = var2
                    v = r.choice(["$" + var, "$(" + var + ")", "$(." + var + ")"])
                elif kv < 0.8:
                    v = r.choice(["$PHILENV_A", "$(PHILENV_B)"])
                else:
                    v = r.choice(["$undefined_x", "pre$v1", "'$v1'", '"$v1 z"'])
            comps = p.split(".")
            k = r.random()
            if len(comps) > 1 and k < 0.5:
                # nested spelling
                s = ""
                for i, c in enumerate(comps[:-1]):
                    s += "  " * i + c + " {\n"
                s += "  " * (len(comps) - 1) + bang + comps[-1] + " = " + v + "\n"
                for i in reversed(range(len(comps) - 1)):
                    s += "  " * i + "}\n"
                lines.append(s)
            else:
                lines.append("%s%s = %s\n" % (bang, p, v))
        if self.unknown and r.random() < 0.25:
            lines.insert(r.randrange(len(lines) + 1), r.choice(["zz = 1\n", "s.zz = 2\n", "a.b.c = 3\n", "grp { nope = 4 }\n", "!zq = 5\n"]))
        return "".join(lines)


def tables(texts):
    """eval and %.10g answer tables covering every definition of the given documents"""
    import freephil
    ev = {}
    fm = {}

    def add_num(x):
        for y in (x, float(x) if isinstance(x, int) and abs(x) < 2 ** 53 else x):
            j = num_j(y)
            if j is not None and j[0] != "b":
                try:
                    fm[repr(j)] = [j, enc("%.10g" % (y + 0.0))]
                except Exception:
                    pass

    def walk(o):
        for c in o.objects:
            if c.is_definition:
                for p in pieces(c.words):
                    low = p.lower().strip()
                    if low in ("true", "false", "none", "auto") or p in ev:
                        continue
                    ev[p] = eval_j(p)
                    r = pynum(p)
                    if r is not _RAISES and isinstance(r, (int, float)) and not isinstance(r, bool):
                        add_num(r)
            else:
                walk(c)
    for t in texts:
        try:
            walk(freephil.parse(input_string=t))
        except Exception:
            pass
    return [[enc(k), v] for k, v in ev.items()], list(fm.values())
