"""C18 — extracted parameter objects are guarded, self-describing and detached."""
import copy

from common import freephil, enc, call_j, tokenizer
from props import _fetch, _heap

LEVEL = "proof"
MODULE = "Phil.Props.C18"
LEVEL_TEXT = "Lean theorems about the scope_extract model: every extracted scope of a fetch result reports the master's dotted path for itself and its parameters, whatever the sources (node_paths_of_extract, fetchRoot_extract_node_paths(_indep), node_paths_multi), declared names are accepted and every other name refused with the full path (declared_names_accepted, fetchRoot_extract_guard, setattr_error_path), inject works exactly once (inject_once_tree); detachment on the heap model: extraction writes nothing of the PHIL heap, extraction on the heap with identity erased IS the pure extraction model (extract_erase), and any history of appends / item or attribute assignments on extracted values leaves the tree and later extractions unchanged, with the raw word list of .type=words as the stated exception (extract_frame, detached, detached_pure, witness words_list_is_handed_out). Tied to /repo by a correspondence run comparing __phil_path__() of every node incl. every element of .multiple scopes; the oracle checks paths, the guard with values of every kind (incl. extracted scopes of another extraction), inject, and detachment by identity and by mutate-and-re-extract."
LEVEL_NOTE = "Reserved '__x__' names are Python protocol attributes and outside the 'rejects' clause."
TECHNIQUE = 'Lean 4 theorems on the parent-chain/guard model and on a value-heap model of extraction + differential correspondence + identity / mutation oracle'
RULE = ("masters x fetch results x every extracted node (incl. each element of multiple scopes) x attribute names (declared, "
        "misspelt by one edit, injected) x in-place mutations of extracted lists and nested objects; non-trivial = the tree has "
        "a nested scope; distinct = (master, sources)")
ASSUMPTIONS = ["masters without disabled objects for the detachment comparison"]


class Merged:
    """the blocks of one master scope (a non-multiple scope may be opened several times) seen as one"""

    def __init__(self, blocks):
        self.objects = [o for b in blocks for o in b.objects]


def nodes(ex, ms, path, out):
    """(extracted node, master scope, expected dotted path) pre-order"""
    out.append((ex, ms, path))
    seen = set()
    for mo in ms.objects:
        if mo.is_disabled or mo.name in seen or mo.is_definition:
            continue
        seen.add(mo.name)
        name = mo.name
        if not mo.multiple:
            mo = Merged([o for o in ms.objects if o.name == name and not o.is_disabled and o.is_scope])
        v = getattr(ex, name, None)
        p = name if not path else path + "." + name
        if isinstance(v, list):
            for e in v:
                if isinstance(e, freephil.scope_extract):
                    nodes(e, mo, p, out)
        elif isinstance(v, freephil.scope_extract):
            nodes(v, mo, p, out)


def dict_order_paths(ex, out):
    out.append(ex.__phil_path__())
    for k, v in ex.__dict__.items():
        if k.startswith("__") and k.endswith("__"):
            continue
        if isinstance(v, freephil.scope_extract):
            dict_order_paths(v, out)
        elif isinstance(v, list):
            for e in v:
                if isinstance(e, freephil.scope_extract):
                    dict_order_paths(e, out)


def misspell(rng, name):
    i = rng.randrange(len(name))
    k = rng.random()
    if k < 0.3 and len(name) > 1:
        return name[:i] + name[i + 1:]
    if k < 0.6:
        return name[:i] + "q" + name[i:]
    return name[:i] + ("z" if name[i] != "z" else "y") + name[i + 1:]


def named_scopes(w, out):
    """every active named scope object of the tree `w` (any depth, every block of a re-opened scope, every instance of a
    .multiple scope); templates and disabled objects are not extraction roots"""
    for o in w.objects:
        if o.is_scope and not o.is_disabled and o.is_template == 0:
            out.append(o)
            named_scopes(o, out)
    return out


def named_roots(rng, m, w):
    """extraction roots other than the unnamed parse()/fetch() result: `extract()` is a public method of EVERY scope.
    Yields (route, scope object, declaring scope, the name the root reports); every node below must report paths starting with that name.
    Routes: an object of some scope's .objects list, the same reached by get_without_substitution(full path), and a
    scope built through the API (freephil.scope(name=..., objects=...)) around the objects of the whole tree."""
    cands = named_scopes(w, [])
    if cands:
        # prefer roots that have scopes below them (the clause is about nodes BELOW the root), but keep leaves too
        deep = [c for c in cands if any(o.is_scope and not o.is_disabled and o.is_template == 0 for o in c.objects)]
        o = rng.choice(deep) if deep and rng.random() < 0.8 else rng.choice(cands)
        yield "objects[i]", o, o, o.name
        o2 = rng.choice(cands)
        hits = [h for h in w.get_without_substitution(o2.full_path()) if any(h is c for c in cands)]
        if hits:
            h = rng.choice(hits)
            yield "get_without_substitution(%r)[k]" % o2.full_path(), h, h, h.name
    name = rng.choice(["root_x", "prog", "a"])
    yield "freephil.scope(name=%r, objects=<objects of the tree>)" % name, freephil.scope(name=name, objects=list(w.objects)), m, name


def check(rng, m, w, base=""):
    """`w` is the scope object extract() is called on, `m` the scope declaring its content, `base` the name `w` carries"""
    ex = w.extract()
    all_nodes = []
    nodes(ex, m, base, all_nodes)
    # values of every kind a program may assign, incl. extracted scopes taken from ANOTHER extraction of the same tree
    donors = []
    nodes(w.extract(), m, base, donors)
    for node, ms, path in all_nodes:
        got = node.__phil_path__()
        if (got or "") != path:
            return "node reports path %r, the master's path is %r" % (got, path)
        declared = [c.name for c in ms.objects if not c.is_disabled]
        for name in declared[:3]:
            want = name if not path else path + "." + name
            if node.__phil_path__(object_name=name) != want:
                return "path of parameter %s reported as %r" % (want, node.__phil_path__(object_name=name))
            try:
                setattr(node, name, getattr(node, name))
            except BaseException as e:
                return "assignment to declared %s raised %s" % (want, type(e).__name__)
            bad = misspell(rng, name)
            if bad in declared or hasattr(node, bad):
                continue
            want_bad = bad if not path else path + "." + bad
            donor = rng.choice(donors)[0] if donors else None
            for value, kind in ((1, "int"), (None, "None"), ("text", "str"), ([1, 2], "list"), (freephil.Auto, "Auto"),
                                (donor, "an extracted scope of another extraction")):
                try:
                    setattr(node, bad, value)
                    return "assignment of %s to undeclared %s accepted" % (kind, want_bad)
                except AttributeError as e:
                    if '"%s"' % want_bad not in str(e):
                        return "AttributeError for %s does not spell the full path: %s" % (want_bad, str(e)[:80])
        for first_value in (1, None):
            inj = "injected_x"
            try:
                node.__inject__(inj, first_value)
            except BaseException as e:
                return "first __inject__ raised %s" % type(e).__name__
            try:
                node.__inject__(inj, 2)
                return "second __inject__ overwrote the attribute (first value %r)" % (first_value,)
            except AttributeError:
                pass
            object.__delattr__(node, inj)
        for name in declared[:4]:
            before = getattr(node, name)
            try:
                node.__inject__(name, "INJECTED")
                return "__inject__ overwrote the declared parameter %s (value %r)" % (name, before)
            except AttributeError:
                pass
    # the refused assignments above must not have touched the other extraction
    for dn, dms, dpath in donors:
        if (dn.__phil_path__() or "") != dpath:
            return "a refused assignment changed the path of an untouched extraction to %r (master: %r)" % (dn.__phil_path__(), dpath)
    # detachment: mutate every list / nested value, re-extract, compare with a pristine extraction
    before_tree = w.as_str(attributes_level=3)
    pristine = _fetch.dump(w.extract())
    victim = w.extract()
    vn = []
    nodes(victim, m, base, vn)
    for node, ms, path in vn:
        seen = set()
        for c in ms.objects:
            if c.is_disabled or not c.is_definition or c.name in seen:
                continue
            seen.add(c.name)
            if c.type is not None and c.type.phil_type == "words":
                continue
            v = getattr(node, c.name, None)
            if isinstance(v, list):
                for x in v:
                    if isinstance(x, list):
                        x.append(99)
                v.append("MUTATED")
                if v and isinstance(v[0], tokenizer.word):
                    v[0].value = "MUTATED"
            try:
                setattr(node, c.name, "CHANGED")
            except AttributeError:
                pass
    if w.as_str(attributes_level=3) != before_tree:
        return "mutating extracted values altered the PHIL tree"
    if _fetch.dump(w.extract()) != pristine:
        return "mutating extracted values altered what a later extraction returns"
    return None


def run(ctx):
    rng = ctx.rng
    n = ctx.scale(1500, 25000, 5000)
    cases, reqs, impls = [], [], []
    for i in range(n):
        if ctx.time_left() < 30:
            ctx.notes.append("stopped early on time budget")
            break
        tree, mt, srcs = _fetch.gen(rng, nested=(i % 5 == 4), disabled=False, reopen=(i % 3 == 1))
        m = freephil.parse(input_string=mt)
        ss = [freephil.parse(input_string=s) for s in srcs]
        try:
            w = m.fetch(sources=ss)
            ex = w.extract()
        except BaseException:
            ctx.count("refused")
            continue
        ctx.case((mt, tuple(srcs)), nontrivial=any(n_["k"] == "s" for n_ in tree))
        case = {"master": mt, "sources": srcs}
        try:
            f = check(rng, m, w)
        except BaseException as e:
            f = "check raised %s: %s" % (type(e).__name__, str(e)[:100])
        if not f:
            # identity assumptions of the heap model of extraction (Phil/HeapExtract.lean, Props/C18Detach.lean): the
            # extracted objects are new, two extractions share nothing — except handed-out `.type = words` lists
            ident = _heap.detachment_identity(w)
            if isinstance(ident, str):
                f = ident
            elif ident is not None:
                ctx.count("extractions_handing_out_word_lists")
        if not f:
            # impl-only stream (the Lean model extracts from the unnamed root only): the same clauses on extractions
            # whose root is a NAMED scope object; expected paths = the root's own name + the path below it
            for route, ws, ms, base in named_roots(rng, m, w):
                ctx.count("named_root_extractions_impl_only")
                try:
                    g = check(rng, ms, ws, base)
                except BaseException as e:
                    g = "check raised %s: %s" % (type(e).__name__, str(e)[:100])
                if g:
                    ctx.fail(dict(case, extraction_root=route, root_name=base),
                             "extract() of the named scope %r reached as %s: %s" % (base, route, g))
                    break
        if f:
            ctx.fail(case, f, finding=["D9"] if _fetch.has_nested_further(tree) else None)
        paths = []
        dict_order_paths(ex, paths)
        ev, fm = __import__("mgen").tables([mt] + srcs)
        reqs.append(["node_paths", enc(mt), [enc(s) for s in srcs], ev, fm])
        impls.append(["ok", [enc(p or "") for p in paths]])
        cases.append(case)
        if i % 100 == 0:
            ctx.sample({"master": mt, "sources": srcs, "node_paths": paths})
    if reqs and ctx.mode != "impl-only":
        ctx.corr("node_paths", cases, reqs, impls)


def replay(payload):
    print(payload["failure"])
    return False
