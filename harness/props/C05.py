"""C05 — merging obeys the documented rules: last value wins, multiples accumulate."""
import re

from common import freephil, enc
from props import _fetch

LEVEL = "proof"
MODULE = "Phil.Props.C05"
LEVEL_TEXT = "Lean theorems about the merge model: last value wins at every depth (last_value_wins_at_depth), the split law and dependence on the flattened source list only (split_law, fetch_depends_on_flatten), the multiple-list rule as a closed form: template (or the master's own fetched block when .optional=False) then the dedupKeepLast survivors of the candidates that differ from the default, for .multiple definitions (multiple_list_rule(_at_depth)) and for .multiple scopes nested to any depth (multiple_scope_list_rule, result_view, fetch_ms_total). Tied to /repo by a correspondence run of fetch+extract; the oracle compares the implementation with an independent reference reading of the rules and with metamorphic rewrites (split at any top-level boundary, nested<->dotted, interleaving, two-step merge)."
LEVEL_NOTE = 'Closed form on masters with one occurrence per name (further master occurrences: general theorems + correspondence). Variable-free sources in the closed forms. Instance equality is by rendering (%.10g for floats: D42 family).'
TECHNIQUE = 'Lean 4 closed form of fetch (last-wins, split law, multiple-list rule incl. .multiple scopes) + differential correspondence + reference/metamorphic oracle'
RULE = ("masters x source lists; each case also rewritten by splitting sources at top-level boundaries, re-spelling dotted paths "
        "nested, and interleaving; non-trivial = some parameter receives two or more source values")
ASSUMPTIONS = ["value conversion (types) is taken from the implementation; C05 is about which source words win"]


def top_items(text):
    """split a source text into top-level items (our generator writes one item per top-level construct)"""
    items, cur, depth = [], "", 0
    for line in text.splitlines(True):
        cur += line
        depth += line.count("{") - line.count("}")
        if depth == 0:
            items.append(cur)
            cur = ""
    if cur:
        items.append(cur)
    return items


def nest(item):
    m = re.match(r"^(!?)([A-Za-z_][\w]*(?:\.[A-Za-z_][\w]*)+) = (.*)\n$", item)
    if not m:
        return item
    bang, path, val = m.groups()
    comps = path.split(".")
    s = ""
    for i, c in enumerate(comps[:-1]):
        s += "  " * i + c + " {\n"
    s += "  " * (len(comps) - 1) + bang + comps[-1] + " = " + val + "\n"
    for i in reversed(range(len(comps) - 1)):
        s += "  " * i + "}\n"
    return s


def extract_dump(m, texts):
    w = m.fetch(sources=[freephil.parse(input_string=t) for t in texts])
    return _fetch.dump(w.extract())


def source_values(ss, path):
    """words of every active source definition with this full path, in source order"""
    out = []

    def walk(o, prefix):
        for c in o.objects:
            if c.is_disabled:
                continue
            if c.is_definition:
                if prefix + c.name == path:
                    out.append(c)
            else:
                walk(c, prefix + c.name + ".")
    for s in ss:
        walk(s, "")
    return out


def reference(m, ss):
    """expected values for definitions without a multiple ancestor: path -> dump"""
    exp = {}

    def walk(ms, prefix, seen_multiple):
        seen = set()
        for mo in ms.objects:
            if mo.is_disabled or mo.name in seen:
                continue
            seen.add(mo.name)
            p = prefix + mo.name
            if not mo.is_definition:
                if not mo.multiple:
                    walk(mo, p + ".", seen_multiple)
                continue
            srcs = source_values(ss, p)
            if not mo.multiple:
                if mo.deprecated:
                    # a deprecated parameter stays out of the result unless the LAST assignment differs from the default
                    def text_of(ws):
                        # the comparison the code documents: the texts of the words, a lone unquoted None/Auto being the atom
                        if len(ws) == 1 and ws[0].quote_token is None and ws[0].value.lower() in ("none", "auto"):
                            return ws[0].value.lower()
                        return [w.value for w in ws]
                    if not srcs or text_of(srcs[-1].words) == text_of(mo.words):
                        exp[p] = ("missing",)
                        continue
                d = mo if not srcs else mo.fetch(source=srcs[-1])
                exp[p] = _fetch.dump(d.extract())
            else:
                further = [c for c in ms.objects if c is not mo and not c.is_disabled and c.name == mo.name]
                cands = [mo.fetch(source=c) for c in further + srcs]
                tmpl = mo.extract_format().as_str()
                keyed = [(mo.extract_format(source=c).as_str(), c) for c in cands]
                keyed = [(k, c) for k, c in keyed if k != tmpl]
                out = []
                for i, (k, c) in enumerate(keyed):
                    if any(k2 == k for k2, _ in keyed[i + 1:]):
                        continue  # exact duplicates collapse onto the later copy
                    out.append(c)
                vals = [_fetch.dump(c.extract()) for c in out]
                if mo.optional is not None and not mo.optional:
                    vals = [_fetch.dump(mo.extract())] + vals
                elif mo.optional is True:
                    vals = [v for v in vals if v is not None]
                exp[p] = vals
    walk(m, "", False)
    return exp


def source_scopes(ss, path):
    """every active source scope with this full path, in source order (a dotted spelling `s.a = 1` is a scope `s` too)"""
    out = []

    def walk(o, prefix):
        for c in o.objects:
            if c.is_disabled or c.is_definition:
                continue
            if prefix + c.name == path:
                out.append(c)
            elif path.startswith(prefix + c.name + "."):
                walk(c, prefix + c.name + ".")
    for s in ss:
        walk(s, "")
    return out


def value_key(x):
    """an extracted value as the statement compares instances: by value, floats to the ten digits the library prints"""
    from common import tokenizer
    if isinstance(x, freephil.scope_extract):
        return {k: value_key(v) for k, v in x.__dict__.items() if not (k.startswith("__") and k.endswith("__"))}
    if isinstance(x, list) and x and all(isinstance(w, tokenizer.word) for w in x):
        return ["w", [[w.value, w.quote_token] for w in x]]
    if isinstance(x, list):
        return [value_key(v) for v in x]
    if isinstance(x, float):
        return "%.10g" % x
    return _fetch.dump(x)


def has_multiple(o):
    return any((not c.is_disabled) and (c.multiple or (c.is_scope and has_multiple(c))) for c in o.objects)


def deprecated_children(o, prefix=""):
    """(relative path, definition) of the active .deprecated definitions below a scope"""
    out = []
    for c in o.objects:
        if c.is_disabled:
            continue
        if c.is_definition:
            if c.deprecated:
                out.append((prefix + c.name, c))
        else:
            out += deprecated_children(c, prefix + c.name + ".")
    return out


def sets_deprecated(mo, instances):
    """finding class D47 (structural, on the input): some instance of the .multiple scope mo assigns one of its .deprecated
    parameters a text other than the master's default"""
    for rel, d in deprecated_children(mo):
        for inst in instances:
            for c in source_values([_as_root(inst)], rel):
                if [w.value for w in c.words] != [w.value for w in d.words]:
                    return True
    return False


def _as_root(sc):
    return freephil.scope(name="", objects=sc.objects)


def scope_list_rule(ms, mo, p, ss):
    """the statement's list rule for the .multiple scope mo (path p, parent ms; no .multiple object above or below it), with
    instances compared by their extracted values instead of by their printed form: returns (expected list, instances)"""
    further = [c for c in ms.objects if c is not mo and not c.is_disabled and c.name == mo.name and c.is_scope]
    instances = further + source_scopes(ss, p)
    cands = [value_key(mo.fetch(source=c).extract()) for c in instances]
    tmpl = value_key(mo.fetch().extract())
    cands = [c for c in cands if c != tmpl]
    out = [c for i, c in enumerate(cands) if c not in cands[i + 1:]]      # exact duplicates collapse onto the later copy
    if mo.optional is not None and not mo.optional:
        out = [tmpl] + out
    return out, instances


def deprecated_in_multiple_scope(m, ss, base_extract):
    """None, or (description, finding ids): the list rule on every .multiple scope that holds a .deprecated parameter"""
    def walk(ms, prefix, ex):
        seen = set()
        for mo in ms.objects:
            if mo.is_disabled or mo.name in seen or mo.is_definition:
                continue
            seen.add(mo.name)
            p = prefix + mo.name
            if not mo.multiple:
                sub = getattr(ex, mo.name, None)
                if isinstance(sub, freephil.scope_extract):
                    r = walk(mo, p + ".", sub)
                    if r:
                        return r
                continue
            if has_multiple(mo) or not deprecated_children(mo):
                continue
            want, instances = scope_list_rule(ms, mo, p, ss)
            got = [value_key(x) for x in getattr(ex, mo.name, [])]
            if got != want:
                return ("%s: extracted instances %r, the list rule on extracted values gives %r" % (p, got, want),
                        ["D47"] if sets_deprecated(mo, instances) else None)
        return None
    return walk(m, "", base_extract)


def lookup(d, path):
    cur = d
    for c in path.split("."):
        if not isinstance(cur, dict) or c not in cur:
            return ("missing",)
        cur = cur[c]
    return cur


def run(ctx):
    rng = ctx.rng
    n = ctx.scale(1000, 25000, 5000)
    cases, reqs, impls = [], [], []
    for i in range(n):
        if ctx.time_left() < 30:
            ctx.notes.append("stopped early on time budget")
            break
        tree, mt, srcs = _fetch.gen(rng, nested=(i % 5 == 4), n_sources=rng.choice([1, 2, 2, 3]), deprecated=(i % 3 == 0))
        m = freephil.parse(input_string=mt)
        case = {"master": mt, "sources": srcs}
        try:
            base = extract_dump(m, srcs)
        except BaseException:
            ctx.case((mt, tuple(srcs)), nontrivial=False)
            ctx.count("fetch_or_extract_refused")
            continue
        ss = [freephil.parse(input_string=s) for s in srcs]
        f = None
        # reference reading of the rules
        try:
            exp = reference(m, ss)
        except BaseException as e:
            exp = {}
        multi_valued = 0
        for p, want in exp.items():
            if len(source_values(ss, p)) > 1:
                multi_valued += 1
            got = lookup(base, p)
            if got != want:
                f = "%s: merged value %r, the rules give %r" % (p, got, want)
                break
        ctx.case((mt, tuple(srcs)), nontrivial=multi_valued > 0)
        # metamorphic rewritings
        if f is None:
            items = [it for s in srcs for it in top_items(s)]
            variants = {
                "one source per top-level item": items,
                "all sources concatenated": ["".join(srcs)],
                "dotted paths spelt nested": ["".join(nest(it) for it in top_items(s)) for s in srcs],
            }
            for label, texts in variants.items():
                try:
                    got = extract_dump(m, texts)
                except BaseException as e:
                    f = "%s: raised %s" % (label, type(e).__name__)
                    break
                if got != base:
                    f = "result changes when the sources are rewritten: " + label
                    break
        if f is None and len(srcs) >= 2 and not _fetch.has_nested_multiple(tree) and ".deprecated = True" not in mt:
            # (a result omits deprecated parameters left at their default, so it cannot serve as a master for them)
            # merging in two steps (the first result serves as the master of the second merge) = merging at once
            try:
                w1 = m.fetch(sources=[freephil.parse(input_string=t) for t in srcs[:1]])
                two = _fetch.dump(w1.fetch(sources=[freephil.parse(input_string=t) for t in srcs[1:]]).extract())
                if two != base:
                    f = "merging the sources in two steps (result of the first merge as master of the second) differs from merging them at once"
            except (RuntimeError, freephil.Sorry):
                pass
        fids = ["D8"] if f and _fetch.has_nested_multiple(tree) and "rewritten" not in f else None
        if f is None and ".deprecated = True" in mt:
            # the list rule read on extracted values for .multiple scopes that hold a .deprecated parameter (finding D47: the
            # code compares prints that hide such a parameter)
            try:
                r = deprecated_in_multiple_scope(m, ss, m.fetch(sources=ss).extract())
            except BaseException as e:
                r = None
                ctx.count("deprecated_clause_not_evaluated:" + type(e).__name__)
            ctx.count("deprecated_master")
            if r:
                f, fids = r
        if f:
            ctx.fail(case, f, finding=fids)
        reqs.append(_fetch.fetch_req(mt, srcs))
        impls.append(_fetch.fetch_impl(m, ss))
        cases.append(case)
        if i % 200 == 0:
            ctx.sample({"master": mt, "sources": srcs, "extract": base})
    # sources with $variables and an environment: result tree, unused list and extracted values against the model
    for i in range(ctx.scale(300, 8000, 1500)):
        if ctx.time_left() < 30:
            break
        tree, mt, srcs = _fetch.gen(rng, nested=False, n_sources=rng.choice([1, 2, 3]), variables=True)
        env = _fetch.gen_env(rng)
        m = freephil.parse(input_string=mt)
        ss = [freephil.parse(input_string=s) for s in srcs]
        ctx.case((mt, tuple(srcs), tuple(sorted(env.items()))), nontrivial=any("$" in s for s in srcs))
        ctx.count("with_variables")
        with _fetch.env_as(env):
            ia = _fetch.fetch_impl(m, ss)
        cases.append({"master": mt, "sources": srcs, "env": env})
        reqs.append(_fetch.fetch_req(mt, srcs, env=env))
        impls.append(ia)
    if reqs and ctx.mode != "impl-only":
        ctx.corr("fetch", cases, reqs, impls)


def finding_still_fails(f):
    w = f["witness"]
    m = freephil.parse(input_string=w["master"])
    ss = [freephil.parse(input_string=x) for x in w["sources"]]
    if f["id"] == "D47":
        # the witness records the instance list the rule gives (plain ints); the replay evaluates the rule again
        ex = m.fetch(sources=ss).extract()
        r = deprecated_in_multiple_scope(m, ss, ex)
        got = [{k: v for k, v in x.__dict__.items() if not k.startswith("__")} for x in getattr(ex, w["path"])]
        return r is not None and r[1] == ["D47"] and got != w["expected"]
    return True


def replay(payload):
    print(payload["failure"])
    return False
