"""C05 — merging obeys the documented rules: last value wins, multiples accumulate."""
import re

from common import freephil, enc
from props import _fetch

LEVEL = "proof"
MODULE = "Phil.Props.C05"
LEVEL_TEXT = "Lean theorems about the merge model: last value wins at every depth (last_value_wins_at_depth), the split law and dependence on the flattened source list only (split_law, fetch_depends_on_flatten), the multiple-list rule as a closed form: template (or the master's own fetched block when .optional=False) then the dedupKeepLast survivors of the candidates that differ from the default, for .multiple definitions (multiple_list_rule(_at_depth)) and for .multiple scopes nested to any depth (multiple_scope_list_rule, result_view, fetch_ms_total). Tied to /repo by a correspondence run of fetch+extract; the oracle compares the implementation with an independent reference reading of the rules and with metamorphic rewrites (split at any top-level boundary, nested<->dotted, interleaving, two-step merge)."
LEVEL_NOTE = 'Closed form on masters with one occurrence per name (further master occurrences: general theorems + correspondence). Variable-free sources in the closed forms. Instance equality is by rendering (%.10g for floats: D42 family).'
TECHNIQUE = 'Lean 4 closed form of fetch (last-wins, split law, multiple-list rule incl. .multiple scopes) + differential correspondence + reference/metamorphic oracle'
RULE = ("masters x source lists; each case also rewritten by splitting sources at top-level boundaries, re-spelling dotted paths "
        "nested, and interleaving; non-trivial = some parameter receives two or more source values; "
        "master life cycles: the same master OBJECT is fetched, changed in place through the public API (scope.adopt_scope(plug-in): "
        "new / re-declared parameters, also inside .multiple scopes; assignment of definition.words: another default) and fetched "
        "again, the earlier result handed back as a source: the rules must hold against the master as it is at that moment "
        "(reference reading on its present content, a freshly parsed master of the same text, split sources)")
ASSUMPTIONS = ["value conversion (types) is taken from the implementation; C05 is about which source words win"]


def top_items(text):
    """split a source text into top-level items (our generator writes one item per top-level construct)"""
    items, cur, depth = [], "", 0
    for line in text.splitlines(True):
        cur += line
        depth += line.count("{") - line.count("}")
        if depth == 0:
            items.append(cur)
            cur = ""
    if cur:
        items.append(cur)
    return items


def nest(item):
    m = re.match(r"^(!?)([A-Za-z_][\w]*(?:\.[A-Za-z_][\w]*)+) = (.*)\n$", item)
    if not m:
        return item
    bang, path, val = m.groups()
    comps = path.split(".")
    s = ""
    for i, c in enumerate(comps[:-1]):
        s += "  " * i + c + " {\n"
    s += "  " * (len(comps) - 1) + bang + comps[-1] + " = " + val + "\n"
    for i in reversed(range(len(comps) - 1)):
        s += "  " * i + "}\n"
    return s


def extract_dump(m, texts):
    w = m.fetch(sources=[freephil.parse(input_string=t) for t in texts])
    return _fetch.dump(w.extract())


def source_values(ss, path):
    """words of every active source definition with this full path, in source order"""
    out = []

    def walk(o, prefix):
        for c in o.objects:
            if c.is_disabled:
                continue
            if c.is_definition:
                if prefix + c.name == path:
                    out.append(c)
            else:
                walk(c, prefix + c.name + ".")
    for s in ss:
        walk(s, "")
    return out


def reference(m, ss):
    """expected values for definitions without a multiple ancestor: path -> dump"""
    exp = {}

    def walk(ms, prefix, seen_multiple):
        seen = set()
        for mo in ms.objects:
            if mo.is_disabled or mo.name in seen:
                continue
            seen.add(mo.name)
            p = prefix + mo.name
            if not mo.is_definition:
                if not mo.multiple:
                    walk(mo, p + ".", seen_multiple)
                continue
            srcs = source_values(ss, p)
            if not mo.multiple:
                if mo.deprecated:
                    # a deprecated parameter stays out of the result unless the LAST assignment differs from the default
                    def text_of(ws):
                        # the comparison the code documents: the texts of the words, a lone unquoted None/Auto being the atom
                        if len(ws) == 1 and ws[0].quote_token is None and ws[0].value.lower() in ("none", "auto"):
                            return ws[0].value.lower()
                        return [w.value for w in ws]
                    if not srcs or text_of(srcs[-1].words) == text_of(mo.words):
                        exp[p] = ("missing",)
                        continue
                d = mo if not srcs else mo.fetch(source=srcs[-1])
                exp[p] = _fetch.dump(d.extract())
            else:
                further = [c for c in ms.objects if c is not mo and not c.is_disabled and c.name == mo.name]
                cands = [mo.fetch(source=c) for c in further + srcs]
                tmpl = mo.extract_format().as_str()
                keyed = [(mo.extract_format(source=c).as_str(), c) for c in cands]
                keyed = [(k, c) for k, c in keyed if k != tmpl]
                out = []
                for i, (k, c) in enumerate(keyed):
                    if any(k2 == k for k2, _ in keyed[i + 1:]):
                        continue  # exact duplicates collapse onto the later copy
                    out.append(c)
                vals = [_fetch.dump(c.extract()) for c in out]
                if mo.optional is not None and not mo.optional:
                    vals = [_fetch.dump(mo.extract())] + vals
                elif mo.optional is True:
                    vals = [v for v in vals if v is not None]
                exp[p] = vals
    walk(m, "", False)
    return exp


def source_scopes(ss, path):
    """every active source scope with this full path, in source order (a dotted spelling `s.a = 1` is a scope `s` too)"""
    out = []

    def walk(o, prefix):
        for c in o.objects:
            if c.is_disabled or c.is_definition:
                continue
            if prefix + c.name == path:
                out.append(c)
            elif path.startswith(prefix + c.name + "."):
                walk(c, prefix + c.name + ".")
    for s in ss:
        walk(s, "")
    return out


def value_key(x):
    """an extracted value as the statement compares instances: by value, floats to the ten digits the library prints"""
    from common import tokenizer
    if isinstance(x, freephil.scope_extract):
        return {k: value_key(v) for k, v in x.__dict__.items() if not (k.startswith("__") and k.endswith("__"))}
    if isinstance(x, list) and x and all(isinstance(w, tokenizer.word) for w in x):
        return ["w", [[w.value, w.quote_token] for w in x]]
    if isinstance(x, list):
        return [value_key(v) for v in x]
    if isinstance(x, float):
        return "%.10g" % x
    return _fetch.dump(x)


def has_multiple(o):
    return any((not c.is_disabled) and (c.multiple or (c.is_scope and has_multiple(c))) for c in o.objects)


def deprecated_children(o, prefix=""):
    """(relative path, definition) of the active .deprecated definitions below a scope"""
    out = []
    for c in o.objects:
        if c.is_disabled:
            continue
        if c.is_definition:
            if c.deprecated:
                out.append((prefix + c.name, c))
        else:
            out += deprecated_children(c, prefix + c.name + ".")
    return out


def sets_deprecated(mo, instances):
    """finding class D47 (structural, on the input): some instance of the .multiple scope mo assigns one of its .deprecated
    parameters a text other than the master's default"""
    for rel, d in deprecated_children(mo):
        for inst in instances:
            for c in source_values([_as_root(inst)], rel):
                # (the text as written: the quoted word "None" / 'Auto' is another text than the atom None / Auto, and
                # extracts to another value)
                if [(w.value, w.quote_token) for w in c.words] != [(w.value, w.quote_token) for w in d.words]:
                    return True
    return False


def _as_root(sc):
    return freephil.scope(name="", objects=sc.objects)


def scope_list_rule(ms, mo, p, ss):
    """the statement's list rule for the .multiple scope mo (path p, parent ms; no .multiple object above or below it), with
    instances compared by their extracted values instead of by their printed form: returns (expected list, instances)"""
    further = [c for c in ms.objects if c is not mo and not c.is_disabled and c.name == mo.name and c.is_scope]
    instances = further + source_scopes(ss, p)
    cands = [value_key(mo.fetch(source=c).extract()) for c in instances]
    tmpl = value_key(mo.fetch().extract())
    cands = [c for c in cands if c != tmpl]
    out = [c for i, c in enumerate(cands) if c not in cands[i + 1:]]      # exact duplicates collapse onto the later copy
    if mo.optional is not None and not mo.optional:
        out = [tmpl] + out
    return out, instances


def deprecated_in_multiple_scope(m, ss, base_extract, every=False):
    """None, or (description, finding ids): the list rule on every .multiple scope that holds a .deprecated parameter
    (every=True: on every .multiple scope without a .multiple object above or below it)"""
    def walk(ms, prefix, ex):
        seen = set()
        for mo in ms.objects:
            if mo.is_disabled or mo.name in seen or mo.is_definition:
                continue
            seen.add(mo.name)
            p = prefix + mo.name
            if not mo.multiple:
                sub = getattr(ex, mo.name, None)
                if isinstance(sub, freephil.scope_extract):
                    r = walk(mo, p + ".", sub)
                    if r:
                        return r
                continue
            if has_multiple(mo) or not (every or deprecated_children(mo)):
                continue
            want, instances = scope_list_rule(ms, mo, p, ss)
            got = [value_key(x) for x in getattr(ex, mo.name, [])]
            if got != want:
                return ("%s: extracted instances %r, the list rule on extracted values gives %r" % (p, got, want),
                        ["D47"] if sets_deprecated(mo, instances) else None)
        return None
    return walk(m, "", base_extract)


def lookup(d, path):
    cur = d
    for c in path.split("."):
        if not isinstance(cur, dict) or c not in cur:
            return ("missing",)
        cur = cur[c]
    return cur


def find_definition(m, comps):
    """the first active occurrence of the master definition with these path components (the declaration)"""
    cur = m
    for j, c in enumerate(comps):
        last = j == len(comps) - 1
        nxt = [o for o in cur.objects if not o.is_disabled and o.name == c and bool(o.is_definition) == last]
        if not nxt:
            return None
        cur = nxt[0]
    return cur


def first_difference(a, b, path=""):
    if isinstance(a, dict) and isinstance(b, dict) and set(a) == set(b):
        for k in a:
            if a[k] != b[k]:
                return first_difference(a[k], b[k], path + "." + k if path else k)
    return "%s: %r versus %r" % (path or "(root)", a, b)


def without_word_lines(v):
    """an extracted value in PVal wire form without the source line of the words of words-typed values"""
    if isinstance(v, list) and len(v) == 2 and v[0] == "w" and isinstance(v[1], list):
        return ["w", [w[:2] for w in v[1]]]
    if isinstance(v, list):
        return [without_word_lines(x) for x in v]
    return v


def life_apply(m, st):
    """apply one in-place change step to the master object m"""
    if "adopt_scope" in st:
        m.adopt_scope(freephil.parse(input_string=st["adopt_scope"]))
    else:
        path, text = st["assign_words"]
        find_definition(m, path.split(".")).words = freephil.parse(input_string="v = " + text).objects[0].words


def life_verdict(m, mt_now, srcs, rule_part):
    """The statement on the master object m AS IT IS NOW (its text: mt_now) and the sources srcs: None, or what fails.
    The rules speak of the master's defaults / templates and of the sources only, so (1) a freshly parsed master of the
    same text must give the same values, (2) the reference reading of the rules is evaluated against m's present
    content (rule_part: masters without nested multiples), (3) splitting the sources changes nothing."""
    ss = [freephil.parse(input_string=t) for t in srcs]
    ex = m.fetch(sources=ss).extract()
    base = _fetch.dump(ex)
    try:
        fresh = extract_dump(freephil.parse(input_string=mt_now), srcs)
    except BaseException as e:
        if isinstance(e, (KeyboardInterrupt, MemoryError)):
            raise
        return "the master changed in place merges these sources, a freshly parsed master of the same text raises %s" % type(e).__name__
    if fresh != base:
        return ("the master object changed in place and a freshly parsed master of the same text merge the same sources "
                "differently (in place versus fresh): " + first_difference(base, fresh))
    if rule_part:
        for p, want in reference(m, ss).items():
            got = lookup(base, p)
            if got != want:
                return "%s: merged value %r, the rules (read on the master as it is now) give %r" % (p, got, want)
        r = deprecated_in_multiple_scope(m, ss, ex, every=True)
        if r:
            return r[0] + " (master as it is now)"
    items = [it for s in srcs for it in top_items(s)]
    if extract_dump(m, items) != base:
        return "result changes when the sources are rewritten: one source per top-level item"
    return None


def life_play(case):
    """run a life-cycle case on the implementation; returns the verdict of its last fetch step"""
    m = freephil.parse(input_string=case["master"])
    for st in case["steps"][:-1]:
        if "fetch" in st:
            try:
                m.fetch(sources=[freephil.parse(input_string=s) for s in st["fetch"]]).extract()
            except BaseException as e:
                if isinstance(e, (KeyboardInterrupt, MemoryError)):
                    raise
        else:
            life_apply(m, st)
    return life_verdict(m, case["master_text_now"], case["steps"][-1]["fetch"], case["rule_part"])


def life_cycles(ctx, n):
    """Master LIFE CYCLES: ONE master object is fetched, then changed in place through the public API -- extended /
    re-declared by scope.adopt_scope(plug-in) (new parameters inside scopes, .multiple ones included: their templates
    change; re-declared parameters: other default / type) or given another default by assigning definition.words --
    and fetched again (one or two rounds; the earlier result printed back as the first source in most rounds, as an
    application hands its working parameters back).  The statement quantifies over every well-formed master, however it
    came about: each fetch must obey the rules against the master as it is at that moment (life_verdict).  The model is
    history-free: each fetch is also compared (extracted values) with the model's answer on the TEXT of the changed master."""
    import mgen
    from props.C04 import structure
    rng = ctx.rng
    cases, reqs, impls = [], [], []
    for i in range(n):
        if ctx.time_left() < 30:
            ctx.notes.append("life-cycle stream stopped early on time budget")
            break
        g = mgen.MasterGen(rng, depth=rng.choice([1, 1, 2, 2, 3]), nested_multiples=(i % 4 == 3), reopen=False)
        tree = g.tree()
        mt = mt_now = mgen.render_master(tree)
        m = freephil.parse(input_string=mt)
        steps = []
        prev = None
        for rnd in range(rng.choice([1, 1, 2]) + 1):
            if rnd > 0:
                if rng.random() < 0.5:
                    tree, ext, tags = g.extension(tree)
                    st = {"adopt_scope": ext} if ext else None
                else:
                    tree, comps, text, tags = g.default_change(tree)
                    st = {"assign_words": [".".join(comps), text]} if comps and find_definition(m, comps) is not None else None
                if st is None:
                    ctx.count("life_no_change_drawn")
                    break
                life_apply(m, st)
                steps.append(st)
                mt_now = mgen.render_master(tree)
                if structure(m) != structure(freephil.parse(input_string=mt_now)):
                    # the changed master is not the master the generator meant to build: no verdict
                    ctx.count("life_change_not_as_written")
                    break
                for t in set(tags):
                    ctx.count("life_" + t)
            srcs = [mgen.SourceGen(rng).text(tree) for _ in range(rng.choice([0, 1, 1, 2]))]
            if prev is not None and rng.random() < 0.7:
                srcs = [prev] + srcs
            steps.append({"fetch": srcs})
            rule_part = not _fetch.has_nested_multiple(tree)
            case = {"master": mt, "steps": [dict(s_) for s_ in steps], "master_text_now": mt_now, "rule_part": rule_part}
            ss = [freephil.parse(input_string=s_) for s_ in srcs]
            ctx.case((mt, repr(steps)), nontrivial=rnd > 0)
            ctx.count("life_fetch_round_%d" % rnd)
            ia = _fetch.fetch_impl(m, ss)
            prev = None
            f = None
            if ia[0] == "ok" and ia[1][2][0] == "ok":
                if rnd > 0:
                    ctx.count("life_verdicts")
                    try:
                        f = life_verdict(m, mt_now, srcs, rule_part)
                    except BaseException as e:
                        if isinstance(e, (KeyboardInterrupt, MemoryError)):
                            raise
                        f = "evaluating the rules on the master changed in place raised %s: %s" % (type(e).__name__, str(e)[:120])
                try:
                    prev = m.fetch(sources=ss).as_str()
                    freephil.parse(input_string=prev)
                except BaseException:
                    prev = None
            else:
                ctx.count("life_fetch_or_extract_refused")
            if f:
                ctx.fail(case, f, finding=None)
            cases.append(case)
            reqs.append(_fetch.fetch_req(mt_now, srcs))
            impls.append(ia)
            if i % 60 == 0 and rnd > 0:
                ctx.sample(case)
    if reqs and ctx.mode != "impl-only":
        from common import run_model, same_outcome
        for case, a, i in zip(cases, run_model(reqs), impls):
            changed = any("fetch" not in st for st in case["steps"])
            if a and i and a[0] == "ok" and i[0] == "ok":
                # the extracted values (words-typed values carry the line of each word: objects adopted from a plug-in /
                # assigned words keep their own line numbers, the model reads the changed master as one text)
                ea, ei = without_word_lines(a[1][2]), without_word_lines(i[1][2])
                if changed and ea[0] == ei[0] == "err" and ea[1] == ei[1] == "runtime":
                    ea, ei = ea[:3], ei[:3]     # extract refuses a master default: the line cited lies inside the master
                ok = same_outcome(["ok", ea], ["ok", ei])
                if ok is None:
                    ctx.count("life_model_declines:" + str(a[1][2][1] if a[1][2][0] == "unsupported" else a[0])[:60])
            elif changed and a and i and a[0] == i[0] == "err" and a[1] == i[1] == "runtime":
                # objects adopted from a plug-in / assigned words keep their own line numbers, the model reads the changed
                # master as one text: positions inside the master are not comparable
                ok = a[2] == i[2]
            else:
                ok = same_outcome(a, i)
            ctx.traces += 1
            if ok is None:
                ctx.unsupported += 1
            elif not ok:
                ctx.disagree("fetch-after-in-place-change", case, a, i)


def run(ctx):
    rng = ctx.rng
    n = ctx.scale(1000, 25000, 5000)
    cases, reqs, impls = [], [], []
    for i in range(n):
        if ctx.time_left() < 30:
            ctx.notes.append("stopped early on time budget")
            break
        tree, mt, srcs = _fetch.gen(rng, nested=(i % 5 == 4), n_sources=rng.choice([1, 2, 2, 3]), deprecated=(i % 3 == 0))
        m = freephil.parse(input_string=mt)
        case = {"master": mt, "sources": srcs}
        try:
            base = extract_dump(m, srcs)
        except BaseException:
            ctx.case((mt, tuple(srcs)), nontrivial=False)
            ctx.count("fetch_or_extract_refused")
            continue
        ss = [freephil.parse(input_string=s) for s in srcs]
        f = None
        # reference reading of the rules
        try:
            exp = reference(m, ss)
        except BaseException as e:
            exp = {}
        multi_valued = 0
        for p, want in exp.items():
            if len(source_values(ss, p)) > 1:
                multi_valued += 1
            got = lookup(base, p)
            if got != want:
                f = "%s: merged value %r, the rules give %r" % (p, got, want)
                break
        ctx.case((mt, tuple(srcs)), nontrivial=multi_valued > 0)
        # metamorphic rewritings
        if f is None:
            items = [it for s in srcs for it in top_items(s)]
            variants = {
                "one source per top-level item": items,
                "all sources concatenated": ["".join(srcs)],
                "dotted paths spelt nested": ["".join(nest(it) for it in top_items(s)) for s in srcs],
            }
            for label, texts in variants.items():
                try:
                    got = extract_dump(m, texts)
                except BaseException as e:
                    f = "%s: raised %s" % (label, type(e).__name__)
                    break
                if got != base:
                    f = "result changes when the sources are rewritten: " + label
                    break
        if f is None and len(srcs) >= 2 and not _fetch.has_nested_multiple(tree) and ".deprecated = True" not in mt:
            # (a result omits deprecated parameters left at their default, so it cannot serve as a master for them)
            # merging in two steps (the first result serves as the master of the second merge) = merging at once
            try:
                w1 = m.fetch(sources=[freephil.parse(input_string=t) for t in srcs[:1]])
                two = _fetch.dump(w1.fetch(sources=[freephil.parse(input_string=t) for t in srcs[1:]]).extract())
                if two != base:
                    f = "merging the sources in two steps (result of the first merge as master of the second) differs from merging them at once"
            except (RuntimeError, freephil.Sorry):
                pass
        fids = ["D8"] if f and _fetch.has_nested_multiple(tree) and "rewritten" not in f else None
        if f is None and ".deprecated = True" in mt:
            # the list rule read on extracted values for .multiple scopes that hold a .deprecated parameter (finding D47: the
            # code compares prints that hide such a parameter)
            try:
                r = deprecated_in_multiple_scope(m, ss, m.fetch(sources=ss).extract())
            except BaseException as e:
                r = None
                ctx.count("deprecated_clause_not_evaluated:" + type(e).__name__)
            ctx.count("deprecated_master")
            if r:
                f, fids = r
        if f:
            ctx.fail(case, f, finding=fids)
        reqs.append(_fetch.fetch_req(mt, srcs))
        impls.append(_fetch.fetch_impl(m, ss))
        cases.append(case)
        if i % 200 == 0:
            ctx.sample({"master": mt, "sources": srcs, "extract": base})
    # sources with $variables and an environment: result tree, unused list and extracted values against the model
    for i in range(ctx.scale(300, 8000, 1500)):
        if ctx.time_left() < 30:
            break
        tree, mt, srcs = _fetch.gen(rng, nested=False, n_sources=rng.choice([1, 2, 3]), variables=True)
        env = _fetch.gen_env(rng)
        m = freephil.parse(input_string=mt)
        ss = [freephil.parse(input_string=s) for s in srcs]
        ctx.case((mt, tuple(srcs), tuple(sorted(env.items()))), nontrivial=any("$" in s for s in srcs))
        ctx.count("with_variables")
        with _fetch.env_as(env):
            ia = _fetch.fetch_impl(m, ss)
        cases.append({"master": mt, "sources": srcs, "env": env})
        reqs.append(_fetch.fetch_req(mt, srcs, env=env))
        impls.append(ia)
    if reqs and ctx.mode != "impl-only":
        ctx.corr("fetch", cases, reqs, impls)
    life_cycles(ctx, ctx.scale(400, 6000, 800))


def finding_still_fails(f):
    w = f["witness"]
    m = freephil.parse(input_string=w["master"])
    ss = [freephil.parse(input_string=x) for x in w["sources"]]
    if f["id"] == "D47":
        # the witness records the instance list the rule gives (plain ints); the replay evaluates the rule again
        ex = m.fetch(sources=ss).extract()
        r = deprecated_in_multiple_scope(m, ss, ex)
        got = [{k: v for k, v in x.__dict__.items() if not k.startswith("__")} for x in getattr(ex, w["path"])]
        return r is not None and r[1] == ["D47"] and got != w["expected"]
    return True


def replay(payload):
    print(payload["failure"])
    c = payload["failure"].get("case") if isinstance(payload["failure"], dict) else None
    if isinstance(c, dict) and "steps" in c:
        r = life_play(c)
        print(r)
        return r is None
    return False
