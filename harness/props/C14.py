"""C14 — a command-line argument sets the intended parameter or is refused."""
import io
import contextlib

from common import freephil, enc, dec, obj_j, call_j, err_j

LEVEL = "proof"
MODULE = "Phil.Props.C14"
LEVEL_TEXT = "Lean theorems about the argument-interpreter model: an iff-characterisation of each score class (score_classes), exact path wins, the chosen path contains the name and no path has a higher class (choose_sound), ambiguity lists all best matches, unknown iff no path contains the name, the expert tie-break characterised completely (chosen_warned_iff; with Auto levels: choosePathA_stray_iff); value transfer: process_arg_single / _as_from_file / _many, fetch_of_args_is_fetch_of_list. get_path_score is REGENERATED from the Python source on every run and proved equal to the model's score function for all inputs (get_path_score_eq). Tied to /repo by a correspondence run of process(arg) on small-alphabet masters with and without (nested) home scope; the oracle states the ranking of the property independently and checks selection, refusal lists, value transport and the list clause."
LEVEL_NOTE = 'Tie-break arithmetic is in integers in code and model (D77 fixed).'
TECHNIQUE = 'Lean 4 theorems on the score/selection model and value transfer + get_path_score translated from the source + differential correspondence + independent ranking oracle'
RULE = ("masters from path sets over the component alphabet {a,b,ab,ba} (depth <= 3, so substring/suffix collisions abound), "
        "expert levels on scopes/definitions, written as single nested blocks or (every 4th case) one parameter at a time with the path "
        "cut at random into dotted names and nested blocks, in random order, so that scopes are reopened and the first block of a "
        "scope lacks some of its children (nested home scopes preferred there), x home scopes x argument names that are full paths / suffixes / substrings / "
        "non-substrings x value texts with quotes, spaces, '=' and ';'; non-trivial = name matches at least two paths; "
        "distinct = (master, home, arg)")
ASSUMPTIONS = ["expert levels below 100"]
COMPS = ["a", "b", "ab", "ba", "aa", "b_a"]
VALUES = ["1", "x y", "'q r'", '"a=b"', "a=b", "1;", "'x;y'", '"""t"""', "x \\\n y", "*a b", "None", "1 # c", "'it''s'", "[1,2]"]


def gen_master(rng, dup=False):
    """returns (text, paths) — nested scopes built from a random set of dotted paths"""
    n = rng.randint(2, 7)
    paths = []
    attempts = 0
    while len(paths) < n and attempts < 200:       # the prefix-free family may be saturated (every component taken as a leaf)
        attempts += 1
        p = [rng.choice(COMPS) for _ in range(rng.choice([1, 2, 2, 3, 3]))]
        # a path may not be a strict prefix of another (scope vs definition clash) nor a duplicate
        if any(q[:len(p)] == p or p[:len(q)] == q for q in paths):
            continue
        paths.append(p)
    tree = {}
    for p in paths:
        cur = tree
        for c in p[:-1]:
            cur = cur.setdefault(c, {})
        cur[p[-1]] = None
    lines = []
    order = []

    def emit(node, indent, prefix):
        for k, v in node.items():
            ex = rng.choice([None, None, None, 0, 1, 2, 3])
            if v is None:
                lines.append("%s%s = 0" % (indent, k))
                dup_here = dup and rng.random() < 0.5
                if dup_here:
                    lines.append("%s  .multiple = True" % indent)
                if ex is not None:
                    lines.append("%s  .expert_level = %d" % (indent, ex))
                order.append(".".join(prefix + [k]))
                if dup_here:
                    lines.append("%s%s = 5" % (indent, k))
                    order.append(".".join(prefix + [k]))
            else:
                lines.append("%s%s" % (indent, k))
                if ex is not None:
                    lines.append("%s  .expert_level = %d" % (indent, ex))
                lines.append("%s{" % indent)
                emit(v, indent + "  ", prefix + [k])
                lines.append("%s}" % indent)
    emit(tree, "", [])
    return "\n".join(lines) + "\n", order


def gen_master_spread(rng):
    """returns (text, paths) — the same path sets, but every parameter is written on its own: the components of its path are
    grouped at random into dotted names and nested blocks (`a.b.c = 0`, `a { b.c = 0 }`, `a.b { c = 0 }`, `a { b { c = 0 } }`),
    the parameters in random order, so that a scope is opened once per parameter below it (reopened blocks / dotted names) and
    the first occurrence of a scope in the master does not contain all of its children"""
    n = rng.randint(2, 7)
    paths = []
    attempts = 0
    while len(paths) < n and attempts < 200:
        attempts += 1
        p = [rng.choice(COMPS) for _ in range(rng.choice([1, 2, 3, 3, 3]))]
        if any(q[:len(p)] == p or p[:len(q)] == q for q in paths):
            continue
        paths.append(p)
    lines = []
    for p in paths:
        # cut the path into groups of components; every group but the last is a (dotted) scope header
        groups, cur = [], [p[0]]
        for c in p[1:]:
            if rng.random() < 0.5:
                cur.append(c)
            else:
                groups.append(cur)
                cur = [c]
        groups.append(cur)
        indent = ""
        for g in groups[:-1]:
            lines.append("%s%s" % (indent, ".".join(g)))
            ex = rng.choice([None, None, None, 0, 1, 2, 3])
            if ex is not None:
                lines.append("%s  .expert_level = %d" % (indent, ex))
            lines.append("%s{" % indent)
            indent += "  "
        lines.append("%s%s = 0" % (indent, ".".join(groups[-1])))
        ex = rng.choice([None, None, None, 0, 1, 2, 3])
        if ex is not None:
            lines.append("%s  .expert_level = %d" % (indent, ex))
        for g in groups[:-1]:
            indent = indent[:-2]
            lines.append("%s}" % indent)
    return "\n".join(lines) + "\n", [".".join(p) for p in paths]


def rank(home, name, path):
    """the ranking of the statement as a tuple (kind, inside-home, whole-component); None = no match"""
    if name not in path:
        return None
    if name == path:
        return (4, 0, 0)
    inhome = home is not None and path.startswith(home + ".")
    if home is not None and path == home + "." + name:
        return (3, 0, 0)
    if path.endswith(name):
        whole = path.endswith("." + name)
        return (2, int(inhome), int(whole))
    return (1, int(inhome), 0)


def experts(master):
    out = []

    def walk(o, inh):
        for c in o.objects:
            if c.is_disabled:
                continue
            lvl = c.expert_level if c.expert_level is not None else inh
            if c.is_definition:
                out.append(lvl)
            else:
                walk(c, lvl)
    walk(master, 0)
    return out


def sorry_j(msg):
    if msg.startswith("Unknown "):
        return ["err", "sorry", "unknown", []]
    if msg.startswith("Ambiguous parameter definition"):
        best = [l[2:] for l in msg.split("Best matches:\n", 1)[1].split("\n") if l.startswith("  ")]
        return ["err", "sorry", "ambiguous", [enc(b) for b in best]]
    if "has no effect" in msg:
        return ["err", "sorry", "no_effect", []]
    if msg.startswith("Error interpreting"):
        return ["err", "sorry", "arg_syntax", []]
    return ["err", "sorry", "other", [enc(msg[:80])]]


def run(ctx):
    rng = ctx.rng
    n = ctx.scale(2500, 60000, 12000)
    cases, reqs, impls = [], [], []
    for i in range(n):
        if ctx.time_left() < 25:
            ctx.notes.append("stopped early on time budget")
            break
        d12 = i % 20 == 19
        spread = i % 4 == 1
        if spread:
            # scopes opened more than once (reopened blocks, dotted names), nested home scopes preferred
            mtext, paths = gen_master_spread(rng)
            ctx.count("masters_with_reopened_scopes")
        else:
            mtext, paths = gen_master(rng, dup=d12)
        master = freephil.parse(input_string=mtext)
        if i % 50 == 7:
            # a master that declares no parameter: every name is unknown
            mtext = rng.choice(["", "s {\n}\n", "s {\n  t {\n  }\n}\n", "!a = 1\n"])
            master = freephil.parse(input_string=mtext)
            ctx.count("masters_without_parameters")
        tps = [l.path for l in master.all_definitions()]
        home = rng.choice([None, None] + sorted({p.rsplit(".", 1)[0] for p in tps if "." in p}) + ["a", "zz"])
        if spread:
            nested = sorted({p.rsplit(".", 1)[0] for p in tps if p.count(".") >= 2})
            if nested and rng.random() < 0.6:
                home = rng.choice(nested)
            if home is not None and "." in home:
                ctx.count("nested_home_on_reopened_scopes")
        k = rng.random() if tps else 1.0
        if k < 0.3:
            name = rng.choice(tps)
        elif k < 0.6:
            p = rng.choice(tps)
            j = rng.randrange(len(p))
            name = p[j:]
        elif k < 0.85:
            p = rng.choice(tps)
            j = rng.randrange(len(p))
            name = p[j:rng.randint(j + 1, len(p))]
        else:
            name = rng.choice(COMPS) + rng.choice(["", ".", "x", ".a"])
        name = name.strip(".") or "a"
        value = rng.choice(VALUES)
        arg = rng.choice(["%s=%s", "%s = %s", " %s= %s "]) % (name, value)
        nmatch = sum(1 for p in tps if name in p)
        ctx.case((mtext, home, arg), nontrivial=nmatch >= 2)
        ctx.count("matches_%s" % min(nmatch, 3))
        interp = master.command_line_argument_interpreter(home_scope=home)
        buf = io.StringIO()
        res, exc = None, None
        try:
            with contextlib.redirect_stdout(buf):
                res = interp.process(arg=arg)
        except BaseException as e:
            exc = e
        f = oracle(master, tps, home, name, value, res, exc, buf.getvalue())
        if exc is None:
            ia = ["ok", [obj_j(o) for o in res.objects]]
            ctx.count("outcome_ok")
        elif isinstance(exc, freephil.Sorry):
            ia = sorry_j(str(exc))
            ctx.count("outcome_" + ia[2])
        else:
            ia = err_j(exc)
            ctx.count("outcome_" + ia[1])
        cases.append({"master": mtext, "home": home, "arg": arg, "fail": f, "d12": d12})
        reqs.append(["process_arg", enc(mtext), None if home is None else enc(home), enc(arg)])
        impls.append(ia)
        if i % 500 == 0:
            ctx.sample({"master": mtext, "home": home, "arg": arg, "outcome": ia[:3]})
        # processing a list and fetching = fetching the individually interpreted arguments
        if i % 10 == 0:
            f2 = check_list(master, home, rng, tps)
            if f2:
                ctx.fail({"master": mtext, "home": home}, f2)
        if len(reqs) >= 4000:
            flush(ctx, cases, reqs, impls)
            cases, reqs, impls = [], [], []
    flush(ctx, cases, reqs, impls)


_ARGDIR = None


def _argdir():
    global _ARGDIR
    if _ARGDIR is None:
        import atexit
        import shutil
        import tempfile
        _ARGDIR = tempfile.mkdtemp(prefix="verif-c14-", dir="/var/tmp")
        atexit.register(shutil.rmtree, _ARGDIR, True)
    return _ARGDIR


def check_list(master, home, rng, tps):
    """process_and_fetch(args) = fetch of the individually interpreted arguments, in order, for every kind of argument
    process_args knows: name=value, `--name=value`, `--flag` (= True), a blank argument (skipped), the name of a parameter
    file (parsed and used as a source), and arguments nobody can interpret (handed back by `collect_remaining`)"""
    import os
    args, want_sources, want_remaining = [], [], []
    interp2 = master.command_line_argument_interpreter(home_scope=home)
    for k in range(rng.randint(1, 5)):
        kind = rng.random()
        p = rng.choice(tps)
        if kind < 0.45:
            a = "%s=%d" % (p, rng.randint(1, 9))
            plan = ("arg", a)
        elif kind < 0.55:
            a = "--%s=%d" % (p, rng.randint(1, 9))
            plan = ("arg", a[2:])
        elif kind < 0.65:
            a = "--" + p
            plan = ("arg", p + " = True")
        elif kind < 0.72:
            a = rng.choice(["", "  ", "\t"])
            plan = ("skip", None)
        elif kind < 0.87:
            fn = os.path.join(_argdir(), "f%d_%d.params" % (os.getpid(), k))
            text = "".join("%s = %d\n" % (rng.choice(tps), rng.randint(1, 9)) for _ in range(rng.randint(1, 3)))
            with open(fn, "w") as f:
                f.write(text)
            a = fn
            plan = ("file", fn)
        else:
            a = rng.choice(["positional", "no_such_file.params", "7", "word another"])
            plan = ("remaining", a)
        args.append(a)
        if plan[0] == "arg":
            want_sources.append(lambda x=plan[1]: interp2.process_arg(arg=x))
        elif plan[0] == "file":
            want_sources.append(lambda x=plan[1]: freephil.parse(file_name=x))
        elif plan[0] == "remaining":
            want_remaining.append(plan[1])
    interp = master.command_line_argument_interpreter(home_scope=home)
    try:
        got, remaining = interp.process_and_fetch(args=args, custom_processor="collect_remaining")
        a = got.as_str(attributes_level=2)
    except (freephil.Sorry, RuntimeError) as e:
        a, remaining = ("refused", type(e).__name__), None
    except BaseException as e:
        return "process_and_fetch(%r) raised %s: %s" % (args, type(e).__name__, str(e)[:80])
    try:
        b = master.fetch(sources=[f() for f in want_sources]).as_str(attributes_level=2)
    except (freephil.Sorry, RuntimeError) as e:
        b = ("refused", type(e).__name__)
    if isinstance(a, tuple) or isinstance(b, tuple):
        # an argument that is refused on its own (ambiguous name ...) is swallowed by process_args and handed to the custom
        # processor: the two sides then differ by construction; only agreement on acceptance is required here
        return None
    if a != b:
        return "process_and_fetch(%r) differs from fetch of the individually interpreted arguments" % (args,)
    if remaining != want_remaining:
        return "collect_remaining returned %r for %r, expected %r" % (remaining, args, want_remaining)
    return None


def oracle(master, tps, home, name, value, res, exc, printed):
    exp = experts(master)
    # one parameter per distinct full path (further occurrences of a .multiple definition are the same parameter)
    seen, tps_, exp_ = set(), [], []
    for p, e in zip(tps, exp):
        if p not in seen:
            seen.add(p)
            tps_.append(p)
            exp_.append(e)
    tps, exp = tps_, exp_
    ranks = [rank(home, name, p) for p in tps]
    best = max([r for r in ranks if r is not None], default=None)
    try:
        want_words = [(w.value, w.quote_token) for w in freephil.parse(input_string="x = " + value).objects[0].words]
    except BaseException:
        return None  # the value text itself does not parse: refusal expected, any Sorry is fine
    if best is None:
        if exc is None or not isinstance(exc, freephil.Sorry) or not str(exc).startswith("Unknown"):
            return "name matches no parameter but was not refused as unknown"
        return None
    cands = [p for p, r in zip(tps, ranks) if r == best]
    if name in tps:
        cands = [name]  # a name equal to a parameter's full path always addresses that parameter
    chosen = None
    if len(cands) == 1:
        chosen = cands[0]
    else:
        levels = [e for p, r, e in zip(tps, ranks, exp) if r == best]
        lo = min(levels)
        if levels.count(lo) == 1:
            chosen = cands[levels.index(lo)]
    if chosen is None:
        if exc is None or not isinstance(exc, freephil.Sorry) or not str(exc).startswith("Ambiguous"):
            return "best match is shared by %r but the argument was not refused as ambiguous" % (cands,)
        for c in cands:
            if "  " + c not in str(exc):
                return "ambiguity message does not list %s" % c
        return None
    if exc is not None:
        return "intended parameter is %s but the argument was refused: %s" % (chosen, str(exc)[:100])
    defs = res.all_definitions()
    if len(defs) != 1 or defs[0].path != chosen:
        return "addressed %r, intended %s" % ([d.path for d in defs], chosen)
    got = [(w.value, w.quote_token) for w in defs[0].object.words]
    if got != want_words:
        return "value words %r, from a file they would be %r" % (got, want_words)
    return None


def flush(ctx, cases, reqs, impls):
    if not reqs:
        return
    answers = [None] * len(reqs)
    if ctx.mode != "impl-only":
        answers = ctx.corr("process_arg", [{k: c[k] for k in ("master", "home", "arg")} for c in cases], reqs, impls)
    for c, a, i in zip(cases, answers, impls):
        if c["fail"]:
            ctx.fail({k: c[k] for k in ("master", "home", "arg")}, c["fail"], finding="D12" if c["d12"] else None,
                     model_violates=None if (a is None or a[0] in ('unsupported', 'parse-failed', 'type-failed')) else (a == i))


def finding_still_fails(f):
    w = f["witness"]
    m = freephil.parse(input_string=w["master"])
    if "chosen" in w:
        try:
            with contextlib.redirect_stdout(io.StringIO()):
                r = m.command_line_argument_interpreter().process(arg=w["arg"])
        except BaseException:
            return False
        return [d.path for d in r.all_definitions()] == [w["chosen"]]
    try:
        m.command_line_argument_interpreter().process(arg=w["arg"])
    except freephil.Sorry as e:
        return str(e).startswith("Ambiguous")
    return False


def replay(payload):
    c = payload["failure"]["case"]
    print(c)
    return False
