"""C06 — every source definition is either consumed or reported as unused."""
from common import freephil, enc, line_of
from props import _fetch

LEVEL = "proof"
MODULE = "Phil.Props.C06"
LEVEL_TEXT = 'Lean theorems about the merge model with the .tmp marks modelled as the returned set of consumed source ids: tracking is transparent (one function returns both), used ids are source ids (any master), and the exact characterisation: the reported list is precisely the enabled source definitions whose dotted path names no master parameter, with path and line — on flat masters (flat_unused_exact, reported_iff), nested masters (tree_unused_exact, reported_iff_tree), with .multiple definitions (tree_multi_unused_exact) and with .multiple scopes (ms_unused_exact, reported_iff_ms, fetchRoot_ms_unused_exact). Tied to /repo by a correspondence run comparing the unused list; the oracle evaluates the statement on the implementation (set equality with path and line, tracking transparent, master itself as a source, change_default_phil_values).'
LEVEL_NOTE = 'Variable-free sources in the exactness theorems (a definition used only as a $variable is marked consumed by the code; the suite pins that). D46 (master passed as its own source reported its own definitions) fixed in /repo.'
TECHNIQUE = 'Lean 4 exact characterisation of the unused list on the fetch model + differential correspondence + set-comparison oracle'
RULE = ("masters x source lists containing known, misspelt, wrongly nested, repeated and disabled definitions; non-trivial = "
        "at least one source definition is unused; distinct = (master, sources)")
ASSUMPTIONS = ["variable-free, alias-free sources"]


def source_defs(ss):
    out = []

    def walk(o, prefix):
        for c in o.objects:
            if c.is_disabled:
                continue
            if c.is_definition:
                if c.name != "include":
                    out.append((prefix + c.name, line_of(c.where_str)))
            else:
                walk(c, prefix + c.name + ".")
    for s in ss:
        walk(s, "")
    return out


def run(ctx):
    rng = ctx.rng
    n = ctx.scale(1500, 40000, 8000)
    cases, reqs, impls = [], [], []
    for i in range(n):
        if ctx.time_left() < 30:
            ctx.notes.append("stopped early on time budget")
            break
        tree, mt, srcs = _fetch.gen(rng, nested=(i % 4 == 3), n_sources=rng.choice([1, 1, 2, 3]), deprecated=True)
        m = freephil.parse(input_string=mt)
        ss = [freephil.parse(input_string=s) for s in srcs]
        ia = _fetch.fetch_impl(m, ss)
        f = None
        if ia[0] == "ok":
            w, unused = m.fetch(sources=ss, track_unused_definitions=True)
            got = [(u.path, line_of(str(u))) for u in unused]
            params = set(_fetch.active_params(m))
            want = [(p, l) for p, l in source_defs(ss) if p not in params]
            ctx.case((mt, tuple(srcs)), nontrivial=len(want) > 0)
            ctx.count("unused_%d" % min(len(want), 3))
            if got != want:
                f = "reported %r, unused definitions are %r" % (got, want)
            else:
                w2 = m.fetch(sources=[freephil.parse(input_string=s) for s in srcs])
                if w.as_str(attributes_level=3) != w2.as_str(attributes_level=3):
                    f = "result differs with tracking on"
            if f is None and i % 3 == 0:
                # the master itself (a complete copy of the defaults, C07) as a source: every definition of it names a master
                # parameter, so nothing of it may be reported (defect D46, fixed: the master's own object was skipped unmarked)
                try:
                    _, u2 = m.fetch(sources=[m] + ss, track_unused_definitions=True)
                    got2 = [(u.path, line_of(str(u))) for u in u2]
                    if got2 != want:
                        f = "with the master object as first source: reported %r, unused definitions are %r" % (got2, want)
                    ctx.count("master_as_source")
                except (Exception, freephil.Sorry):
                    pass
        else:
            ctx.case((mt, tuple(srcs)), nontrivial=False)
        case = {"master": mt, "sources": srcs}
        cases.append((case, f))
        reqs.append(_fetch.fetch_req(mt, srcs))
        impls.append(ia)
        if i % 300 == 0:
            ctx.sample({"master": mt, "sources": srcs, "reported": ia[1][1] if ia[0] == "ok" else ia})
    # sources with $variables: which definitions the code marks as consumed (the referenced ones too) is compared
    # with the model only — the statement's reading of "unused" is about variable-free sources
    vcases, vreqs, vimpls = [], [], []
    for i in range(ctx.scale(400, 10000, 2000)):
        if ctx.time_left() < 30:
            break
        tree, mt, srcs = _fetch.gen(rng, nested=False, n_sources=rng.choice([1, 2]), variables=True, deprecated=True)
        env = _fetch.gen_env(rng)
        m = freephil.parse(input_string=mt)
        ss = [freephil.parse(input_string=s) for s in srcs]
        ctx.case((mt, tuple(srcs), tuple(sorted(env.items()))), nontrivial=any("$" in s for s in srcs))
        ctx.count("with_variables")
        with _fetch.env_as(env):
            ia = _fetch.fetch_impl(m, ss)
        vcases.append({"master": mt, "sources": srcs, "env": env})
        vreqs.append(_fetch.fetch_req(mt, srcs, env=env))
        vimpls.append(ia)
    if vreqs and ctx.mode != "impl-only":
        ctx.corr("fetch_with_variables", vcases, vreqs, vimpls, proj=lambda r: r[1])
    # the consumer named in the property
    try:
        freephil.change_default_phil_values("a = 1\n  .type = int\n", "a = 2\nb = 3\n")
        ctx.fail({"consumer": "change_default_phil_values"}, "misspelt parameter b was silently ignored")
    except freephil.Sorry as e:
        if "b (input line 2)" not in str(e):
            ctx.fail({"consumer": "change_default_phil_values"}, "Sorry does not cite b and its line: %s" % e)
    answers = [None] * len(reqs)
    if reqs and ctx.mode != "impl-only":
        # C06 is about the unused list: compare that (and success/refusal), not the merged values
        answers = ctx.corr("fetch", [c[0] for c in cases], reqs, impls, proj=lambda r: r[1])
    for (case, f), a, i in zip(cases, answers, impls):
        if f:
            ctx.fail(case, f)


def replay(payload):
    print(payload["failure"])
    return False
