"""C06 — every source definition is either consumed or reported as unused."""
from common import freephil, enc, line_of
from props import _fetch
import mgen

LEVEL = "proof"
MODULE = "Phil.Props.C06"
LEVEL_TEXT = 'Lean theorems about the merge model with the .tmp marks modelled as the returned set of consumed source ids: tracking is transparent (one function returns both), used ids are source ids (any master), and the exact characterisation: the reported list is precisely the enabled source definitions whose dotted path names no master parameter, with path and line — on flat masters (flat_unused_exact, reported_iff), nested masters (tree_unused_exact, reported_iff_tree), with .multiple definitions (tree_multi_unused_exact) and with .multiple scopes (ms_unused_exact, reported_iff_ms, fetchRoot_ms_unused_exact). Tied to /repo by a correspondence run comparing the unused list; with variables the consumed-by-reference rule is proved (used_exact_of_texts, unused_exact_of_text). The oracle evaluates the statement on the implementation (set equality with path and line, tracking transparent, master itself as a source, sources that are API-built fetch / format results incl. template entries against later editions of the master, change_default_phil_values).'
LEVEL_NOTE = 'Variable-free sources in the exactness theorems (a definition used only as a $variable is marked consumed by the code; the suite pins that). D46 (master passed as its own source reported its own definitions) fixed in /repo.'
TECHNIQUE = 'Lean 4 exact characterisation of the unused list on the fetch model + differential correspondence + set-comparison oracle'
RULE = ("masters x source lists containing known, misspelt, wrongly nested, repeated and disabled definitions; non-trivial = "
        "at least one source definition is unused; distinct = (master, sources); plus an impl-only stream of source OBJECTS built "
        "through the API (fetch / format results with template entries) against the same or a later master")
ASSUMPTIONS = ["variable-free, alias-free sources"]


def source_defs(ss):
    out = []

    def walk(o, prefix):
        for c in o.objects:
            if c.is_disabled:
                continue
            if c.is_definition:
                if c.name != "include":
                    out.append((prefix + c.name, line_of(c.where_str)))
            else:
                walk(c, prefix + c.name + ".")
    for s in ss:
        walk(s, "")
    return out


def object_defs(ss):
    """(path, where_str) of every active definition of source OBJECTS, read off the objects themselves (the statement's
    "active definitions in the sources ... with the source line it came from"); is_template plays no part in "active":
    a template entry of a fetch()/format() result is an enabled definition like any other"""
    out = []

    def walk(o, prefix):
        for c in o.objects:
            if c.is_disabled:
                continue
            if c.is_definition:
                if c.name != "include":
                    out.append((prefix + c.name, c.where_str))
            else:
                walk(c, prefix + c.name + ".")
    for s in ss:
        walk(s, "")
    return out


def later_master(rng, tree, p=0.25):
    """a later edition of a master tree: parameters / scopes renamed (a corrected spelling) or dropped, anywhere,
    also inside .multiple scopes and .multiple parameters themselves; everything else unchanged"""
    import copy
    t2 = copy.deepcopy(tree)
    tags = set()

    def walk(ns):
        out = []
        for n in ns:
            k = rng.random()
            if k < p / 2 and len(ns) > 1:
                tags.add("dropped")
                continue
            if k < p:
                n["name"] = n["name"] + "_v2"
                tags.add("renamed")
            if n["k"] == "s":
                n.pop("reopen", None)
                n["kids"] = walk(n["kids"]) or n["kids"]
            out.append(n)
        return out
    return walk(t2), tags


def has_template(o):
    return any(c.is_template != 0 or (c.is_scope and has_template(c)) for c in o.objects)


ROUTES = ("fetch", "format", "fetch_of_fetch", "fetch+text", "text+format")


def api_sources(rng, m1, ss, srcs, route):
    """source OBJECTS built through the API from an earlier merge against master m1 (the working parameters a program
    keeps): the fetch result, the format() of its extraction, a fetch of the fetch result; alone or next to parsed text"""
    w = m1.fetch(sources=ss)
    if route == "fetch":
        return [w]
    if route == "format":
        return [m1.format(python_object=w.extract())]
    if route == "fetch_of_fetch":
        return [m1.fetch(source=w)]
    extra = freephil.parse(input_string=srcs[-1]) if srcs else freephil.parse(input_string="zz = 1\n")
    if route == "fetch+text":
        return [w, extra]
    return [extra, m1.format(python_object=w.extract())]


def api_object_stream(ctx):
    """impl-only stream (the Lean model takes source TEXTS): sources that are API-built objects -- results of an earlier
    fetch / format against master M1, carrying is_template != 0 entries -- fetched with tracking against M1 itself or a
    later edition of it (renamed / dropped parameters).  Clauses, as stated: reported == active definitions of the source
    objects whose path names no active master parameter (path and where_str, as a multiset); merged result identical
    with tracking off; and the report's paths equal those for the re-parsed complete print of the same objects."""
    from collections import Counter
    rng = ctx.rng
    for i in range(ctx.scale(500, 12000, 2500)):
        if ctx.time_left() < 30:
            ctx.notes.append("api-object stream stopped early on time budget")
            break
        tree, mt, srcs = _fetch.gen(rng, nested=(i % 4 == 3), n_sources=rng.choice([0, 1, 1, 2]), deprecated=True)
        route = ROUTES[i % len(ROUTES)]
        same = i % 5 == 4
        tree2, tags = (tree, set()) if same else later_master(rng, tree)
        mt2 = mgen.render_master(tree2)
        case = {"stream": "api_object_sources", "master_of_sources": mt, "texts": srcs, "route": route, "master": mt2}
        try:
            m1 = freephil.parse(input_string=mt)
            objs = api_sources(rng, m1, [freephil.parse(input_string=s) for s in srcs], srcs, route)
            m2 = freephil.parse(input_string=mt2)
            plain = m2.fetch(sources=objs)
        except (Exception, freephil.Sorry):
            ctx.case((mt, tuple(srcs), route, mt2), nontrivial=False)
            ctx.count("impl_only_api_refused")
            continue
        params = set(_fetch.active_params(m2))
        want = [(p, l) for p, l in object_defs(objs) if p not in params]
        templ = any(has_template(o) for o in objs)
        ctx.case((mt, tuple(srcs), route, mt2), nontrivial=len(want) > 0)
        ctx.count("impl_only_api_object_sources")
        ctx.count("api_route_" + route)
        ctx.count("api_templates_%s_unused_%d" % ("yes" if templ else "no", min(len(want), 3)))
        for t in tags:
            ctx.count("api_master_" + t)
        try:
            tracked, unused = m2.fetch(sources=objs, track_unused_definitions=True)
        except (Exception, freephil.Sorry) as e:
            ctx.fail(case, "fetch succeeds without tracking, raises with tracking: %r" % (e,))
            continue
        got = [(u.path, u.object.where_str) for u in unused]
        if Counter(got) != Counter(want):
            ctx.fail(case, "source objects (%s): reported %r, unused definitions are %r" % (route, sorted(got), sorted(want)))
            continue
        if tracked.as_str(attributes_level=3) != plain.as_str(attributes_level=3):
            ctx.fail(case, "source objects (%s): result differs with tracking on" % route)
            continue
        # the same content through text: the complete print (attributes_level=3 shows hidden template entries and deprecated parameters too)
        try:
            re_ss = [freephil.parse(input_string=o.as_str(attributes_level=3)) for o in objs]
            _, u3 = m2.fetch(sources=re_ss, track_unused_definitions=True)
        except (Exception, freephil.Sorry):
            ctx.count("api_reparse_refused")
            continue
        if sorted(u.path for u in u3) != sorted(p for p, _ in got):
            ctx.fail(case, "source objects (%s): reported paths %r, for their re-parsed print %r"
                     % (route, sorted(p for p, _ in got), sorted(u.path for u in u3)))


def run(ctx):
    rng = ctx.rng
    n = ctx.scale(1500, 40000, 8000)
    cases, reqs, impls = [], [], []
    for i in range(n):
        if ctx.time_left() < 30:
            ctx.notes.append("stopped early on time budget")
            break
        tree, mt, srcs = _fetch.gen(rng, nested=(i % 4 == 3), n_sources=rng.choice([1, 1, 2, 3]), deprecated=True)
        m = freephil.parse(input_string=mt)
        ss = [freephil.parse(input_string=s) for s in srcs]
        ia = _fetch.fetch_impl(m, ss)
        f = None
        if ia[0] == "ok":
            w, unused = m.fetch(sources=ss, track_unused_definitions=True)
            got = [(u.path, line_of(str(u))) for u in unused]
            params = set(_fetch.active_params(m))
            want = [(p, l) for p, l in source_defs(ss) if p not in params]
            ctx.case((mt, tuple(srcs)), nontrivial=len(want) > 0)
            ctx.count("unused_%d" % min(len(want), 3))
            if got != want:
                f = "reported %r, unused definitions are %r" % (got, want)
            else:
                w2 = m.fetch(sources=[freephil.parse(input_string=s) for s in srcs])
                if w.as_str(attributes_level=3) != w2.as_str(attributes_level=3):
                    f = "result differs with tracking on"
            if f is None and i % 3 == 0:
                # the master itself (a complete copy of the defaults, C07) as a source: every definition of it names a master
                # parameter, so nothing of it may be reported (defect D46, fixed: the master's own object was skipped unmarked)
                try:
                    _, u2 = m.fetch(sources=[m] + ss, track_unused_definitions=True)
                    got2 = [(u.path, line_of(str(u))) for u in u2]
                    if got2 != want:
                        f = "with the master object as first source: reported %r, unused definitions are %r" % (got2, want)
                    ctx.count("master_as_source")
                except (Exception, freephil.Sorry):
                    pass
        else:
            ctx.case((mt, tuple(srcs)), nontrivial=False)
        case = {"master": mt, "sources": srcs}
        cases.append((case, f))
        reqs.append(_fetch.fetch_req(mt, srcs))
        impls.append(ia)
        if i % 300 == 0:
            ctx.sample({"master": mt, "sources": srcs, "reported": ia[1][1] if ia[0] == "ok" else ia})
    # sources with $variables: which definitions the code marks as consumed (the referenced ones too) is compared
    # with the model only — the statement's reading of "unused" is about variable-free sources
    vcases, vreqs, vimpls = [], [], []
    for i in range(ctx.scale(400, 10000, 2000)):
        if ctx.time_left() < 30:
            break
        tree, mt, srcs = _fetch.gen(rng, nested=False, n_sources=rng.choice([1, 2]), variables=True, deprecated=True)
        env = _fetch.gen_env(rng)
        m = freephil.parse(input_string=mt)
        ss = [freephil.parse(input_string=s) for s in srcs]
        ctx.case((mt, tuple(srcs), tuple(sorted(env.items()))), nontrivial=any("$" in s for s in srcs))
        ctx.count("with_variables")
        with _fetch.env_as(env):
            ia = _fetch.fetch_impl(m, ss)
        vcases.append({"master": mt, "sources": srcs, "env": env})
        vreqs.append(_fetch.fetch_req(mt, srcs, env=env))
        vimpls.append(ia)
    if vreqs and ctx.mode != "impl-only":
        ctx.corr("fetch_with_variables", vcases, vreqs, vimpls, proj=lambda r: r[1])
    # the consumer named in the property
    try:
        freephil.change_default_phil_values("a = 1\n  .type = int\n", "a = 2\nb = 3\n")
        ctx.fail({"consumer": "change_default_phil_values"}, "misspelt parameter b was silently ignored")
    except freephil.Sorry as e:
        if "b (input line 2)" not in str(e):
            ctx.fail({"consumer": "change_default_phil_values"}, "Sorry does not cite b and its line: %s" % e)
    api_object_stream(ctx)
    answers = [None] * len(reqs)
    if reqs and ctx.mode != "impl-only":
        # C06 is about the unused list: compare that (and success/refusal), not the merged values
        answers = ctx.corr("fetch", [c[0] for c in cases], reqs, impls, proj=lambda r: r[1])
    for (case, f), a, i in zip(cases, answers, impls):
        if f:
            ctx.fail(case, f)


def replay(payload):
    print(payload["failure"])
    return False
