"""identity graphs of real PHIL objects, for the heap model (Phil/Heap.lean): C17 copies, C18 detachment"""
import copy
import pickle

from common import freephil, enc


def is_node(o):
    return isinstance(o, (freephil.scope, freephil.definition))


def walk(roots, objs=None, index=None):
    """number every scope/definition reachable through `objects` and `primary_parent_scope` in the order
    copy.deepcopy meets them (an object, its children in order, then its parent) — the order of
    Phil.Heap.visit; objects already numbered keep their number"""
    objs = [] if objs is None else objs
    index = {} if index is None else index
    stack = list(reversed(roots))
    while stack:
        o = stack.pop()
        if id(o) in index:
            continue
        index[id(o)] = len(objs)
        objs.append(o)
        succ = []
        if isinstance(o, freephil.scope):
            succ.extend(o.objects)
        if o.primary_parent_scope is not None:
            succ.append(o.primary_parent_scope)
        stack.extend(reversed(succ))
    return objs, index


def graph(objs, index):
    g = []
    for o in objs:
        p = o.primary_parent_scope
        g.append([isinstance(o, freephil.scope), enc(o.name), None if p is None else index[id(p)],
                  [index[id(c)] for c in o.objects] if isinstance(o, freephil.scope) else []])
    return g


OPS = ("copy", "deepcopy", "pickle", "ccopy_name", "ccopy_objects")


def copy_case(rng, roots):
    """one identity-graph comparison: (request for the driver, the implementation's answer, description)"""
    objs, index = walk(roots)
    before = graph(objs, index)
    x = rng.randrange(len(objs))
    o = objs[x]
    op = rng.choice(OPS)
    name = objsel = None
    if op == "copy":
        r = o.copy()
    elif op == "deepcopy":
        r = copy.deepcopy(o)
    elif op == "pickle":
        r = pickle.loads(pickle.dumps(o))
    elif op == "ccopy_name" or not isinstance(o, freephil.scope):
        op = "ccopy_name"
        name = "renamed"
        r = o.customized_copy(name=name)
    else:
        k = rng.randrange(len(objs) + 1)
        sel = [rng.randrange(len(objs)) for _ in range(min(k, 3))]
        objsel = sel
        r = o.customized_copy(objects=[objs[i] for i in sel])
    if graph(objs, index) != before:
        return None, None, "%s changed the identity graph of the original" % op
    n0 = len(objs)
    objs2, index2 = walk([r], list(objs), dict(index))
    model_op = {"pickle": "deepcopy", "ccopy_name": "ccopy", "ccopy_objects": "ccopy"}.get(op, op)
    req = ["heap_op", before, model_op, x, None if name is None else enc(name), objsel]
    impl = ["ok", [graph(objs2, index2), index2[id(r)]]]
    return req, impl, {"op": op, "node": x, "objects_before": n0, "objects_after": len(objs2)}


def value_objects(ex, out, dup):
    """mutable objects of an extracted value (scope_extract nodes, lists), pre-order; `dup` collects objects met twice"""
    if isinstance(ex, (freephil.scope_extract, list)):
        if id(ex) in out:
            dup.append(ex)
            return
        out[id(ex)] = ex
        if isinstance(ex, list):
            for e in ex:
                value_objects(e, out, dup)
        else:
            for k, v in ex.__dict__.items():
                if k.startswith("__") and k.endswith("__"):
                    continue
                value_objects(v, out, dup)


def detachment_identity(w):
    """the identity assumptions of Phil/HeapExtract.lean on the real objects: an extraction result is a tree of
    objects, all new — except that a `.type = words` definition hands out its own `words` list — and two
    extractions share nothing else; list elements are immutable"""
    objs, _ = walk([w])
    words_of = {}
    phil_ids = set()
    for o in objs:
        phil_ids.add(id(o))
        if isinstance(o, freephil.definition):
            words_of[id(o.words)] = o
            for x in o.words:
                phil_ids.add(id(x))
        else:
            phil_ids.add(id(o.objects))
    a, dup = {}, []
    value_objects(w.extract(), a, dup)
    # a handed-out word list may be met twice: definitions of a fetch result that were not overridden share the
    # master's `words` list object (customized_copy keeps the slot), e.g. in two instances of a .multiple scope
    dup = [x for x in dup if id(x) not in words_of]
    if dup:
        return "an extracted value object is reachable twice (%s)" % type(dup[0]).__name__
    b, dup = {}, []
    value_objects(w.extract(), b, dup)
    n_handed = 0
    for i, v in a.items():
        d = words_of.get(i)
        if d is not None:
            if d.type is None or d.type.phil_type != "words":
                return "extraction hands out the word list of %s, which is not .type = words" % d.name
            n_handed += 1
            continue
        if i in phil_ids:
            return "an extracted %s is an object of the PHIL tree" % type(v).__name__
        if i in b:
            return "two extractions share a %s" % type(v).__name__
        if isinstance(v, list) and not isinstance(v, freephil.common.scope_extract_list):
            for e in v:
                if not (e is None or isinstance(e, (str, int, float, bool, type(freephil.Auto), freephil.tokenizer.word))):
                    return "an extracted list holds a mutable %s" % type(e).__name__
    return None if n_handed == 0 else ("handed_out", n_handed)


def fetch_case(mt, srcs, req):
    """identity-graph comparison of `master.fetch(sources=…)` with Phil.Heap.fetchH (Phil/HeapFetch2.lean): the graph
    of master + sources before, then the new objects reachable from the result (numbered after the old ones in visit
    order), the result's id, and which OLD objects got `tmp = True`.  `req` = the ["fetch", …] request of the same
    texts (its eval / format tables are reused).  Returns (request, implementation answer, failure or None)"""
    from common import call_j
    m = freephil.parse(input_string=mt)
    ss = [freephil.parse(input_string=s) for s in srcs]
    objs, index = walk([m] + ss)
    before = graph(objs, index)
    tmp0 = [getattr(o, "tmp", None) for o in objs]
    n0 = len(objs)
    state = {}

    def f():
        r = m.fetch(sources=ss)
        state["r"] = r
        objs2, index2 = walk([r], list(objs), dict(index))
        marks = [i for i in range(n0) if getattr(objs[i], "tmp", None) is True and tmp0[i] is not True]
        new_marks = sum(1 for o in objs2[n0:] if getattr(o, "tmp", None) is True)
        return [graph(objs2, index2), index2[id(r)], marks, new_marks, n0]
    impl = call_j(f)
    fail = None
    if graph(objs, index) != before:
        fail = "fetch changed the identity graph of the master or of a source"
    hreq = ["heap_fetch", req[1], req[2], req[4], req[5]]
    return hreq, impl, fail


def fetch_diff_case(mt, srcs, req):
    """identity-graph comparison of `master.fetch_diff(sources=…)` with Phil.Heap.fetchDiffH (Phil/HeapFetchDiff.lean);
    same answer format as `fetch_case`"""
    from common import call_j
    m = freephil.parse(input_string=mt)
    ss = [freephil.parse(input_string=s) for s in srcs]
    objs, index = walk([m] + ss)
    before = graph(objs, index)
    tmp0 = [getattr(o, "tmp", None) for o in objs]
    tmpl0 = [o.is_template for o in objs]
    n0 = len(objs)

    def f():
        r = m.fetch_diff(sources=ss)
        objs2, index2 = walk([r], list(objs), dict(index))
        marks = [i for i in range(n0) if getattr(objs[i], "tmp", None) is True and tmp0[i] is not True]
        new_marks = sum(1 for o in objs2[n0:] if getattr(o, "tmp", None) is True)
        return [graph(objs2, index2), index2[id(r)], marks, new_marks, n0]
    impl = call_j(f)
    fail = None
    if graph(objs, index) != before:
        fail = "fetch_diff changed the identity graph of the master or of a source"
    elif [o.is_template for o in objs] != tmpl0:
        fail = "fetch_diff changed is_template of an object of the master or of a source"
    hreq = ["heap_fetch_diff", req[1], req[2], req[4], req[5]]
    return hreq, impl, fail


def format_case(mt, srcs, req):
    """identity-graph comparison of `master.format(python_object)` with Phil.Heap.formatH (Phil/HeapFormat.lean): the
    python object is `master.fetch(sources).extract()` of OTHER parses of the same texts; the graph of a FRESH parse of
    the master before, then the new objects reachable from the format result, the result's id, the number of old
    objects and the `is_template` of every OLD object after the call (the template flag must go to the NEW copies)"""
    from common import call_j
    m = freephil.parse(input_string=mt)
    objs, index = walk([m])
    before = graph(objs, index)
    tmpl0 = [o.is_template for o in objs]
    n0 = len(objs)

    def f():
        m1 = freephil.parse(input_string=mt)
        po = m1.fetch(sources=[freephil.parse(input_string=s) for s in srcs]).extract()
        r = m.format(python_object=po)
        objs2, index2 = walk([r], list(objs), dict(index))
        return [graph(objs2, index2), index2[id(r)], n0, [o.is_template for o in objs]]
    impl = call_j(f)
    fail = None
    if graph(objs, index) != before:
        fail = "format changed the identity graph of the master"
    elif [o.is_template for o in objs] != tmpl0:
        fail = "format changed is_template of an object of the master"
    hreq = ["heap_format", req[1], req[2], req[4], req[5]]
    return hreq, impl, fail
