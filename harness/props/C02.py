"""C02 — all surface spellings of one abstract tree parse to that same tree."""
import copy

import layout
from common import freephil, enc, obj_j, call_j
from props import _lay

LEVEL = "proof"
MODULE = "Phil.Props.C02"
LEVEL_TEXT = "Lean theorems, all inputs of ONE layout grammar for whole documents given as data (LayoutAll: definitions and scopes nested to any depth, dotted names, '!' on definitions / scopes / single attributes, attribute items, backslash and quoted continuation lines, multi-line quoted words, switched-off regions as filler, a #phil __END__ cut): every well-formed layout of one abstract document parses to the same tree (parse_closed_form_all, layout_independent_all, two_layouts_same_tree_all), '!' disables exactly one construct (bang_disables_exactly_one_all, bang_on_attribute_all), dotted = nested (dotted_equals_nested_all), a cut tail is ignored at top level and refused inside an open scope (cut_tail_ignored_all, cut_inside_scope_fails_all); the earlier separate grammars embed. Kernel-checked negative witnesses for every sharp edge. The parser model is tied to /repo by a correspondence run on every rendering (full tree incl. ids, lines, attribute values); the oracle requires several independent random layouts of each abstract tree to parse to the generator's tree on the implementation; identifier predicates are regenerated from the source and proved equal to the model (Props/Translated)."
LEVEL_NOTE = 'Header attribute values have no backslash continuation in the grammar. Known finding D20 (quote character inside a trailing # comment) is outside the grammar (cmtSafe) and visited in its own stream.'
TECHNIQUE = 'Lean 4 closed-form layout-independence theorem over one layout grammar for whole documents + differential correspondence + layout-grammar oracle'
RULE = ("abstract trees (depth 0-3, words of every quote style incl. multi-line, attributes of every kind, '!' marks) x "
        "3 random layouts each (layout intensity 0/0.5/1); non-trivial = tree has at least one object; distinct = distinct rendering")
ASSUMPTIONS = ["renderer emits only layouts the property names; comments never end in a backslash and (outside the D20 stream) "
               "contain no word-initial quote"]


def check_text(tree, text):
    try:
        p = freephil.parse(input_string=text)
    except BaseException as e:
        return "parse raised %s: %s" % (type(e).__name__, str(e)[:200])
    return layout.compare(p.objects, tree, lines=False)


def isspace_sweep(ctx):
    """the model's str.isspace table against the runtime over every code point (surrogates excluded)"""
    from common import run_model
    a = run_model([["isspace_table"]])[0]
    py = [i for i in range(0x110000) if not (0xD800 <= i <= 0xDFFF) and chr(i).isspace()]
    ctx.case("isspace_table")
    ctx.traces += 1
    if a != ["ok", py]:
        ctx.disagree("isspace_table", {"table": "str.isspace"}, a[1][:40] if a[0] == "ok" else a, py)
    else:
        ctx.notes.append("isspace table equals str.isspace over all %d code points (%d blanks)" % (0x110000 - 2048, len(py)))


def run(ctx):
    rng = ctx.rng
    if ctx.tier == "thorough" and ctx.mode == "normal":
        isspace_sweep(ctx)
    n = ctx.scale(1500, 40000, 8000)
    cases, reqs, impls = [], [], []
    for i in range(n):
        if ctx.time_left() < 25:
            ctx.notes.append("stopped early on time budget")
            break
        d20 = i % 25 == 24
        tree, _, _ = _lay.gen_case(rng)
        for k in range(3):
            t = layout.strip_marks(copy.deepcopy(tree))
            r = layout.Renderer(rng, layout=[0.0, 0.6, 1.0][k], comment_quotes=d20)
            text = r.render(t)
            ctx.case(text, nontrivial=len(tree) > 0)
            for f in r.features:
                ctx.count(f)
            ia = call_j(lambda: freephil.parse(input_string=text), obj_j)
            f = check_text(t, text)
            cases.append({"text": text, "d20": d20, "fail": f})
            reqs.append(["parse", enc(text)])
            impls.append(ia)
            if k == 2 and i % 300 == 0:
                ctx.sample({"text": text, "features": sorted(r.features)})
        if len(reqs) >= 3000:
            flush(ctx, cases, reqs, impls)
            cases, reqs, impls = [], [], []
    flush(ctx, cases, reqs, impls)


def flush(ctx, cases, reqs, impls):
    if not reqs:
        return
    if ctx.mode == "impl-only":
        answers = [None] * len(reqs)
    else:
        answers = ctx.corr("parse", [{"text": c["text"]} for c in cases], reqs, impls)
    for c, a, i in zip(cases, answers, impls):
        if c["fail"]:
            ctx.fail({"text": c["text"]}, c["fail"], finding="D20" if c["d20"] and "'" + '"' else None,
                     model_violates=None if (a is None or a[0] in ('unsupported', 'parse-failed', 'type-failed')) else (a == i))


def finding_still_fails(f):
    w = f["witness"]
    p = freephil.parse(input_string=w["text"])
    return [o.name for o in p.objects] != w["expected_names"]


def replay(payload):
    c = payload["failure"]["case"]
    print(repr(c["text"]))
    try:
        print(freephil.parse(input_string=c["text"]).as_str(attributes_level=2))
    except BaseException as e:
        print("parse raised", type(e).__name__, e)
    return False
