"""Replays of the known findings of C15 (D73, D74).

Kept beside C15.py because that module was being edited by someone else when these findings were recorded; hook it up
with one line in C15.py:

    from props._c15_findings import finding_still_fails

(the runner treats a property module without `finding_still_fails` as "every listed finding still fails")."""
from common import freephil, line_of


def _message(master, source, master_label=None, source_label=None):
    """the RuntimeError text of extract(fetch(master, source)), or None when nothing is raised"""
    m = freephil.parse(input_string=master, source_info=master_label)
    s = freephil.parse(input_string=source, source_info=source_label)
    try:
        m.fetch(source=s).extract()
    except RuntimeError as e:
        return str(e)
    return None


def finding_still_fails(f):
    w = f["witness"]
    try:
        if f["id"] == "D73":
            # the offending value stands in the user's file: the error must cite it, not the master's alternatives
            msg = _message(w["master"], w["source"], w.get("master_label"), w.get("source_label"))
            return msg is not None and not msg.rstrip().endswith(w["required_location"])
        if f["id"] == "D74":
            # a value error on a substituted word must cite the line of the word it came from
            msg = _message(w["master"], w["source"])
            return msg is not None and line_of(msg.splitlines()[0]) is None and not msg.rstrip().endswith(w["required_location"])
    except Exception:   # a tree on which the witness does not even run: the finding covers nothing there
        return False
    return True
