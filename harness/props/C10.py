"""C10 — extraction never yields a value outside the parameter's declared type."""
import copy
import math
import pickle
import re

from common import freephil, enc, call_j, attr_j, word_j, AutoT, tokenizer
from values import pval_j, eval_table

LEVEL = "proof"
MODULE = "Phil.Props.C10"
LEVEL_TEXT = "Lean theorems about the converter model, for all word lists, all constructor-argument combinations and all answers of the eval oracle: fromWords ok v -> InDomain type v (fromWords_in_domain: int never non-integral/non-finite, bounds incl. nan, sizes, None/Auto gates), the bool spelling table is exactly the accepted set, integral expressions are accepted for int; whole trees: extract_tree_in_domain, fetchRoot_extract_in_domain. Constructor defaults are tied to the source by regenerated tables. Tied to /repo by a correspondence run of from_words over a generated pool of type expressions (every keyword present/absent, integral / fractional / float-spelled bounds) x value texts placed at and next to each bound, definitions reached via parse / deepcopy / pickle / fetch; the oracle checks results against the domain DECLARED in the type expression text (not the converter's stored state)."
LEVEL_NOTE = "eval() and float parsing are CPython's (parameter of the model). Types outside the model's type grammar (non-integral bounds on int types, exponent forms) go to the oracle only and are counted."
TECHNIQUE = 'Lean 4 theorem fromWords_in_domain over all inputs/constraints + differential correspondence with eval answers as parameters + declared-domain oracle'
RULE = ("built-in numeric/bool/list types with constructor-argument combinations (a fixed list plus a generated pool: every keyword "
        "present or absent, bounds from integral / fractional / float-spelled-integral literals of either sign for every numeric "
        "type, sizes, None/Auto gates) x value texts from a grammar of numbers, expressions, separators, brackets, "
        "None/Auto/True/False in any case, inf/nan, wrong counts, joined in pairs, plus numbers at and next to every declared "
        "bound (floor, ceil, truncation, +-1/2, +-1) in several spellings; the oracle reads the DECLARED arguments from the "
        "type expression, never from the converter object; a quarter more cases take the parameter from a master parsed with "
        "the default registry inside a process history (1-3 parses of the same / respelt type expression under site "
        "registries that re-register a built-in type name, all five names, or only add a name; before or after; result kept "
        "or dropped), every fixed-list type once at process start; non-trivial = value text has a digit or a letter; "
        "distinct = (type, optional, text)")
ASSUMPTIONS = ["type expressions are the built-in ones with literal arguments"]

TYPES = ["int", "float", "ints", "floats", "bool", "int(value_min=0, value_max=10)", "int(value_min=-3)", "int(value_max=7)",
         "int(allow_none=False)", "float(value_min=0)", "float(value_max=1.5, allow_none=False)", "float(value_min=-1, value_max=1)",
         "ints(size=2)", "ints(size_min=2)", "ints(size_max=3)", "ints(size_min=1, size_max=2)", "ints(value_min=0, value_max=9)",
         "ints(allow_none_elements=True)", "ints(allow_auto_elements=True)",
         "ints(size=3, value_min=1, allow_none_elements=True, allow_auto_elements=True)",
         "floats(size=1)", "floats(value_min=0.5)", "floats(value_min=-1, value_max=1)", "floats(size_min=1, size_max=2)",
         "floats(allow_none_elements=True, allow_auto_elements=True)", "floats(size_max=2, value_max=2.5)"]
ATOMS = ["1", "-1", "0", "2", "3", "7", "8", "10", "11", "1.5", "-0.5", "0.5", "2.5", "1e3", "4/2", "3/2", "2**3", "1e-3", "10/4",
         "inf", "-inf", "nan", "1e999", "-1e999", "10**400", "1/0", "2**0.5", "1j", "None", "none", "NONE", "Auto", "auto", "True",
         "true", "TRUE", "False", "false", "yes", "Yes", "no", "on", "off", "ON", "oFF", "x", "'1'", '"2"', "pi", "sqrt(4)",
         "sqrt(-1)", "0x10", "1_0", "007", "+5", "--1", "1.", ".5", "1e", "()", "[]", "(", ")", "+", "maybe", "2", "y", "'yes'",
         '"None"', "'none'", '" None "', '"Auto"', "' auto'", '"true"', "'False'", '""', '" "', "'3'", '"1 2"', "'1,2'"]
SEPS = [" ", ",", ";", ", ", " ; ", "  "]
MUST_ACCEPT = [
    ("int", "4/2", 2), ("int", "1e3", 1000), ("int", "2**3", 8), ("int", "-3.0", -3),
    ("ints", "1,2;3", [1, 2, 3]), ("ints", "[1, 2]", [1, 2]), ("ints", "(1 2)", [1, 2]), ("ints", "([1;2])", [1, 2]),
    ("floats", "1,2.5", [1.0, 2.5]), ("float", "3/2", 1.5),
    ("bool", "true", True), ("bool", "Yes", True), ("bool", "ON", True), ("bool", "1", True),
    ("bool", "false", False), ("bool", "No", False), ("bool", "oFF", False), ("bool", "0", False),
]


# ---- constructor-argument combinations in general form -------------------------------------------------------------------
# Bound literals as a master file can write them.  The statement quantifies over "all constructor-argument combinations":
# nothing ties the number class of a bound to the number class of the type (int(value_min=0.5) = "more than half a unit",
# float(value_max=3)), so every literal class is offered to every numeric type, with either sign.
BOUND_LITS = {
    "integral": ["0", "1", "2", "3", "7", "10", "-1", "-2", "-3", "-10"],
    "fractional": ["0.5", "-0.5", "2.5", "-2.5", "1.5", "-1.5", "0.25", "-0.75", "7.5", "9.125", "-3.875", ".5", "0.1", "-2.9"],
    "integral_float": ["2.0", "-1.0", "0.0", "3.", "1e1", "-1e1", "1e3", "5e0"],
}
BOUND_CLASSES = ["integral", "integral", "fractional", "fractional", "integral_float"]
_INT_LIT = re.compile(r"-?\d+\Z")
_DEC_LIT = re.compile(r"-?(\d+\.\d*|\.\d+)\Z")


def gen_type(rng):
    """one numeric type expression with a random combination of constructor arguments (always constructible: the
    constructor's own assertions min <= max, size > 0, size xor size_min/size_max are respected)"""
    kind = rng.choice(["int", "float", "ints", "floats"])
    args = []
    lo = rng.choice(BOUND_LITS[rng.choice(BOUND_CLASSES)]) if rng.random() < 0.6 else None
    hi = rng.choice(BOUND_LITS[rng.choice(BOUND_CLASSES)]) if rng.random() < 0.6 else None
    if lo is not None and hi is not None and float(lo) > float(hi):
        lo, hi = hi, lo
    if lo is not None:
        args.append("value_min=" + lo)
    if hi is not None:
        args.append("value_max=" + hi)
    if kind in ("int", "float"):
        if rng.random() < 0.35:
            args.append("allow_none=" + rng.choice(["True", "False", "False"]))
    else:
        k = rng.random()
        if k < 0.3:
            args.append("size=%d" % rng.choice([1, 2, 2, 3, 4]))
        elif k < 0.65:
            a, b = sorted([rng.choice([1, 2, 3]), rng.choice([1, 2, 3, 4])])
            which = rng.choice(["min", "max", "both"])
            if which in ("min", "both"):
                args.append("size_min=%d" % a)
            if which in ("max", "both"):
                args.append("size_max=%d" % b)
        if rng.random() < 0.3:
            args.append("allow_none_elements=" + rng.choice(["True", "True", "False"]))
        if rng.random() < 0.3:
            args.append("allow_auto_elements=" + rng.choice(["True", "True", "False"]))
    rng.shuffle(args)
    return kind + ("(" + ", ".join(args) + ")" if args else "")


_decl = {}


def declared(t):
    """(phil type name, declared domain) read off the type EXPRESSION, independently of the implementation's converter
    object: the property is about the domain the master file declares, whatever the converter chooses to store."""
    if t not in _decl:
        name, _, rest = t.partition("(")
        kw = eval("dict(" + rest[:-1] + ")", {"__builtins__": {"dict": dict}}, {}) if rest else {}
        d = {"value_min": kw.get("value_min"), "value_max": kw.get("value_max")}
        if name in ("int", "float"):
            d["allow_none"] = kw.get("allow_none", True)
        elif name in ("ints", "floats"):
            size = kw.get("size")
            d["size_min"] = size if size is not None else kw.get("size_min")
            d["size_max"] = size if size is not None else kw.get("size_max")
            d["allow_none_elements"] = kw.get("allow_none_elements", False)
            d["allow_auto_elements"] = kw.get("allow_auto_elements", False)
        lits = [a.split("=")[1].strip() for a in (rest[:-1].split(",") if rest else []) if a.strip().startswith("value_m")]
        d["bound_lits"] = lits
        _decl[t] = (name.strip(), d)
    return _decl[t]


def model_covers(t):
    """the Lean model's type-expression grammar: int/ints bounds are int literals, float/floats bounds int literals or
    decimal literals n/d with d | 8 (no exponent, no negative zero), all of magnitude < 10^6.  Types outside it are
    evaluated by the oracle only (counted as impl_only_*)."""
    name, d = declared(t)
    for lit in d["bound_lits"]:
        if _INT_LIT.match(lit):
            continue
        if name in ("int", "ints"):
            return False
        if not _DEC_LIT.match(lit):
            return False
        x = float(lit)
        if (x * 8) != int(x * 8) or (x == 0 and lit.startswith("-")):
            return False
    return True


def _spell(rng, x):
    """a value text for the number x: plain, as a float, as a quotient / product / exponent form"""
    if x == int(x):
        i = int(x)
        return rng.choice(["%d", "%d", "%d", "%d.0", "%d/1", "%de0", "2*%d/2", "%d.", "%d+0"]) % i
    n, d = float(x).as_integer_ratio()
    return rng.choice([repr(float(x)), repr(float(x)), "%d/%d" % (n, d), "%r+0" % float(x)])


def near_bound_atom(rng, d):
    """a number at or next to a declared bound: the bound, its floor / ceiling / truncation / nearest integer, the
    integers and half-steps on either side — the places where < versus <=, min versus max and any rounding of the bound
    itself show"""
    b = rng.choice([x for x in (d["value_min"], d["value_max"]) if x is not None])
    x = rng.choice([b, math.floor(b), math.ceil(b), int(b), round(b), math.floor(b) - 1, math.ceil(b) + 1,
                    b - 0.5, b + 0.5, b - 1, b + 1, b - 0.125, b + 0.125])
    return _spell(rng, x)


def value_text(rng, d=None):
    n = rng.choice([1, 1, 1, 2, 2, 3, 4])
    near = d is not None and (d.get("value_min") is not None or d.get("value_max") is not None) and rng.random() < 0.5

    def atom():
        if near and rng.random() < 0.7:
            return near_bound_atom(rng, d)
        return rng.choice(ATOMS)
    t = atom()
    for _ in range(n - 1):
        t += rng.choice(SEPS) + atom()
    k = rng.random()
    if k < 0.1:
        t = "[" + t + "]"
    elif k < 0.2:
        t = "(" + t + ")"
    elif k < 0.25:
        t = "([ " + t + " ])"
    return t


def in_domain(t, v):
    """the domain predicate of the statement for the type expression t, evaluated against the DECLARED arguments;
    None or a description"""
    pt, d = declared(t)
    isauto = isinstance(v, AutoT)
    if pt in ("int", "float"):
        if v is None:
            return None if d["allow_none"] else "None although allow_none=False"
        if isauto:
            return None
        if pt == "int":
            if not isinstance(v, int):
                return "int type yielded %r" % (v,)
        else:
            if not isinstance(v, float):
                return "float type yielded %r" % (v,)
        return bounds(d, v)
    if pt == "bool":
        return None if (v is None or isauto or isinstance(v, bool)) else "bool type yielded %r" % (v,)
    if pt in ("ints", "floats"):
        if v is None or isauto:
            return None
        if not isinstance(v, list):
            return "list type yielded %r" % (v,)
        if d["size_min"] is not None and len(v) < d["size_min"]:
            return "%d elements, size_min=%d" % (len(v), d["size_min"])
        if d["size_max"] is not None and len(v) > d["size_max"]:
            return "%d elements, size_max=%d" % (len(v), d["size_max"])
        for x in v:
            if x is None:
                if not d["allow_none_elements"]:
                    return "None element although not enabled"
            elif isinstance(x, AutoT):
                if not d["allow_auto_elements"]:
                    return "Auto element although not enabled"
            else:
                if pt == "ints" and not isinstance(x, int):
                    return "ints element %r" % (x,)
                if pt == "floats" and not isinstance(x, float):
                    return "floats element %r" % (x,)
                b = bounds(d, x)
                if b:
                    return b
        return None
    return None


def bounds(d, x):
    lo, hi = d["value_min"], d["value_max"]
    if isinstance(x, float) and math.isnan(x) and (lo is not None or hi is not None):
        return "nan accepted although bounds are declared"
    if lo is not None and not (x >= lo):
        return "%r below the declared value_min=%r" % (x, lo)
    if hi is not None and not (x <= hi):
        return "%r above the declared value_max=%r" % (x, hi)
    return None


_defs = {}
ROUTES = ["parse", "parse", "deepcopy", "pickle", "pickle0", "fetch"]


def master_def(t, route="parse"):
    """the typed definition, as a user's program can come to hold it: freshly parsed, or a copy of the master made by
    copy.deepcopy / pickle (interface.index.copy, multiprocessing), or the result of master.fetch()"""
    if (t, route) not in _defs:
        m = freephil.parse(input_string="v = 1\n  .type = %s\n" % t)
        if route == "deepcopy":
            m = copy.deepcopy(m)
        elif route == "pickle":
            m = pickle.loads(pickle.dumps(m))
        elif route == "pickle0":
            m = pickle.loads(pickle.dumps(m, 0))
        elif route == "fetch":
            m = m.fetch()
        _defs[(t, route)] = m.objects[0]
    return _defs[(t, route)]


# ---- the process around the parameter ----------------------------------------------------------------------------------
# The statement is about "every typed parameter": a parameter declared with a built-in type in a master that is parsed with
# the default converter registry.  Nothing in it restricts what ELSE the process has done: programs built on freephil have
# components with registries of their own (freephil.extended_converter_registry) which add type names and may re-register a
# built-in name for a site-specific converter.  The declared domain of the parameter is the built-in one whatever was parsed
# before, with whatever registry, and whether or not those results are still referenced.
BUILTIN_NAMES = ["int", "float", "bool", "ints", "floats"]


class _site_text_converters:
    """a site-specific converter: accepts any constructor arguments and keeps the text of the value (serial numbers such
    as 0x1F, version strings) — every value it yields is outside every built-in numeric / bool / list domain"""
    phil_type = None

    def __init__(self, **kw):
        self.kw = kw

    def __str__(self):
        return self.phil_type + ("(" + ", ".join("%s=%r" % a for a in sorted(self.kw.items())) + ")" if self.kw else "")

    def from_words(self, words, master):
        return " ".join(w.value for w in words)

    def as_words(self, python_object, master):
        return [tokenizer.word(value=str(python_object), quote_token='"')]


def _site(name):
    cls = "_site_%s_converters" % name
    if cls not in globals():        # module-level classes: masters of site components can be copied and pickled like others
        globals()[cls] = type(cls, (_site_text_converters,), {"phil_type": name, "__module__": __name__})
    return globals()[cls]


SITE_REGISTRIES = {"site_" + n: freephil.extended_converter_registry(additional_converters=[_site(n)]) for n in BUILTIN_NAMES}
SITE_REGISTRIES["site_all"] = freephil.extended_converter_registry(additional_converters=[_site(n) for n in BUILTIN_NAMES])
SITE_REGISTRIES["site_adds_only"] = freephil.extended_converter_registry(additional_converters=[_site("serial")])
KEEP_ALIVE = []         # results of earlier parses stay referenced: nothing here may depend on when the collector runs


def respell(rng, t):
    """the type expression as another component may write it: the same text, other blanks, another order of arguments"""
    k = rng.random()
    if k < 0.6 or "(" not in t:
        return t
    if k < 0.8:
        return t.replace("(", "( ").replace("=", " = ").replace(")", " )")
    name, rest = t.split("(", 1)
    args = rest[:-1].split(", ")
    rng.shuffle(args)
    return name + "(" + ", ".join(args) + ")"


def gen_history(rng, t):
    """a sequence of parses in one process: 1-3 by site components (registry, type expression, result kept / dropped) and
    1-2 ordinary ones with the default registry; the LAST ordinary parse yields the parameter that is judged"""
    pt = declared(t)[0]
    ev = []
    for _ in range(rng.choice([1, 1, 2, 3])):
        ev.append([rng.choice(["site_" + pt, "site_" + pt, "site_all", "site_adds_only"]), respell(rng, t),
                   rng.choice(["kept", "kept", "dropped"])])
    ev.insert(rng.randrange(len(ev) + 1), ["default", t, "kept"])
    if rng.random() < 0.3:
        ev.insert(rng.randrange(len(ev) + 1), ["default", t, rng.choice(["kept", "dropped"])])
    return ev


def run_history(history):
    """executes the parses; the definition of the last default-registry parse, or None where a constructor refuses the
    combination of arguments (no typed parameter then)"""
    judged = None
    for reg, expr, life in history:
        try:
            if reg == "default":
                m = judged = freephil.parse(input_string="v = 1\n  .type = %s\n" % expr)
            else:
                m = freephil.parse(input_string="w = 0x1F\n  .type = %s\n" % expr, converter_registry=SITE_REGISTRIES[reg])
        except RuntimeError:
            if reg == "default":
                judged = None
            continue
        if life == "kept":
            KEEP_ALIVE.append(m)
            if len(KEEP_ALIVE) > 3000:
                del KEEP_ALIVE[:1500]
    return None if judged is None else judged.objects[0]


def run(ctx):
    rng = ctx.rng
    n = ctx.scale(12000, 200000, 40000)
    cases, reqs, impls = [], [], []

    def flush(force=False):
        if reqs and (force or len(reqs) >= 5000):
            if ctx.mode != "impl-only":
                ctx.corr("from_words", list(cases), list(reqs), list(impls))
            del cases[:], reqs[:], impls[:]

    def evaluate(t, text, route, base, generated, extra=None, sample=False):
        """one (typed parameter, value text): outcome on the implementation, oracle, and the request for the model"""
        pt, decl = declared(t)
        try:
            words = freephil.tokenize_value_literal(input_string=text, source_info=None)
        except BaseException:
            ctx.count("unparseable_value")
            return
        if not words:
            return
        d = base.customized_copy(words=words)
        case = dict({"type": t, "text": text, "route": route}, **(extra or {}))
        ctx.case((t, text), nontrivial=any(c.isalnum() for c in text))
        ctx.count(pt)
        ctx.count("route_" + route)
        ctx.count("types_generated" if generated else "types_fixed_list")
        for lit in decl.get("bound_lits", ()):
            cls = "integral" if _INT_LIT.match(lit) else ("fractional" if float(lit) != int(float(lit)) else "integral_float")
            ctx.count("bound_%s_on_%s" % (cls, "int_type" if pt in ("int", "ints") else "float_type"))
        if route != "history" and str(d.type) != str(master_def(t).type):
            ctx.fail({"type": t, "route": route}, "the %s copy of the master declares %s, the master %s"
                     % (route, d.type, master_def(t).type))
        ia = call_j(lambda: d.extract(), pval_j)
        ctx.count("outcome_" + (ia[0] if ia[0] == "ok" else ia[1] + ":" + str(ia[2])))
        # oracle: error naming the parameter, or a value in the DECLARED domain
        if ia[0] == "ok":
            v = d.extract()
            f = in_domain(t, v)
            if f:
                nan = "nan" in f
                ctx.fail(case, f, finding="D22" if nan else None, model_violates=None)
        elif ia[1] == "runtime":
            try:
                d.extract()
            except RuntimeError as e:
                if "v" not in str(e):
                    ctx.fail(case, "error does not name the parameter: %s" % e)
        else:
            ctx.fail(case, "extraction raised %s" % (ia[1:],))
        if sample:
            ctx.sample({"type": t, "text": text, "outcome": ia})
        if not model_covers(t):
            # type expression outside the model's grammar: oracle only
            ctx.count("impl_only_type_outside_model")
            return
        cases.append(case)
        reqs.append(["from_words", enc(t), None, [word_j(w) for w in words], eval_table(words)])
        impls.append(ia)
        flush()

    def history_case(t, generated, k=1):
        """the parameter comes out of a process history (see gen_history); k value texts on the judged definition"""
        history = gen_history(rng, t)
        base = run_history(history)
        regs = [e[0] for e in history]
        ctx.count("history_site_parse_before_the_judged_one" if regs.index("default") > 0 else "history_default_parse_first")
        if base is None:
            ctx.count("history_type_refused")
            return
        for e in history:
            if e[0] != "default":
                ctx.count("history_%s_%s_%s" % ("adds_a_name" if e[0] == "site_adds_only" else "redefines_builtin_name",
                                                "same_text" if e[1] == t else "respelt", e[2]))
        decl = declared(t)[1]
        for _ in range(k):
            evaluate(t, value_text(rng, decl if (generated or rng.random() < 0.3) else None), "history", base, generated,
                     extra={"history": history})

    # process start: the other components of the program may have been initialised before the first ordinary master is
    # parsed — every type of the fixed list (and thereby of MUST_ACCEPT) enters the process through a history
    for t in rng.sample(TYPES, len(TYPES)):
        history_case(t, False, k=4)
    # spellings that must be accepted
    for t, text, want in MUST_ACCEPT:
        d = master_def(t)
        ctx.case((t, text))
        try:
            got = d.validate(input_string=text)
            if got.error_message is not None:
                raise RuntimeError(got.error_message)
            got = got.extracted
            ok = got == want and type(got) == type(want)
        except BaseException as e:
            ok, got = False, "%s: %s" % (type(e).__name__, e)
        if not ok:
            ctx.fail({"type": t, "text": text}, "accepted spelling %r for %s gave %r, expected %r" % (text, t, got, want))
    # the generated pool of constructor-argument combinations (drawn per run from the seed)
    pool = []
    for _ in range(ctx.scale(400, 6000, 2000)):
        t = gen_type(rng)
        try:
            master_def(t)
        except RuntimeError as e:       # a combination the constructor refuses is no typed parameter
            ctx.count("generated_type_refused")
            _defs.pop((t, "parse"), None)
            continue
        pool.append(t)
    for i in range(n):
        if ctx.time_left() < 25:
            ctx.notes.append("stopped early on time budget")
            break
        generated = bool(pool) and i % 2 == 1
        t = rng.choice(pool) if generated else rng.choice(TYPES)
        pt, decl = declared(t)
        text = value_text(rng, decl if (generated or rng.random() < 0.3) else None)
        route = rng.choice(ROUTES)
        evaluate(t, text, route, master_def(t, route), generated, sample=(i % 1500 == 0))
        if i % 4 == 3:
            # one more case whose parameter comes out of a process history; mostly a type expression the process has
            # not met yet, else one it already holds ordinary masters of
            k = rng.random()
            if k < 0.7:
                history_case(gen_type(rng), True)
            elif k < 0.85 and pool:
                history_case(rng.choice(pool), True)
            else:
                history_case(rng.choice(TYPES), False)
    flush(force=True)


def finding_still_fails(f):
    w = f["witness"]
    d = master_def(w["type"])
    words = freephil.tokenize_value_literal(input_string=w["text"], source_info=None)
    try:
        v = d.customized_copy(words=words).extract()
    except RuntimeError:
        return False
    return in_domain(w["type"], v) is not None


def replay(payload):
    c = payload["failure"]["case"]
    if c.get("route") == "history":     # a fresh process: the recorded parses are run again, in order
        d = run_history(c["history"])
        if d is None:
            print(c, "-> the constructor refuses the type")
            return True
    else:
        d = master_def(c["type"], c.get("route", "parse"))
    words = freephil.tokenize_value_literal(input_string=c["text"], source_info=None)
    r = call_j(lambda: d.customized_copy(words=words).extract(), pval_j)
    print(c, "->", r)
    if r[0] == "ok":
        return in_domain(c["type"], d.customized_copy(words=words).extract()) is None
    return r[1] == "runtime"
