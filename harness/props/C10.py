"""C10 — extraction never yields a value outside the parameter's declared type."""
import copy
import math
import pickle

from common import freephil, enc, call_j, attr_j, word_j, AutoT
from values import pval_j, eval_table

LEVEL = "proof"
MODULE = "Phil.Props.C10"
LEVEL_TEXT = ("Lean theorems about the converter model, for all word lists, all constructor-argument combinations and all "
              "answers of the eval oracle: fromWords ok v -> InDomain type v (int never non-integral/non-finite, bounds, sizes, "
              "None/Auto gates), the bool spelling table is exactly the accepted set, integral floats are accepted for int. "
              "The model is tied to /repo by a correspondence run of from_words over a constraint x value-text grid (CPython's "
              "int()/eval answers travel with the request); the oracle re-checks the domain predicate on the implementation's "
              "results and a fixed table of spellings that must be accepted.")
LEVEL_NOTE = ("eval() and float parsing are CPython's (parameter of the model). ints beyond 2^53 given to float types are outside "
              "the modelled domain. Finding D22: float/floats with value_min/value_max accept nan (nan compares false).")
TECHNIQUE = "Lean 4 theorem fromWords_in_domain over all inputs/constraints + differential correspondence with eval answers as parameters"
RULE = ("built-in numeric/bool/list types with constructor-argument combinations x value texts from a grammar of numbers, "
        "expressions, separators, brackets, None/Auto/True/False in any case, inf/nan, wrong counts, joined in pairs; "
        "non-trivial = value text has a digit or a letter; distinct = (type, optional, text)")
ASSUMPTIONS = ["type expressions are the built-in ones with literal arguments"]

TYPES = ["int", "float", "ints", "floats", "bool", "int(value_min=0, value_max=10)", "int(value_min=-3)", "int(value_max=7)",
         "int(allow_none=False)", "float(value_min=0)", "float(value_max=1.5, allow_none=False)", "float(value_min=-1, value_max=1)",
         "ints(size=2)", "ints(size_min=2)", "ints(size_max=3)", "ints(size_min=1, size_max=2)", "ints(value_min=0, value_max=9)",
         "ints(allow_none_elements=True)", "ints(allow_auto_elements=True)",
         "ints(size=3, value_min=1, allow_none_elements=True, allow_auto_elements=True)",
         "floats(size=1)", "floats(value_min=0.5)", "floats(value_min=-1, value_max=1)", "floats(size_min=1, size_max=2)",
         "floats(allow_none_elements=True, allow_auto_elements=True)", "floats(size_max=2, value_max=2.5)"]
ATOMS = ["1", "-1", "0", "2", "3", "7", "8", "10", "11", "1.5", "-0.5", "0.5", "2.5", "1e3", "4/2", "3/2", "2**3", "1e-3", "10/4",
         "inf", "-inf", "nan", "1e999", "-1e999", "10**400", "1/0", "2**0.5", "1j", "None", "none", "NONE", "Auto", "auto", "True",
         "true", "TRUE", "False", "false", "yes", "Yes", "no", "on", "off", "ON", "oFF", "x", "'1'", '"2"', "pi", "sqrt(4)",
         "sqrt(-1)", "0x10", "1_0", "007", "+5", "--1", "1.", ".5", "1e", "()", "[]", "(", ")", "+", "maybe", "2", "y", "'yes'",
         '"None"', "'none'", '" None "', '"Auto"', "' auto'", '"true"', "'False'", '""', '" "', "'3'", '"1 2"', "'1,2'"]
SEPS = [" ", ",", ";", ", ", " ; ", "  "]
MUST_ACCEPT = [
    ("int", "4/2", 2), ("int", "1e3", 1000), ("int", "2**3", 8), ("int", "-3.0", -3),
    ("ints", "1,2;3", [1, 2, 3]), ("ints", "[1, 2]", [1, 2]), ("ints", "(1 2)", [1, 2]), ("ints", "([1;2])", [1, 2]),
    ("floats", "1,2.5", [1.0, 2.5]), ("float", "3/2", 1.5),
    ("bool", "true", True), ("bool", "Yes", True), ("bool", "ON", True), ("bool", "1", True),
    ("bool", "false", False), ("bool", "No", False), ("bool", "oFF", False), ("bool", "0", False),
]


def value_text(rng):
    n = rng.choice([1, 1, 1, 2, 2, 3, 4])
    t = rng.choice(ATOMS)
    for _ in range(n - 1):
        t += rng.choice(SEPS) + rng.choice(ATOMS)
    k = rng.random()
    if k < 0.1:
        t = "[" + t + "]"
    elif k < 0.2:
        t = "(" + t + ")"
    elif k < 0.25:
        t = "([ " + t + " ])"
    return t


def in_domain(conv, v):
    """the domain predicate of the statement; None or a description"""
    pt = conv.phil_type
    isauto = isinstance(v, AutoT)
    if pt in ("int", "float"):
        if v is None:
            return None if conv.allow_none else "None although allow_none=False"
        if isauto:
            return None
        if pt == "int":
            if not isinstance(v, int):
                return "int type yielded %r" % (v,)
        else:
            if not isinstance(v, float):
                return "float type yielded %r" % (v,)
        return bounds(conv, v)
    if pt == "bool":
        return None if (v is None or isauto or isinstance(v, bool)) else "bool type yielded %r" % (v,)
    if pt in ("ints", "floats"):
        if v is None or isauto:
            return None
        if not isinstance(v, list):
            return "list type yielded %r" % (v,)
        if conv.size_min is not None and len(v) < conv.size_min:
            return "%d elements, size_min=%d" % (len(v), conv.size_min)
        if conv.size_max is not None and len(v) > conv.size_max:
            return "%d elements, size_max=%d" % (len(v), conv.size_max)
        for x in v:
            if x is None:
                if not conv.allow_none_elements:
                    return "None element although not enabled"
            elif isinstance(x, AutoT):
                if not conv.allow_auto_elements:
                    return "Auto element although not enabled"
            else:
                if pt == "ints" and not isinstance(x, int):
                    return "ints element %r" % (x,)
                if pt == "floats" and not isinstance(x, float):
                    return "floats element %r" % (x,)
                b = bounds(conv, x)
                if b:
                    return b
        return None
    return None


def bounds(conv, x):
    if isinstance(x, float) and math.isnan(x) and (conv.value_min is not None or conv.value_max is not None):
        return "nan accepted although bounds are declared"
    if conv.value_min is not None and not (x >= conv.value_min):
        return "%r below value_min=%r" % (x, conv.value_min)
    if conv.value_max is not None and not (x <= conv.value_max):
        return "%r above value_max=%r" % (x, conv.value_max)
    return None


_defs = {}
ROUTES = ["parse", "parse", "deepcopy", "pickle", "pickle0", "fetch"]


def master_def(t, route="parse"):
    """the typed definition, as a user's program can come to hold it: freshly parsed, or a copy of the master made by
    copy.deepcopy / pickle (interface.index.copy, multiprocessing), or the result of master.fetch()"""
    if (t, route) not in _defs:
        m = freephil.parse(input_string="v = 1\n  .type = %s\n" % t)
        if route == "deepcopy":
            m = copy.deepcopy(m)
        elif route == "pickle":
            m = pickle.loads(pickle.dumps(m))
        elif route == "pickle0":
            m = pickle.loads(pickle.dumps(m, 0))
        elif route == "fetch":
            m = m.fetch()
        _defs[(t, route)] = m.objects[0]
    return _defs[(t, route)]


def run(ctx):
    rng = ctx.rng
    n = ctx.scale(6000, 150000, 30000)
    cases, reqs, impls = [], [], []
    # spellings that must be accepted
    for t, text, want in MUST_ACCEPT:
        d = master_def(t)
        ctx.case((t, text))
        try:
            got = d.validate(input_string=text)
            if got.error_message is not None:
                raise RuntimeError(got.error_message)
            got = got.extracted
            ok = got == want and type(got) == type(want)
        except BaseException as e:
            ok, got = False, "%s: %s" % (type(e).__name__, e)
        if not ok:
            ctx.fail({"type": t, "text": text}, "accepted spelling %r for %s gave %r, expected %r" % (text, t, got, want))
    for i in range(n):
        if ctx.time_left() < 25:
            ctx.notes.append("stopped early on time budget")
            break
        t = rng.choice(TYPES)
        text = value_text(rng)
        try:
            words = freephil.tokenize_value_literal(input_string=text, source_info=None)
        except BaseException:
            ctx.count("unparseable_value")
            continue
        if not words:
            continue
        route = rng.choice(ROUTES)
        d = master_def(t, route).customized_copy(words=words)
        ctx.case((t, text), nontrivial=any(c.isalnum() for c in text))
        ctx.count(t.split("(")[0])
        ctx.count("route_" + route)
        if str(d.type) != str(master_def(t).type):
            ctx.fail({"type": t, "route": route}, "the %s copy of the master declares %s, the master %s"
                     % (route, d.type, master_def(t).type))
        ia = call_j(lambda: d.extract(), pval_j)
        ctx.count("outcome_" + (ia[0] if ia[0] == "ok" else ia[1] + ":" + str(ia[2])))
        # oracle: error naming the parameter, or a value in the domain
        if ia[0] == "ok":
            v = d.extract()
            f = in_domain(d.type, v)
            if f:
                nan = "nan" in f
                ctx.fail({"type": t, "text": text, "route": route}, f, finding="D22" if nan else None, model_violates=None)
        elif ia[1] == "runtime":
            try:
                d.extract()
            except RuntimeError as e:
                if "v" not in str(e):
                    ctx.fail({"type": t, "text": text}, "error does not name the parameter: %s" % e)
        else:
            ctx.fail({"type": t, "text": text}, "extraction raised %s" % (ia[1:],))
        # validate() reports the same thing as extraction
        cases.append({"type": t, "text": text, "route": route})
        reqs.append(["from_words", enc(t), None, [word_j(w) for w in words], eval_table(words)])
        impls.append(ia)
        if i % 1500 == 0:
            ctx.sample({"type": t, "text": text, "outcome": ia})
        if len(reqs) >= 5000:
            if ctx.mode != "impl-only":
                ctx.corr("from_words", cases, reqs, impls)
            cases, reqs, impls = [], [], []
    if reqs and ctx.mode != "impl-only":
        ctx.corr("from_words", cases, reqs, impls)


def finding_still_fails(f):
    w = f["witness"]
    d = master_def(w["type"])
    words = freephil.tokenize_value_literal(input_string=w["text"], source_info=None)
    try:
        v = d.customized_copy(words=words).extract()
    except RuntimeError:
        return False
    return in_domain(d.type, v) is not None


def replay(payload):
    c = payload["failure"]["case"]
    d = master_def(c["type"])
    words = freephil.tokenize_value_literal(input_string=c["text"], source_info=None)
    r = call_j(lambda: d.customized_copy(words=words).extract(), pval_j)
    print(c, "->", r)
    if r[0] == "ok":
        return in_domain(d.type, d.customized_copy(words=words).extract()) is None
    return r[1] == "runtime"
