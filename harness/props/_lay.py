"""helpers shared by the layout-based properties (C01, C02, C15, C19)"""
import re

import layout
from common import freephil, enc, obj_j, call_j, attr_j, line_of


def gen_case(rng, **kw):
    """(tree, text, features) for a random abstract tree under a random layout"""
    tg = layout.TreeGen(rng, depth=rng.choice([0, 1, 2, 3]), attrs=kw.get("attrs", True),
                        multiline=kw.get("multiline", True), experts=kw.get("experts", False),
                        exotic=kw.get("exotic", 0.0))
    tree = tg.tree()
    r = layout.Renderer(rng, layout=kw.get("layout", rng.choice([0.0, 0.5, 1.0, 1.0])),
                        comment_quotes=kw.get("comment_quotes", False), off_regions=kw.get("off_regions", True), exotic=kw.get("exotic", 0.0),
                        spread=kw.get("spread", 0.0))
    text = r.render(tree)
    return tree, text, sorted(r.features)


FREE_TEXT = {"help", "caption", "short_caption", "style", "alias", "deprecated", "sequential_format"}


def norm_ws(s):
    return re.sub(r"\s+", " ", s).strip()


def sig(o, level=3, ignore_attrs=False):
    """structural signature of a real tree used by print/parse round-trip comparisons"""
    if o.is_definition and level < 3 and o.deprecated:
        return None
    attrs = None
    if not ignore_attrs and level > 0:
        attrs = []
        for n in o.attribute_names:
            v = getattr(o, n)
            if isinstance(v, str) and n in FREE_TEXT:
                attrs.append(["s~", norm_ws(v)])
            else:
                attrs.append(attr_j(v))
    if o.is_definition:
        return ["d", o.name, bool(o.is_disabled), attrs, [(w.value, w.quote_token) for w in o.words]]
    kids = [sig(c, level, ignore_attrs) for c in o.objects]
    if o.objects and o.objects[0].merge_names and all(k is None for k in kids):
        return None  # a scope that exists only as the dotted prefix of hidden objects is hidden with them
    return ["s", o.name, bool(o.is_disabled), attrs, [k for k in kids if k is not None]]


def first_diff(a, b, path=""):
    if type(a) != type(b):
        return "%s: %r vs %r" % (path, a, b)
    if isinstance(a, (list, tuple)):
        if len(a) != len(b):
            return "%s: length %d vs %d (%r vs %r)" % (path, len(a), len(b), str(a)[:120], str(b)[:120])
        for i, (x, y) in enumerate(zip(a, b)):
            d = first_diff(x, y, path + "/%d" % i)
            if d:
                return d
        return None
    return None if a == b else "%s: %r vs %r" % (path, a, b)


def depth_of(o):
    if o.is_definition:
        return 0
    return 1 + max([depth_of(c) for c in o.objects] or [0])


def min_width(root, prefix=""):
    """a print width that leaves room beyond the deepest attribute indentation"""
    return len(prefix) + 2 * depth_of(root) + 3 + 17 + 3 + 4
