"""C13 — includes behave as textual inlining; every include cycle is detected."""
import itertools
import os
import shutil

from common import freephil, enc, obj_j, call_j
from props import _lay

LEVEL = "proof"
MODULE = "Phil.Props.C13"
LEVEL_TEXT = "Lean theorems about the include model over an abstract file system and import table: a file already on the include stack is refused with the cycle error naming the chain (cycle_refused, cycle_detected, also through imported scopes), expansion is total / never out of fuel under ranked imports (expand_total, expand_never_out_of_fuel; necessity witness), 'include file' splices the expansion of the named file resolved against the includer's directory (include_inlines), 'include scope' splices the imported scope after its own includes (include_scope_inlines, _subpath, _expands_first, _refdir). Tied to /repo by a correspondence run on a real scratch directory tree (current directory elsewhere; absent targets; look-alike files under the current directory, the root's and the includer's includer's directory) and a synthetic importable module; the oracle compares parse(file, process_includes) with the parse of the textually inlined document over an explicit file table."
LEVEL_NOTE = "os.path and open() are CPython/OS (no symlinks); the Python import is a parameter. Finding D71: objects spliced by 'include file' keep the parents and ids of the separately parsed file (full_path inside a scope, variables across the boundary); the oracle's full_path clause is tagged with it. D72 (include scope sub-path went through get()) fixed in /repo."
TECHNIQUE = 'Lean 4 theorems on the include-stack model + differential correspondence on real files + textual-inlining oracle'
RULE = ("all directed include graphs over 3 files with <= 2 includes each (chains, diamonds, self-loops, longer cycles, cycles not "
        "through the root) and random graphs over 4 files, includes at top level or inside scopes, files in different "
        "directories, relative names with '..', current directory different from every file's directory; directory "
        "arrangements over 2-4 files in which named files are absent next to their includer and the name as written exists "
        "with other content under the current directory / the root file's directory / the includer's includer's directory "
        "(expected: inlined parse - same structure AND, in the graph stream, the same full_path() for every node, finding D71 -, cycle chain, or failure to open); histories of 3-5 files through 3-6 parses in one process, "
        "each step editing one or two files (values, include targets, removal, creation) and leaving the others untouched on "
        "disk, every parse judged against the files as they are then; non-trivial = at least one include; distinct = distinct "
        "graph+placement / distinct file table / distinct history prefix")
ASSUMPTIONS = ["no symbolic links in the scratch tree"]
DIRS = ["", "sub", "sub/deep", "other"]


class Cycle(Exception):
    def __init__(self, chain):
        self.chain = chain


class Missing(Exception):
    """the named file does not exist at the place textual inlining looks for it (next to the including file)"""
    def __init__(self, path, by):
        self.path, self.by = path, by


# --- parents and ids after include processing (finding D71 inside the model: Phil.IncludeParents) -----------------
P_CASES, P_REQS, P_IMPLS = [], [], []


def parents_j(r):
    """for every object of the expanded tree, document order: full_path(), primary_id, the number of scopes reached by
    climbing primary_parent_scope, and what parent.lexical_get(name, stop_id=primary_id) finds for every name of the tree"""
    nodes = []

    def walk(sc):
        for o in sc.objects:
            nodes.append(o)
            if o.is_scope:
                walk(o)
    walk(r)
    names = []
    for o in nodes:
        if o.name not in names:
            names.append(o.name)
    out = []
    for o in nodes:
        depth, p = 0, o.primary_parent_scope
        while p is not None:
            depth, p = depth + 1, p.primary_parent_scope
        found = []
        for n in names:
            f = None
            if o.primary_parent_scope is not None and o.primary_id is not None:
                f = o.primary_parent_scope.lexical_get(path=n, stop_id=o.primary_id)
            found.append(None if f is None else [enc(f.name), f.primary_id, bool(f.is_definition)])
        out.append([enc(o.full_path()), o.primary_id, depth, found])
    return out


def parents_stream(case, req, root):
    """second correspondence stream on the same input: op `expandp`"""
    P_CASES.append(case)
    P_REQS.append(["expandp"] + list(req[1:]))
    P_IMPLS.append(call_j(lambda: freephil.parse(file_name=root, process_includes=True), parents_j))


def full_paths(sc, out=None):
    """full_path() of every object of a parsed tree, document order"""
    out = [] if out is None else out
    for o in sc.objects:
        out.append(o.full_path())
        if o.is_scope:
            full_paths(o, out)
    return out


def scoped_include_reached(base, graph, placement, root=0):
    """finding class D71, a predicate on the INPUT: some file reachable from the root has an include statement placed
    inside a scope"""
    seen, todo = set(), [root]
    while todo:
        i = todo.pop()
        if i in seen or i >= len(graph):
            continue
        seen.add(i)
        if any(placement[i]):
            return True
        todo.extend(graph[i])
    return False


def full_path_clause(want, got):
    """every node of the tree reports the path it has in the parse of the inlined text"""
    a, b = full_paths(want), full_paths(got)
    if a != b:
        k = [i for i, (x, y) in enumerate(zip(a, b)) if x != y][:1]
        return ("an included object reports full_path %r; in the parse of the inlined text it is %r"
                % (b[k[0]], a[k[0]]) if k else "full paths differ in number")
    return None


def file_path(base, i):
    return os.path.normpath(os.path.join(base, DIRS[i % len(DIRS)], "f%d.params" % i))


def rel(base, i, j, rng):
    """a name for file j as written inside file i"""
    a, b = file_path(base, i), file_path(base, j)
    r = os.path.relpath(b, os.path.dirname(a))
    k = rng.random()
    if k < 0.15:
        return b  # absolute
    if k < 0.3:
        return "./" + r
    return r


def contents(base, graph, placement, rng):
    """text of every file: definitions around include statements"""
    texts = []
    for i, targets in enumerate(graph):
        lines = ["a%d = %d" % (i, i)]
        for k, j in enumerate(targets):
            inc = "include file %s" % rel(base, i, j, rng)
            if placement[i][k]:
                lines.append("s%d_%d {" % (i, k))
                lines.append("  x = %d" % k)
                lines.append("  " + inc)
                lines.append("  y = %d" % k)
                lines.append("}")
            else:
                lines.append(inc)
            lines.append("b%d_%d = 'after %d'" % (i, k, k))
        texts.append("\n".join(lines) + "\n")
    return texts


def inline(base, texts, i, stack):
    """the text obtained by replacing every include line with the expanded content of the named file"""
    me = file_path(base, i)
    if me in stack:
        raise Cycle(stack + [me])
    stack = stack + [me]
    out = []
    for line in texts[i].split("\n"):
        s = line.strip()
        if s.startswith("include file "):
            name = s[len("include file "):]
            target = os.path.normpath(os.path.join(os.path.dirname(me), name))
            j = [k for k in range(len(texts)) if file_path(base, k) == target][0]
            out.append(inline(base, texts, j, stack))
        else:
            out.append(line + "\n")
    return "".join(out)


def graphs(ctx):
    opts3 = [()] + [(a,) for a in range(3)] + [(a, b) for a in range(3) for b in range(3)]
    n3 = ctx.scale(400, None, 1200)
    all3 = list(itertools.product(opts3, repeat=3))
    if n3 is None:
        ctx.exhaustive = True
        ctx.notes.append("exhaustive over all %d include graphs on 3 files with <= 2 includes each" % len(all3))
        for g in all3:
            yield list(g)
    else:
        for g in ctx.rng.sample(all3, n3):
            yield list(g)
    rng = ctx.rng
    for _ in range(ctx.scale(150, 4000, 600)):
        n = 4
        yield [tuple(rng.randrange(n) for _ in range(rng.choice([0, 1, 1, 2, 3]))) for _ in range(n)]


def run(ctx):
    del P_CASES[:], P_REQS[:], P_IMPLS[:]
    rng = ctx.rng
    base = "/var/tmp/verif-c13-%d" % os.getpid()
    cwd = os.getcwd()
    cases, reqs, impls = [], [], []
    try:
        os.makedirs(os.path.join(base, "cwd_elsewhere"), exist_ok=True)
        for d in DIRS:
            os.makedirs(os.path.join(base, d), exist_ok=True)
        os.chdir(os.path.join(base, "cwd_elsewhere"))
        for graph in graphs(ctx):
            if ctx.time_left() < 25:
                ctx.notes.append("stopped early on time budget")
                ctx.exhaustive = False
                break
            placement = [[rng.random() < 0.4 for _ in t] for t in graph]
            texts = contents(base, graph, placement, rng)
            for i, t in enumerate(texts):
                with open(file_path(base, i), "w") as f:
                    f.write(t)
            root = file_path(base, 0)
            ctx.case((tuple(graph), tuple(map(tuple, placement))), nontrivial=any(graph))
            try:
                want_text = inline(base, texts, 0, [])
                want_cycle = None
            except Cycle as c:
                want_text, want_cycle = None, c.chain
            ctx.count("cycle" if want_cycle else "acyclic")
            err = None
            got = None
            try:
                got = freephil.parse(file_name=root, process_includes=True)
            except BaseException as e:
                err = e
            f = fp = None
            if want_cycle:
                if err is None:
                    f = "include cycle %r not detected" % ([os.path.relpath(p, base) for p in want_cycle],)
                elif type(err) is not RuntimeError or not str(err).startswith("Include dependency cycle: "):
                    f = "cycle raised %s: %s" % (type(err).__name__, str(err)[:100])
                else:
                    chain = str(err)[len("Include dependency cycle: "):].split(", ")
                    if chain != want_cycle:
                        f = "reported chain %r, expected %r" % (chain, want_cycle)
            else:
                if err is not None:
                    f = "acyclic includes raised %s: %s" % (type(err).__name__, str(err)[:100])
                else:
                    want = freephil.parse(input_string=want_text)
                    d = _lay.first_diff(_lay.sig(want), _lay.sig(got))
                    if d:
                        f = "tree differs from the parse of the inlined text at %s" % d
                    else:
                        fp = full_path_clause(want, got)
            case = {"graph": [list(t) for t in graph], "placement": placement, "texts": texts}
            if f is None and fp:
                ctx.count("full_path_of_included_object_differs")
                ctx.fail(case, fp, finding=["D71"] if scoped_include_reached(base, graph, placement) else None)
            if f is None:
                # read_default(caller) = the parameter file next to the caller, with includes processed
                try:
                    rd = ("ok", freephil.read_default(caller_file_name=os.path.splitext(root)[0] + ".py").as_str(attributes_level=2))
                except RuntimeError as e:
                    rd = ("err", str(e))
                ref = ("ok", got.as_str(attributes_level=2)) if err is None else ("err", str(err))
                if rd != ref:
                    f = "read_default(caller next to the root file) gives %r, parse(file, includes) %r" % (rd[1][:80], ref[1][:80])
                ctx.count("read_default")
            if f:
                ctx.fail(case, f)
            ia = call_j(lambda: freephil.parse(file_name=root, process_includes=True),
                        lambda r: [obj_j(o, with_ids=True, with_lines=True) for o in r.objects])
            cases.append(case)
            reqs.append(["expand", [[enc(file_path(base, i)), enc(t)] for i, t in enumerate(texts)], enc(root)])
            impls.append(ia)
            parents_stream(case, reqs[-1], root)
            if len(ctx.samples) < 3 and any(graph):
                ctx.sample({"graph": case["graph"], "root_text": texts[0], "cycle": want_cycle is not None})
        # directory arrangements: absent targets, same relative name present under other anchor directories
        for _ in range(ctx.scale(500, 8000, 2000)):
            if ctx.time_left() < 22:
                break
            arrangement_round(rng, ctx, base, cases, reqs, impls)
        # include scope: the named Python-level scope (optionally one sub-path) is spliced the same way
        f = include_scope_oracle()
        ctx.case("include_scope")
        if f:
            ctx.fail({"include_scope": True}, f)
        include_scope_generated(rng, ctx, ctx.scale(150, 3000, 600))
        for _ in range(ctx.scale(400, 8000, 1500)):
            if ctx.time_left() < 20:
                break
            mixed_round(rng, ctx, base, cases, reqs, impls)
        # histories: several parses in this process over files of which only some are edited in between
        for _ in range(ctx.scale(350, 6000, 1500)):
            if ctx.time_left() < 18:
                break
            history_round(rng, ctx, base, cases, reqs, impls)
    finally:
        os.chdir(cwd)
        shutil.rmtree(base, ignore_errors=True)
    if reqs and ctx.mode != "impl-only":
        ctx.corr("expand", cases, reqs, impls)
        ctx.corr("expandp", P_CASES, P_REQS, P_IMPLS)
        ctx.count("expandp_traces", len(P_REQS))
        ctx.count("expandp_nodes", sum(len(i[1]) for i in P_IMPLS if i and i[0] == "ok"))


def inline_fs(fs, path, stack, by=None):
    """textual inlining over an explicit file table {absolute normalised path: text}: every `include file NAME` line
    is replaced by the expansion of join(directory of the including file, NAME); a name with no file THERE is Missing -
    whatever exists under that name relative to any other directory"""
    if path not in fs:
        raise Missing(path, by)
    if path in stack:
        raise Cycle(stack + [path])
    stack = stack + [path]
    out = []
    for line in fs[path].split("\n"):
        s = line.strip()
        if s.startswith("include file "):
            name = s[len("include file "):]
            out.append(inline_fs(fs, os.path.normpath(os.path.join(os.path.dirname(path), name)), stack, path))
        else:
            out.append(line + "\n")
    return "".join(out)


def expected_fs(fs, root):
    """what textual inlining over the file table gives: ("acyclic", text) | ("cycle", chain) | ("missing", Missing)"""
    try:
        return "acyclic", inline_fs(fs, root, [])
    except Cycle as c:
        return "cycle", c.chain
    except Missing as m:
        return "missing", m


def judge_fs(fs, root, base, cwdir, kind, want, note=""):
    """the property on the real library for one parse of `root` over the files AS THEY ARE NOW (`fs` is the table of
    what is on disk): the parse of the inlined text, the cycle error with the exact chain, or - when a name has no file
    next to its includer - failure to open it.  Returns the failure text or None."""
    err = got = None
    try:
        got = freephil.parse(file_name=root, process_includes=True)
    except BaseException as e:
        err = e
    if kind == "cycle":
        if err is None:
            return "include cycle %r not detected" % ([os.path.relpath(p, base) for p in want],)
        if type(err) is not RuntimeError or not str(err).startswith("Include dependency cycle: "):
            return "cycle raised %s: %s" % (type(err).__name__, str(err)[:100])
        chain = str(err)[len("Include dependency cycle: "):].split(", ")
        if chain != want:
            return "reported chain %r, expected %r" % (chain, want)
        return None
    if kind == "missing":
        where = "%s (named in %s)" % (os.path.relpath(want.path, base),
                                      os.path.relpath(want.by, base) if want.by else "the call")
        if err is None:
            return ("no file %s, so the include cannot be inlined, but the parse succeeded with %r (current directory %s)"
                    % (where, got.as_str()[:120], os.path.relpath(cwdir, base)))
        if not isinstance(err, OSError):
            return "no file %s: raised %s: %s instead of failing to open it" % (where, type(err).__name__, str(err)[:100])
        return None
    if err is not None:
        return "acyclic includes raised %s: %s" % (type(err).__name__, str(err)[:100])
    d = _lay.first_diff(_lay.sig(freephil.parse(input_string=want)), _lay.sig(got))
    if d:
        return "tree differs from the parse of the inlined text at %s%s" % (d, note)
    return None


def arrangement_round(rng, ctx, base, cases, reqs, impls):
    """'relative names are resolved against the directory of the including file - not the current directory', over
    directory ARRANGEMENTS rather than graphs: some of the named files do not exist where inlining looks for them, and
    the relative name as written may exist (with other content) under the other directories a resolver could wrongly
    anchor it at - the current directory, the directory of the root file, the directory of the file that included the
    includer.  The library must give the parse of the inlined text, the cycle error, or - when inlining is impossible
    because a name has no file next to its includer - fail to open that file; it must never pick up a look-alike."""
    n = rng.choice([2, 3, 3, 4])
    cwdir = os.getcwd()
    paths = [file_path(base, i) for i in range(n)]
    graph = []
    for i in range(n):
        k = rng.choice([1, 1, 2]) if i == 0 else rng.choice([0, 1, 1, 2]) if i + 1 < n else rng.choice([0, 0, 0, 1])
        # mostly forward edges: most arrangements are acyclic, so that absent files and look-alikes are reached
        graph.append(tuple(rng.randrange(i + 1, n) if i + 1 < n and rng.random() < 0.8 else rng.randrange(n)
                           for _ in range(k)))
    p_absent = rng.choice([0.0, 0.2, 0.4])
    absent = [i > 0 and rng.random() < p_absent for i in range(n)]
    if rng.random() < 0.02:
        absent[0] = True
    placement = [[rng.random() < 0.4 for _ in t] for t in graph]
    texts = contents(base, graph, placement, rng)
    fs = {paths[i]: texts[i] for i in range(n) if not absent[i]}
    # look-alikes: NAME as written in file i, anchored at a directory other than dirname(file i)
    includers = {j: [i for i in range(n) if j in graph[i]] for j in range(n)}
    p_decoy = rng.choice([0.0, 0.5, 0.9])
    nd = 0
    alike = set()
    for i in range(n):
        for line in texts[i].split("\n"):
            s = line.strip()
            if not s.startswith("include file "):
                continue
            name = s[len("include file "):]
            if os.path.isabs(name):
                continue
            anchors = [("cwd", cwdir), ("rootdir", os.path.dirname(paths[0]))]
            anchors += [("grandparent", os.path.dirname(paths[h])) for h in includers[i]]
            for label, a in anchors:
                d = os.path.normpath(os.path.join(a, name))
                if a == os.path.dirname(paths[i]) or d in paths or d in fs or not d.startswith(base + os.sep):
                    continue
                if rng.random() < p_decoy:
                    nd += 1
                    fs[d] = "lookalike_%d = %d\n" % (nd, i)
                    alike.add((paths[i], os.path.normpath(os.path.join(os.path.dirname(paths[i]), name)), label))
    written = []
    try:
        for pth in [file_path(base, i) for i in range(8)]:
            if os.path.exists(pth):
                os.remove(pth)          # files of earlier rounds: an absent file must be absent
        for pth, t in fs.items():
            os.makedirs(os.path.dirname(pth), exist_ok=True)
            with open(pth, "w") as f:
                f.write(t)
            written.append(pth)
        root = paths[0]
        case = {"arrangement": True, "cwd": os.path.relpath(cwdir, base), "root": os.path.relpath(root, base),
                "files": {os.path.relpath(p, base): t for p, t in sorted(fs.items())},
                "absent": [os.path.relpath(paths[i], base) for i in range(n) if absent[i]]}
        ctx.case(("arrangement", tuple(sorted(fs.items()))))
        kind, want = expected_fs(fs, root)
        ctx.count("arr_" + kind)
        ctx.count("arr_lookalikes", nd)
        if kind == "missing":
            for label in ("cwd", "rootdir", "grandparent"):
                if (want.by, want.path, label) in alike:
                    ctx.count("arr_missing_with_lookalike_in_" + label)
        f = judge_fs(fs, root, base, cwdir, kind, want, " (look-alike files under other directories)")
        if f:
            ctx.fail(case, f)
        ia = call_j(lambda: freephil.parse(file_name=root, process_includes=True),
                    lambda r: [obj_j(o, with_ids=True, with_lines=True) for o in r.objects])
        cases.append(case)
        reqs.append(["expand", [[enc(p), enc(t)] for p, t in sorted(fs.items())], enc(root)])
        impls.append(ia)
        parents_stream(case, reqs[-1], root)
    finally:
        for pth in written:
            try:
                os.remove(pth)
            except OSError:
                pass


def version_text(base, i, targets, placement, rng, ver):
    """text number `ver` of file i: the shape of contents(), with values (and sometimes the number of lines, an attribute,
    an extra definition) depending on the version - successive versions of a file differ, at equal or different size"""
    lines = ["a%d = %d" % (i, ver % 10)]
    if ver % 3 == 2:
        lines.append("  .help = version %d" % ver)
    for k, j in enumerate(targets):
        inc = "include file %s" % rel(base, i, j, rng)
        if placement[k]:
            lines += ["s%d_%d {" % (i, k), "  x = %d" % ((k + ver) % 10), "  " + inc, "  y = %d" % k, "}"]
        else:
            lines.append(inc)
        lines.append("b%d_%d = 'after %d v%d'" % (i, k, k, ver % 10))
    if ver and rng.random() < 0.3:
        lines.append("c%d = %d" % (i, ver))
    return "\n".join(lines) + "\n"


def apply_ops(base, ops, fs):
    """carry out one step of a history on the disk and in the table of what is on disk; files not named stay untouched"""
    for op in ops:
        pth = os.path.normpath(os.path.join(base, op[1]))
        if op[0] == "write":
            os.makedirs(os.path.dirname(pth), exist_ok=True)
            with open(pth, "w") as f:
                f.write(op[2])
            fs[pth] = op[2]
        else:
            os.remove(pth)
            del fs[pth]


def history_round(rng, ctx, base, cases, reqs, impls):
    """The property speaks of the content of the named files, i.e. of the files AS THEY ARE WHEN THE PARSE RUNS, and a
    process does not parse only once: a HISTORY is one set of files in several directories that lives through a sequence
    of steps inside this process - step 0 writes the files, every later step edits SOME of them (new values at equal or
    different size, other include targets - forward or back, so cycles come and go -, removal, creation of a file that
    was absent) and leaves the others untouched on disk (not rewritten: same inode, time stamps and size) - and after
    every step a file (mostly the same root, sometimes another member) is parsed with include processing.  Every parse is
    judged against textual inlining over the table of what is on disk then (inlined parse / cycle chain / failure to
    open), and goes to the model with that table: nothing of an earlier parse may show in a later one."""
    n = rng.choice([3, 3, 4, 4, 5])
    cwdir = os.getcwd()
    paths = [file_path(base, i) for i in range(n)]
    rels = [os.path.relpath(p, base) for p in paths]

    def draw(i, p_forward):
        k = rng.choice([1, 1, 2]) if i == 0 else rng.choice([0, 1, 1, 2]) if i + 1 < n else rng.choice([0, 0, 0, 1])
        return tuple(rng.randrange(i + 1, n) if i + 1 < n and rng.random() < p_forward else rng.randrange(n)
                     for _ in range(k))

    def depths(root_i):
        """include depth of every file reachable from the root over the files present"""
        d, todo = {root_i: 0}, [root_i]
        while todo:
            i = todo.pop(0)
            if paths[i] in fs:
                for j in graph[i]:
                    if j not in d:
                        d[j] = d[i] + 1
                        todo.append(j)
        return d

    graph = [draw(i, 0.85) for i in range(n)]
    placement = [[rng.random() < 0.4 for _ in t] for t in graph]
    ver = [0] * n
    fs = {}
    steps = []
    for pth in [file_path(base, i) for i in range(8)]:
        if os.path.exists(pth):
            os.remove(pth)              # files of earlier rounds
    try:
        root_i = 0
        for step in range(rng.randint(3, 6)):
            ops, kinds, before = [], [], depths(root_i)
            if step == 0:
                for i in range(n):
                    if i == 0 or rng.random() < 0.92:
                        ops.append(["write", rels[i], version_text(base, i, graph[i], placement[i], rng, 0)])
            else:
                m = rng.choice([1, 1, 1, 2])
                pool = list(range(1, n)) if rng.random() < 0.85 else list(range(n))
                for i in rng.sample(pool, min(m, len(pool))):
                    r = rng.random()
                    if paths[i] not in fs:
                        kinds.append("create")
                    elif r < 0.12 and i > 0:
                        kinds.append("remove")
                        ops.append(["remove", rels[i]])
                        continue
                    elif r < 0.5:
                        kinds.append("retarget")
                        graph[i] = draw(i, 0.5)
                        placement[i] = [rng.random() < 0.4 for _ in graph[i]]
                    else:
                        kinds.append("values")
                    ver[i] += 1
                    ops.append(["write", rels[i], version_text(base, i, graph[i], placement[i], rng, ver[i])])
            apply_ops(base, ops, fs)
            present = [i for i in range(n) if paths[i] in fs]
            root_i = 0 if 0 in present and rng.random() < 0.85 else rng.choice(present)
            steps.append({"ops": ops, "root": rels[root_i]})
            root = paths[root_i]
            case = {"history": True, "base": base, "cwd": os.path.relpath(cwdir, base), "steps": [dict(s) for s in steps]}
            ctx.case(("history", repr(steps)))
            kind, want = expected_fs(fs, root)
            ctx.count("hist_parses")
            ctx.count("hist_" + kind)
            for k in kinds:
                ctx.count("hist_edit_" + k)
            if step:
                after = depths(root_i)
                edited = [rels.index(op[1]) for op in ops]
                if any(min(before.get(i, 99), after.get(i, 99)) == 1 for i in edited):
                    ctx.count("hist_edit_included_by_root")
                if any(2 <= min(before.get(i, 99), after.get(i, 99)) < 99 for i in edited):
                    ctx.count("hist_edit_at_include_depth_ge2")
            f = judge_fs(fs, root, base, cwdir, kind, want,
                         " (parse number %d of this history; edited in the last step: %s)"
                         % (len(steps), ", ".join(op[1] for op in ops) if step else "-"))
            ia = call_j(lambda: freephil.parse(file_name=root, process_includes=True),
                        lambda r: [obj_j(o, with_ids=True, with_lines=True) for o in r.objects])
            cases.append(case)
            reqs.append(["expand", [[enc(p), enc(t)] for p, t in sorted(fs.items())], enc(root)])
            impls.append(ia)
            parents_stream(case, reqs[-1], root)
            if f:
                ctx.fail(case, "after %d step(s) on the files of one process: %s" % (step, f))
                ctx.count("hist_failed")
                break                   # the history up to here is the failing input
    finally:
        for pth in list(fs):
            try:
                os.remove(pth)
            except OSError:
                pass


INC_MOD = "verif_inc_scopes"


def gen_scope_text(rng, k, n):
    """text of importable scope number k: definitions, nested scopes, and include-scope statements naming later ones"""
    lines = []

    def body(depth, ind):
        for _ in range(rng.randint(1, 3)):
            r = rng.random()
            if r < 0.45:
                lines.append("%s%s = %d" % (ind, rng.choice("abxy"), rng.randint(0, 9)))
                if rng.random() < 0.3:
                    lines.append("%s  .help = h%d" % (ind, rng.randint(0, 9)))
            elif r < 0.7 and depth < 2:
                lines.append("%s%s {" % (ind, rng.choice("rst")))
                body(depth + 1, ind + "  ")
                lines.append("%s}" % ind)
            elif k + 1 < n:
                j = rng.randint(k + 1, n - 1)
                sub = rng.choice(["", "", " a", " r", " s.a", " r.x", " t", " x"])
                lines.append("%sinclude scope %s.t%d%s" % (ind, INC_MOD, j, sub))
            else:
                lines.append("%s%s = %d" % (ind, rng.choice("abxy"), rng.randint(0, 9)))
    body(0, "")
    return "\n".join(lines) + "\n"


def all_paths(sc, prefix=""):
    out = []
    for o in sc.objects:
        out.append(prefix + o.name)
        if o.is_scope:
            out.extend(all_paths(o, prefix + o.name + "."))
    return out


def include_scope_generated(rng, ctx, rounds):
    """`include scope <python path> [<phil path>]`: equals splicing, at the statement, the objects selected by the path
    from the *fully expanded* imported scope (its own include statements processed first); a path that selects nothing
    is refused.  Imported objects are strings, scope objects and callables returning scopes."""
    import sys
    import types
    for _ in range(rounds):
        n = rng.randint(2, 4)
        mod = types.ModuleType(INC_MOD)
        sys.modules[INC_MOD] = mod
        texts = [None] * n
        try:
            for k in reversed(range(n)):
                texts[k] = gen_scope_text(rng, k, n)
                kind = rng.choice(["str", "scope", "call"])
                val = texts[k]
                if kind != "str":
                    sc = freephil.parse(input_string=texts[k])
                    val = sc if kind == "scope" else (lambda sc=sc: sc)
                setattr(mod, "t%d" % k, val)
            k = rng.randrange(n)
            case = {"include_scope_texts": texts, "target": k}
            ctx.case(("include_scope", tuple(texts), k))
            try:
                expanded = freephil.parse(input_string=texts[k], process_includes=True)
            except RuntimeError as e:
                # a nested statement names a path that selects nothing: including this scope must be refused too
                try:
                    freephil.parse(input_string="include scope %s.t%d\n" % (INC_MOD, k), process_includes=True)
                except RuntimeError:
                    ctx.count("include_scope_refused")
                    continue
                ctx.fail(case, "imported scope cannot be expanded (%s) but including it was accepted" % e)
                continue
            paths = sorted(set(all_paths(expanded)))
            for sub in [None] + rng.sample(paths, min(3, len(paths))) + ["nosuch.q"]:
                stmt = "include scope %s.t%d%s" % (INC_MOD, k, "" if sub is None else " " + sub)
                src = "p = 1\nw {\n  %s\n}\nq = 2\n" % stmt
                sel = expanded if sub is None else expanded.get(path=sub)
                ctx.count("include_scope_" + ("whole" if sub is None else "subpath"))
                try:
                    got = freephil.parse(input_string=src, process_includes=True)
                except RuntimeError as e:
                    if len(sel.objects) == 0 and "not found" in str(e):
                        continue
                    ctx.fail(dict(case, statement=stmt), "refused: %s" % e)
                    continue
                except BaseException as e:
                    ctx.fail(dict(case, statement=stmt), "raised %s: %s" % (type(e).__name__, e))
                    continue
                if len(sel.objects) == 0:
                    ctx.fail(dict(case, statement=stmt), "path selects nothing in the expanded scope but was accepted")
                    continue
                w = got.objects[1]
                d = _lay.first_diff([_lay.sig(o) for o in sel.objects], [_lay.sig(o) for o in w.objects])
                if d or [o.name for o in got.objects] != ["p", "w", "q"]:
                    ctx.fail(dict(case, statement=stmt),
                             "include scope differs from splicing the selection of the expanded imported scope at %s" % d)
        finally:
            sys.modules.pop(INC_MOD, None)


def mixed_round(rng, ctx, base, cases, reqs, impls):
    """files and importable scopes including each other (scopes only later scopes, so every unbounded chain repeats a
    file): parse(file, process_includes) against the model's expand with the import table and the current directory"""
    import sys
    import types
    nf, ns = rng.randint(1, 3), rng.randint(1, 3)
    cwdir = os.getcwd()

    def fname(i, by_scope):
        pth = file_path(base, i)
        k = rng.random()
        if k < 0.4:
            return pth
        if by_scope is not None:
            return os.path.relpath(pth, cwdir)          # an imported scope's relative names go against the current directory
        return os.path.relpath(pth, os.path.dirname(file_path(base, by_scope if by_scope is not None else 0)))

    def body(owner_file, owner_scope):
        lines = []
        for _ in range(rng.randint(1, 4)):
            k = rng.random()
            ind = ""
            if k < 0.3:
                lines.append("%s = %d" % (rng.choice("abxy"), rng.randint(0, 9)))
            elif k < 0.45:
                lines.append("%s {\n  %s = %d\n}" % (rng.choice("rst"), rng.choice("abxy"), rng.randint(0, 9)))
            elif k < (0.55 if owner_scope is not None else 0.7):
                j = rng.randrange(nf)
                if owner_file is not None and rng.random() < 0.7:
                    j = min(nf - 1, owner_file + 1)      # mostly forward, so that most graphs are acyclic
                if owner_scope is not None:
                    nm = fname(j, owner_scope)
                else:
                    pth = file_path(base, j)
                    nm = pth if rng.random() < 0.3 else os.path.relpath(pth, os.path.dirname(file_path(base, owner_file)))
                st = "include file %s" % nm
                lines.append(st if rng.random() < 0.7 else "w {\n  %s\n}" % st)
            else:
                lo = 0 if owner_scope is None else owner_scope + 1
                if lo >= ns:
                    lines.append("%s = %d" % (rng.choice("abxy"), rng.randint(0, 9)))
                    continue
                j = rng.randint(lo, ns - 1)
                sub = rng.choice(["", "", "", "", "", " a", " b", " x", " y", " r", " s", " t", " w", " r.a", " w.x", " a b"])
                st = "include scope %s.t%d%s" % (INC_MOD, j, sub)
                lines.append(st if rng.random() < 0.7 else "w {\n  %s\n}" % st)
        return "\n".join(lines) + "\n"
    mod = types.ModuleType(INC_MOD)
    sys.modules[INC_MOD] = mod
    try:
        stexts = [body(None, k) for k in range(ns)]
        ftexts = [body(i, None) for i in range(nf)]
        for k, t in enumerate(stexts):
            kind = rng.choice(["str", "scope", "call"])
            val = t
            if kind != "str":
                sc = freephil.parse(input_string=t)
                val = sc if kind == "scope" else (lambda sc=sc: sc)
            setattr(mod, "t%d" % k, val)
        for i, t in enumerate(ftexts):
            with open(file_path(base, i), "w") as f:
                f.write(t)
        root = file_path(base, 0)
        case = {"files": ftexts, "scopes": stexts}
        ctx.case(("mixed", tuple(ftexts), tuple(stexts)))
        ia = call_j(lambda: freephil.parse(file_name=root, process_includes=True),
                    lambda r: [obj_j(o, with_ids=True, with_lines=True) for o in r.objects])
        ctx.count("mixed_" + (ia[0] if ia[0] == "ok" else str(ia[2])))
        if ia[0] == "err" and ia[1] != "runtime":
            ctx.fail(case, "files and scopes including each other raised %s" % (ia[1:3],))
        cases.append(case)
        reqs.append(["expand", [[enc(file_path(base, i)), enc(t)] for i, t in enumerate(ftexts)], enc(root),
                     [[enc("%s.t%d" % (INC_MOD, k)), enc(t)] for k, t in enumerate(stexts)], enc(cwdir)])
        impls.append(ia)
        parents_stream(case, reqs[-1], root)
    finally:
        sys.modules.pop(INC_MOD, None)


def include_scope_oracle():
    src = "p=1\ninclude scope freephil.test_scopes.include_scope_target_1\nq=2\nr {\n  include scope freephil.test_scopes.include_scope_target_1 s.y\n}\nx=3\n"
    want = "p=1\nx=1\n  .help=u\ns\n  .help=v\n{\n  y=2\n    .help=w\n}\nq=2\nr {\n  y=2\n    .help=w\n}\nx=3\n"
    try:
        got = freephil.parse(input_string=src, process_includes=True)
    except BaseException as e:
        return "include scope raised %s: %s" % (type(e).__name__, e)
    d = _lay.first_diff(_lay.sig(freephil.parse(input_string=want)), _lay.sig(got))
    return "include scope differs from inlining the named scope at %s" % d if d else None


_HIST_N = [0]


def run_history(case, log=None):
    """carry the steps of a history out again in a fresh directory tree (absolute names re-based) and judge every parse;
    returns the list of per-step failures (None = as inlined), or None if the steps cannot be carried out"""
    old = case["base"]
    _HIST_N[0] += 1
    base = "/var/tmp/verif-c13-replay-%d-%d" % (os.getpid(), _HIST_N[0])
    cwd = os.getcwd()
    out = []
    try:
        cwdir = os.path.join(base, case["cwd"])
        os.makedirs(cwdir, exist_ok=True)
        os.chdir(cwdir)
        fs = {}
        for k, step in enumerate(case["steps"]):
            ops = [[op[0], op[1]] + [t.replace(old, base) for t in op[2:]] for op in step["ops"]]
            try:
                apply_ops(base, ops, fs)
            except (OSError, KeyError):
                return None
            root = os.path.normpath(os.path.join(base, step["root"]))
            kind, want = expected_fs(fs, root)
            if kind == "acyclic":
                try:
                    freephil.parse(input_string=want)
                except RuntimeError:
                    return None         # (a shrinking candidate whose inlined text is no document)
            f = judge_fs(fs, root, base, cwdir, kind, want)
            if log is not None:
                log.append("step %d: %s; parse %s: %s" % (k, ", ".join("%s %s" % (op[0], op[1]) for op in ops) or "-",
                                                          step["root"], f or "as inlined (%s)" % kind))
            out.append(f)
    finally:
        os.chdir(cwd)
        shutil.rmtree(base, ignore_errors=True)
    return out


def shrink(f):
    """for a failing history: fewer steps, fewer files / edits per step, fewer lines per file - every candidate is carried
    out on real files and must still fail at its LAST parse while every earlier parse is as inlined"""
    import time
    case = f.get("case")
    if not (isinstance(case, dict) and case.get("history")):
        return f
    t_end = time.time() + 15

    def cls(msg):
        return [k for k in ("not detected", "tree differs", "cycle raised", "reported chain", "no file", "raised", "")
                if k in msg][0]

    def fails(steps):
        if time.time() > t_end:
            return False
        r = run_history(dict(case, steps=steps))
        return bool(r) and r[-1] is not None and cls(r[-1]) == cls(f["what"]) and all(x is None for x in r[:-1])
    steps = [{"ops": [list(op) for op in st["ops"]], "root": st["root"]} for st in case["steps"]]
    if not fails(steps):
        return f
    changed = True
    while changed:
        changed = False
        for k in range(len(steps) - 2, -1, -1):                     # drop a whole step (never the last)
            cand = steps[:k] + steps[k + 1:]
            if fails(cand):
                steps, changed = cand, True
        for k in range(len(steps)):                                  # drop one edit of a step
            j = 0
            while j < len(steps[k]["ops"]):
                cand = [dict(st, ops=st["ops"][:j] + st["ops"][j + 1:]) if i == k else st for i, st in enumerate(steps)]
                if fails(cand):
                    steps, changed = cand, True
                else:
                    j += 1
        for k in range(len(steps)):                                  # drop lines of a written text
            for j, op in enumerate(steps[k]["ops"]):
                if op[0] != "write":
                    continue
                lines = op[2].split("\n")[:-1]
                a = 0
                while a < len(lines):
                    t = "".join(x + "\n" for x in lines[:a] + lines[a + 1:])
                    cand = [dict(st, ops=st["ops"][:j] + [["write", op[1], t]] + st["ops"][j + 1:]) if i == k else st
                            for i, st in enumerate(steps)]
                    if fails(cand):
                        steps, changed = cand, True
                        lines = lines[:a] + lines[a + 1:]
                        op = steps[k]["ops"][j]
                    else:
                        a += 1
    small = dict(case, steps=steps)
    r = run_history(small)
    g = dict(f)
    g["case"] = small
    g["what"] = "after %d step(s) on the files of one process: %s [history shrunk; generated one in 'original_case']" % (
        len(steps) - 1, r[-1])
    g["original_case"] = case
    return g
def finding_still_fails(f):
    """replays the witness of a known finding on the implementation (files written to a scratch directory)"""
    import tempfile
    w = f["witness"]
    if f["id"] == "D71":
        d = tempfile.mkdtemp(prefix="verif-c13-f-", dir="/var/tmp")
        try:
            for name, text in w["files"].items():
                with open(os.path.join(d, name), "w") as fh:
                    fh.write(text)
            got = freephil.parse(file_name=os.path.join(d, w["root"]), process_includes=True)
            want = freephil.parse(input_string=inline_fs({os.path.join(d, n): t for n, t in w["files"].items()},
                                                         os.path.join(d, w["root"]), []))
            if _lay.first_diff(_lay.sig(want), _lay.sig(got)):
                return False     # not the same tree at all: another matter, the finding covers nothing
            if full_paths(got) != full_paths(want):
                return True

            def fetched(t):
                try:
                    return t.fetch(source=t).as_str()
                except RuntimeError as e:
                    return "RuntimeError: %s" % str(e).split(" (")[0]
            return fetched(got) != fetched(want)
        except Exception:        # a tree on which the witness does not even run: the finding covers nothing there
            return False
        finally:
            shutil.rmtree(d, ignore_errors=True)
    return True


def replay(payload):
    case = payload["failure"].get("case") if isinstance(payload.get("failure"), dict) else None
    if not (isinstance(case, dict) and case.get("history")):
        print(payload["failure"])
        return False
    log = []
    r = run_history(case, log)
    print("\n".join(log))
    return r is not None and all(x is None for x in r)
