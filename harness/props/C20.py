"""C20 — the GUI parameter index stays coherent over any edit history."""
import contextlib
import io
import json

import mgen
from common import freephil, enc, dec, call_j
from props import _fetch
import random
from props.C09 import close, to_pval, assign, fmt_tables

LEVEL = "proof"
MODULE = "Phil.Props.C20"
LEVEL_TEXT = 'Lean theorems about the index state machine, every history: the handed-out object equals a fresh extraction of the working parameters (reachable_coherent), pop restores the working set of the matching push (pop_restores, balanced_stack), a refused edit changes nothing, same edit twice — generic over the merge kernel under named laws, and with the laws discharged for the concrete kernel on flat masters (C20Concrete) and nested masters incl. edits of .multiple definitions (C20Tree, C20Tree2: refetch_exact_tree, pop_restores_tree, merge_closed_form_multi, same_edit_twice_tree_multi, reached_invariant_tree_multi); the path index is inside the model: after any history the stored index equals reindex of the current working tree and every path outside .multiple scopes looks up to exactly the live object(s) (index_is_reindex(_scoped), entries_are_live, live_path_is_key, lookup_exact_tree). Tied to /repo by a correspondence run over random histories (update / merge_phil string|object|file with and without only_scope, update_from_python, push / pop / set, stacks deeper than 100): working text, cache flags, stack depth, handed-out object and the whole _full_path_index (objects located by identity) after every operation; the oracle keeps its own stack of outstanding pushes and evaluates the four clauses after every step.'
LEVEL_NOTE = 'Known finding D37. The style/menu half of the index is not modelled. D79 (merge_phil pruned the live tree before a refused fetch) fixed in /repo.'
TECHNIQUE = 'Lean 4 invariant proofs over operation histories of a state machine (refinement; path index included) + differential correspondence'
RULE = ("fully typed masters x histories of 1-25 operations over {update(text[, only_scope]), merge_phil(string / object[, only_scope]), merge_param_file, update_from_python, "
        "push_state, pop_state, set_state, get_python_object} with edit texts generated from the master; plus a stream of DEEP "
        "histories (33-100 explicit push_state calls and further implicit pushes of update_from_python with edits in between "
        "and next to no pops, set_state with the handles push_state returned, then a complete unwind down to the empty stack "
        "and one pop beyond); non-trivial = the history contains an edit and a state operation; distinct = (master, history)")
ASSUMPTIONS = ["values compared on active parameters"]


def scope_paths(m):
    """full paths of the scopes of a parsed master (candidates for `only_scope`)"""
    out = []

    def walk(o):
        for c in o.objects:
            if c.is_scope:
                p = c.full_path()
                if p and p not in out:
                    out.append(p)
                walk(c)
    walk(m)
    return out


def gen_history(rng, tree, scopes=()):
    ops = []
    depth = 0
    for _ in range(rng.choice([1, 3, 6, 12, 25])):
        k = rng.random()
        if k < 0.35:
            t = mgen.SourceGen(rng, valid_only=rng.random() < 0.85, unknown=False, disabled=False).text(tree)
            if t:
                # the same edit through one of the entry points: update(string), merge_phil(string / parsed object),
                # merge_param_file(file)
                via = rng.choice(["update", "update", "string", "object", "file"])
                op = ["update", t, via]
                # a third of the update / merge_phil calls pass only_scope=<a scope path of the master> (sometimes a
                # path that names nothing); merge_param_file has no such argument
                if via != "file" and rng.random() < 0.34:
                    op.append(rng.choice(list(scopes) + ["no_such_scope"]) if scopes and rng.random() < 0.9
                              else "no_such_scope")
                ops.append(op)
        elif k < 0.5:
            ops.append(["push"])
            depth += 1
        elif k < 0.62:
            ops.append(["pop"])
        elif k < 0.7 and depth > 0:
            ops.append(["set", rng.randrange(depth)])
        elif k < 0.74:
            ops.append(["from_python"])
        elif k < 0.77:
            ops.append(["copy"])          # index.copy() (pickle round trip): the history continues on the copy
        elif k < 0.82:
            ops.append(["from_python_obj", rng.randrange(10 ** 6)])   # a separately extracted, edited object
        else:
            ops.append(["get"])
    return ops


def gen_edit(rng, tree, scopes=()):
    """one edit operation of gen_history (None when the source generator produced no text)"""
    t = mgen.SourceGen(rng, valid_only=rng.random() < 0.85, unknown=False, disabled=False).text(tree)
    if not t:
        return None
    via = rng.choice(["update", "update", "string", "object", "file"])
    op = ["update", t, via]
    if via != "file" and rng.random() < 0.2:
        op.append(rng.choice(list(scopes) + ["no_such_scope"]) if scopes and rng.random() < 0.9 else "no_such_scope")
    return op


def gen_deep_history(rng, tree, scopes=(), lo=33, hi=100):
    """a DEEP state stack: a long editing session in which a state is saved before (almost) every step -- `lo`..`hi`
    explicit push_state calls plus the implicit pushes of update_from_python, edits in between, next to no pops -- then
    set_state with handles of saved states from every region of the stack (bottom, middle, top), then the complete
    unwind: one pop per outstanding push down to the empty stack (gets and a few set_state on the way) and one pop more
    (which must refuse).  The property quantifies over all finite histories; nothing bounds the number of outstanding
    pushes."""
    ops = []
    n_push = rng.choice([lo, lo + 1, 40, 48, 64, 65, 80, hi, rng.randint(lo, hi), rng.randint(lo, hi)])
    n_push = max(lo, min(hi, n_push))
    explicit = implicit = 0
    while explicit < n_push:
        k = rng.random()
        if k < 0.55:
            ops.append(["push"])
            explicit += 1
        elif k < 0.80:
            op = gen_edit(rng, tree, scopes)
            if op:
                ops.append(op)
        elif k < 0.86:
            ops.append(["from_python"])
            implicit += 1
        elif k < 0.92:
            ops.append(["from_python_obj", rng.randrange(10 ** 6)])
            implicit += 1
        elif k < 0.98:
            ops.append(["get"])
        elif k < 0.99:
            ops.append(["copy"])
        elif explicit > 0:
            ops.append(["pop"])          # rare: the run of pushes is long, not necessarily unbroken
            explicit -= 1                # (an upper bound of what is outstanding is enough here)
    depth = explicit                     # handles 0 .. depth-1 certainly address outstanding pushes
    for k in {0, 1, depth // 2, depth - 2, depth - 1, rng.randrange(depth), rng.randrange(depth)}:
        if 0 <= k < depth:
            ops.append(["set", k])
            if rng.random() < 0.5:
                ops.append(["get"])
    left = depth
    for _ in range(explicit + implicit + 1):       # complete unwind (implicit pushes may not all have happened)
        ops.append(["pop"])
        left = max(0, left - 1)
        k = rng.random()
        if k < 0.08:
            ops.append(["get"])
        elif k < 0.12 and left > 0:
            ops.append(["set", rng.randrange(left)])
    return ops


def live_paths(idx):
    """objects of the working tree outside multiple scopes, with their full paths"""
    out = []

    def walk(o, inside_multiple):
        for c in o.objects:
            if c.is_template < 0:
                continue
            if not inside_multiple:
                out.append((c.full_path(), c))
            if c.is_scope:
                walk(c, inside_multiple or bool(c.multiple))
    walk(idx.working_phil, False)
    return out


def index_obs(idx):
    """`_full_path_index` against a document-order walk of `working_phil` (pre-order, root = 0, every object, templates
    too): one row [path, kind, count, positions] per key, keys sorted.  An indexed object is located by IDENTITY (id() of
    the objects met by the walk, i.e. `is`); position -1 = the indexed object is NOT an object of the working tree.
    Inside `.multiple` scopes template copies share their children (finding D21), so one object can sit at several
    positions: the k-th occurrence of an object in a list entry is its k-th position among the objects the re-index
    visits (those not below an object with is_template < 0), a single entry is its last such position."""
    visited, anywhere = {}, {}
    counter = [0]

    def number(o, skipped):
        p = counter[0]
        counter[0] += 1
        skipped = skipped or o.is_template < 0
        anywhere.setdefault(id(o), []).append(p)
        if not skipped:
            visited.setdefault(id(o), []).append(p)
        if o.is_scope:
            for c in o.objects:
                number(c, skipped)
    number(idx.working_phil, False)

    def places(x):
        return visited.get(id(x)) or anywhere.get(id(x)) or []
    rows = []
    for path in sorted(idx._full_path_index):
        v = idx._full_path_index[path]
        if isinstance(v, list):
            seen, ps = {}, []
            for x in v:
                k = seen.get(id(x), 0)
                seen[id(x)] = k + 1
                pl = places(x)
                ps.append(pl[k] if k < len(pl) else -1)
            rows.append([enc(path), "many", len(v), ps])
        else:
            pl = places(v)
            rows.append([enc(path), "one", 1, [pl[-1] if pl else -1]])
    return rows


def lookup_clause(idx):
    """the lookup clause of the property on the CURRENT working tree, by identity: every path that is not inside a
    multiple scope looks up to the live object(s) at that path — a list entry holds exactly the live objects of that
    path in document order, a single entry is the (last) live object of that path, and nothing it returns is an object
    of a discarded tree.  Returns a description of the first violation, or None."""
    by_path = {}
    for path, obj in live_paths(idx):
        by_path.setdefault(path, []).append(obj)
    for path, lives in by_path.items():
        found = idx.get_scope_by_name(path)
        if found is None:
            return "path %s of the working tree is not in the index" % path
        if isinstance(found, list):
            if len(found) != len(lives) or not all(f is o for f, o in zip(found, lives)):
                return "path %s does not look up to exactly the live objects of the working tree" % path
        elif found is not lives[-1]:
            return "path %s does not look up to the live object of the working tree" % path
    return None


_EDITDIR = None


def _editdir():
    global _EDITDIR
    if _EDITDIR is None:
        import atexit
        import shutil
        import tempfile
        _EDITDIR = tempfile.mkdtemp(prefix="verif-c20-", dir="/var/tmp")
        atexit.register(shutil.rmtree, _EDITDIR, True)
    return _EDITDIR


def run_history(m, ops):
    """run on the implementation; returns (observations, failures, texts of every working set)"""
    from freephil.interface import index
    obs, fails, texts = [], [], []
    wire, fm = [], {}
    buf = io.StringIO()
    with contextlib.redirect_stdout(buf):
        idx = index(master_phil=m)
        # the oracle's own stack of OUTSTANDING pushes (explicit push_state calls and the implicit push of every
        # update_from_python that took place), kept from what the public calls did and returned -- never read off
        # idx._states: one entry per push = the working parameters current at that push, the handle push_state returned
        # (None for an implicit push) and whether the push falls into the class of finding D37
        pushes = []
        from_format = [False]     # the working parameters were produced by format() (update_from_python), not by a fetch

        def values():
            """the working parameters as values (spelling such as quoting is not part of them)"""
            try:
                return _fetch.dump(idx.working_phil.extract())
            except RuntimeError:
                return ("refused", idx.working_phil.as_str())

        def saved():
            """the entry for a push that happens NOW.  D37 class (narrow): the working parameters were produced by
            format() AND re-fetching them against the master -- which is how push_state copies -- changes their values"""
            now = values()
            d37 = False
            if from_format[0]:
                try:
                    d37 = not close(_fetch.dump(m.fetch(source=idx.working_phil).extract()), now)
                except (RuntimeError, freephil.Sorry):
                    d37 = True
            return {"values": now, "handle": None, "d37": d37, "step": None}

        def observe(got):
            texts.append(idx.working_phil.as_str())
            obs.append([enc(idx.working_phil.as_str()), idx.params is not None, bool(idx._phil_has_changed),
                        len(idx._states), None if got is None else ["got", to_pval(got)], index_obs(idx)])
        observe(None)
        for step, op in enumerate(ops):
            got = None
            if op[0] == "copy":
                # no operation of the abstract machine: text, cache flags, stack and index must survive
                try:
                    snap = (idx.working_phil.as_str(), idx.params is not None, bool(idx._phil_has_changed),
                            [w.as_str() for w in idx._states])
                    idx = idx.copy()
                    after = (idx.working_phil.as_str(), idx.params is not None, bool(idx._phil_has_changed),
                             [w.as_str() for w in idx._states])
                    if snap != after:
                        fails.append((step, "index.copy() changed the state: %r -> %r" % (snap[1:3], after[1:3])))
                except BaseException as e:
                    fails.append((step, "index.copy() raised %s: %s" % (type(e).__name__, str(e)[:100])))
                    break
                continue
            only = op[3] if op[0] == "update" and len(op) > 3 else None
            if op[0] == "update":
                wire.append([op[0], enc(op[1])] + ([] if only is None else [enc(only)]))
            else:
                wire.append(list(op))
            try:
                if op[0] == "update":
                    before = idx.working_phil.as_str()
                    via = op[2] if len(op) > 2 else "update"
                    try:
                        if via == "update":
                            if only is None:
                                idx.update(op[1])
                            else:
                                idx.update(op[1], only_scope=only)
                        elif via == "file":
                            import os
                            fn = os.path.join(_editdir(), "edit_%d.params" % step)
                            with open(fn, "w") as fh:
                                fh.write(op[1])
                            idx.merge_param_file(fn)
                        else:
                            # merge_phil itself does not validate first: callers do (as update / merge_param_file do)
                            try:
                                pre = freephil.parse(input_string=op[1])
                                m.fetch(source=pre)
                            except (RuntimeError, freephil.Sorry):
                                raise freephil.Sorry("refused by the caller's validation")
                            kw = {} if only is None else {"only_scope": only}
                            if via == "string":
                                idx.merge_phil(phil_string=op[1], **kw)
                            else:
                                idx.merge_phil(phil_object=pre, **kw)
                    except freephil.Sorry:
                        pass
                    else:
                        from_format[0] = False
                        # the same edit again leaves the working parameters unchanged
                        once = values()
                        try:
                            probe = index(master_phil=m, working_phil=m.fetch(source=idx.working_phil))
                            if only is None:
                                probe.update(op[1])
                            else:
                                probe.update(op[1], only_scope=only)
                            if not close(_fetch.dump(probe.working_phil.extract()), once):
                                fails.append((step, "applying the same edit twice changes the working parameters"))
                        except (freephil.Sorry, RuntimeError):
                            pass  # an edit with a value the type refuses: extraction reports it
                elif op[0] == "push":
                    entry = saved()
                    entry["handle"] = idx.push_state()
                    entry["step"] = step
                    pushes.append(entry)
                elif op[0] == "pop":
                    ok = idx.pop_state()
                    if ok and not pushes:
                        fails.append((step, "pop_state returned True although no push is outstanding"))
                    elif not ok and pushes:
                        # the clause "popping a state restores the working parameters of the matching push" has a
                        # matching push here: a refusing pop restores nothing
                        fails.append((step, "pop_state returned %r and restored nothing although %d pushes are outstanding "
                                      "(the matching push is the one of step %r)" % (ok, len(pushes), pushes[-1]["step"])))
                        pushes.pop()
                    elif ok:
                        want = pushes.pop()
                        from_format[0] = False
                        if not close(values(), want["values"]):
                            fails.append((step, "pop_state did not restore the working parameters of the matching push "
                                          "(step %r, %d pushes below it)" % (want["step"], len(pushes)),
                                          ["D37"] if want["d37"] else None))
                elif op[0] == "set":
                    # set_state(handle): the handle is what push_state returned for that outstanding push (an implicit
                    # push of update_from_python returns none: its position among the outstanding pushes)
                    if op[1] < len(pushes):
                        want = pushes[op[1]]
                        r = idx.set_state(op[1] if want["handle"] is None else want["handle"])
                        from_format[0] = False
                        if r is not True:
                            fails.append((step, "set_state(handle of the push of step %r) returned %r" % (want["step"], r)))
                        elif not close(values(), want["values"]):
                            fails.append((step, "set_state(handle of the push of step %r; %d of %d outstanding) loaded other "
                                          "working parameters than were current at that push"
                                          % (want["step"], op[1], len(pushes)), ["D37"] if want["d37"] else None))
                elif op[0] == "from_python":
                    n_before = len(idx._states)
                    entry = saved()
                    entry["step"] = step
                    will_push = idx.params is not None      # documented protocol: nothing cached -> returns False, no push
                    try:
                        r = idx.update_from_python()
                    except RuntimeError:
                        if len(idx._states) > n_before:     # refused by format() after the state was saved
                            pushes.append(entry)
                        observe(None)
                        continue
                    if will_push and r is not False:
                        pushes.append(entry)
                        from_format[0] = True
                elif op[0] == "from_python_obj":
                    try:
                        obj = idx.get_python_object(make_copy=True)
                    except RuntimeError:
                        wire[-1] = ["get_noop"]
                        observe(None)
                        continue
                    klass = []
                    assign(random.Random(op[1]), m, obj, klass, [])
                    try:
                        # only objects that are in the types' domains and outside the C09 finding classes
                        text = m.format(python_object=obj).as_str()
                        back = m.fetch(source=freephil.parse(input_string=text)).extract()
                        in_domain = not klass and close(_fetch.dump(back), _fetch.dump(m.format(python_object=obj).extract()))
                    except (RuntimeError, freephil.Sorry, Exception):
                        in_domain = False
                    if not in_domain:
                        wire[-1] = ["get_noop"]
                        observe(None)
                        continue
                    wire[-1] = ["from_python", to_pval(obj)]
                    fmt_tables(obj, fm)
                    entry = saved()
                    entry["step"] = step
                    n_before = len(idx._states)
                    try:
                        idx.update_from_python(obj)
                    except RuntimeError:
                        if len(idx._states) > n_before:     # refused by format() after the state was saved
                            pushes.append(entry)
                        observe(None)
                        continue
                    pushes.append(entry)                    # update_from_python(obj) always saves the state first
                    from_format[0] = True
                    # the object that would be handed out next (cache logic of get_python_object, without touching it)
                    # must equal a fresh extraction of the new working parameters
                    try:
                        fresh = idx.working_phil.extract()
                        handed = fresh if (idx._phil_has_changed or idx.params is None) else idx.params
                        if not close(_fetch.dump(handed), _fetch.dump(fresh)):
                            fails.append((step, "after update_from_python(obj) the handed-out object differs from a fresh extraction"))
                    except RuntimeError:
                        pass
                elif op[0] == "get":
                    try:
                        got = idx.get_python_object()
                    except RuntimeError:
                        got = None  # a value the type refuses is reported at extraction
                        observe(None)
                        continue
                    fresh = idx.working_phil.extract()
                    if not close(_fetch.dump(got), _fetch.dump(fresh)):
                        fails.append((step, "get_python_object() differs from a fresh extraction of the working parameters"))
            except BaseException as e:
                fails.append((step, "operation %r raised %s: %s" % (op[0], type(e).__name__, str(e)[:100])))
                break
            # the path index is live (also after update / merge_phil with only_scope)
            bad = lookup_clause(idx)
            if bad is not None:
                fails.append((step, bad))
            observe(got)
    return obs, fails, texts, wire, list(fm.values())


def run(ctx):
    rng = ctx.rng
    n = ctx.scale(600, 10000, 2000)
    n_deep = ctx.scale(5, 60, 12)
    cases, reqs, impls = [], [], []
    all_pending = []
    types = [t for t in mgen.TYPES if t is not None]

    def one(mt, m, ops, sample=False):
        kinds = {o[0] for o in ops}
        ctx.case((mt, repr(ops)), nontrivial=("update" in kinds and bool(kinds & {"push", "pop", "set", "from_python"})))
        for o in ops:
            ctx.count("op_" + o[0])
            if o[0] == "update" and len(o) > 3:
                ctx.count("op_update_only_scope")
        try:
            obs, fails, texts, wire, fm_extra = run_history(m, ops)
        except (freephil.Sorry, RuntimeError):
            ctx.count("master_refused_by_index")
            return None
        except BaseException as e:
            ctx.fail({"master": mt, "ops": ops}, "index construction raised %s: %s" % (type(e).__name__, str(e)[:100]))
            return None
        case = {"master": mt, "ops": ops}
        pending = []
        for f in fails[:1]:
            # finding classes are assigned where the failure is met (run_history): D37 only for a pop / set_state whose
            # matching push saved working parameters that format() produced and that a re-fetch against the master changes
            pending.append((dict(case, step=f[0]), f[1], f[2] if len(f) > 2 else None))
        if len(obs) == len([o for o in ops if o[0] != "copy"]) + 1:      # (copy is not an operation of the abstract machine)
            ev, fm = mgen.tables([mt] + [o[1] for o in ops if o[0] == "update"] + texts)
            reqs.append(["index", enc(mt), wire, ev, fm + fm_extra])
            impls.append(["ok", obs])
            cases.append(case)
            all_pending.append((len(cases) - 1, pending))
        else:
            all_pending.append((None, pending))
        if sample:
            ctx.sample({"master": mt, "ops": ops})
        return obs

    # deep histories first (a few suffice; each is some hundred operations on a small master)
    for i in range(n_deep):
        if ctx.time_left() < 30:
            ctx.notes.append("stopped early on time budget")
            break
        tree = mgen.MasterGen(rng, depth=rng.choice([0, 0, 1]), nested_multiples=False, disabled=False, types=types,
                              further=rng.random() < 0.3).tree()
        mt = mgen.render_master(tree)
        m = freephil.parse(input_string=mt)
        ops = gen_deep_history(rng, tree, scope_paths(m))
        obs = one(mt, m, ops, sample=(i == 0))
        ctx.count("deep_histories")
        if obs:
            ctx.counts["deep_max_stack_depth"] = max(ctx.counts.get("deep_max_stack_depth", 0), max(o[3] for o in obs))
    for i in range(n):
        if ctx.time_left() < 30:
            ctx.notes.append("stopped early on time budget")
            break
        tree = mgen.MasterGen(rng, depth=rng.choice([0, 1, 2]), nested_multiples=(i % 4 == 3), disabled=False, types=types,
                              further=rng.random() < 0.3).tree()
        mt = mgen.render_master(tree)
        m = freephil.parse(input_string=mt)
        ops = gen_history(rng, tree, scope_paths(m))
        one(mt, m, ops, sample=(i % 40 == 0))
    disagreeing = set()
    if reqs and ctx.mode != "impl-only":
        n0 = len(ctx.disagreements)
        ctx.corr("index", cases, reqs, impls, proj=project)
        for d in ctx.disagreements[n0:]:
            disagreeing.add(json.dumps(d["case"], sort_keys=True))
    for idx_case, pending in all_pending:
        for c, what, cls in pending:
            key = json.dumps({"master": c["master"], "ops": c["ops"]}, sort_keys=True)
            mv = None if idx_case is None else (key not in disagreeing)
            ctx.fail(c, what, finding=cls, model_violates=mv)


def project(obs):
    """floats in handed-out objects are compared to 10 digits elsewhere; here compare text and flags"""
    return [[o[0], o[1], o[2], o[3], o[4] is not None] + o[5:] if isinstance(o, list) else o for o in obs]


def shrink(f, budget=20.0):
    """best effort: a shorter history of the same master with the same first failure (same clause, same finding class);
    greedy chunk removal after cutting everything behind the failing step"""
    import re
    import time
    case = f["case"]
    if "ops" not in case:
        return f
    m = freephil.parse(input_string=case["master"])
    stop = time.time() + budget

    def kind(what):
        return re.sub(r"[0-9]+|\(.*", "", what)[:60]

    def first(ops):
        try:
            fails = run_history(m, ops)[1]
        except BaseException:
            return None
        if fails and kind(fails[0][1]) == kind(f["what"]) and (fails[0][2] if len(fails[0]) > 2 else None) == f.get("finding"):
            return fails[0]
        return None
    ops = list(case["ops"])
    best = first(ops)
    if best is None:
        return f
    ops = ops[:best[0] + 1]
    size = max(1, len(ops) // 2)
    while size >= 1 and time.time() < stop:
        i = 0
        while i < len(ops) and time.time() < stop:
            cand = ops[:i] + ops[i + size:]
            got = first(cand) if cand else None
            if got is not None:
                ops, best = cand[:got[0] + 1], got
            else:
                i += size
        size //= 2
    return dict(f, case={"master": case["master"], "ops": ops, "step": best[0]}, what=best[1],
                shrunk_from=len(case["ops"]))


def finding_still_fails(f):
    from freephil.interface import index
    w = f["witness"]
    m = freephil.parse(input_string=w["master"])
    with contextlib.redirect_stdout(io.StringIO()):
        idx = index(master_phil=m)
        obj = idx.get_python_object(make_copy=True)
        obj.b = list(w["values"])
        idx.update_from_python(obj)
        before = _fetch.dump(idx.working_phil.extract())
        idx.push_state()
        idx.pop_state()
        return _fetch.dump(idx.working_phil.extract()) != before


def replay(payload):
    c = payload["failure"]["case"]
    m = freephil.parse(input_string=c["master"])
    obs, fails = run_history(m, c["ops"])[:2]
    print(fails)
    return not fails
