"""C08 — fetch_diff is a faithful and minimal difference."""
from common import freephil, enc
import mgen
from props import _fetch

LEVEL = "proof"
MODULE = "Phil.Props.C08"
LEVEL_TEXT = "Lean theorems about the merge model in diff mode: the difference as an explicit function of master and sources on nested masters with .multiple definitions (diff_tree_total) and with .multiple scopes nested to any depth (fetch_diff_ms_total), minimality (diff_tree_minimal, diff_ms_minimal), no empty scope, self-diff empty (self_diff_ms_empty, master_as_source_diff_empty), diff of the working tree = diff of the sources, restore (restore_tree*, restore_ms_closed, restore_ms_exact), fixed point of diff/restore (diff_restore_tree_fixed_point, diff_restore_ms_fixed_point); kernel-checked witnesses for findings D10 (also on .multiple scopes), D42. Tied to /repo by a correspondence run of fetch(diff=True) and of the re-merge; the oracle evaluates the four clauses of the statement on the implementation, incl. masters reached by a route (fetch / format / copy / deepcopy / pickle / reparse of an already used master), every list spelling incl. the empty list, deprecated parameters, the printed difference, phil --diff and the index's get_diff."
LEVEL_NOTE = 'On .multiple scopes the working-set laws carry the named rendering-coherence hypothesis CohMS (true on every validated input, sharp only for an artificial %.10g). Findings on the unchanged tree: D10, D42, D47 (deprecated parameters invisible to the difference), D48 ($ re-substitution).'
TECHNIQUE = 'Lean 4 closed form of diff / restore on the fetch model (incl. .multiple scopes) + differential correspondence + four-clause oracle'
RULE = ("masters x working parameter sets reachable by fetch from generated sources (added, repeated and template-equal instances of "
        ".multiple objects, choices, Auto/None, non-canonical spellings); non-trivial = the difference is non-empty; "
        "impl-only stream: the same clauses on masters reached by a route from their text (used before, then derived by fetch / "
        "format of layered defaults, copy, deepcopy, pickle, print+parse); list-spelling stream: ints / floats defaults and "
        "values written with brackets, commas, quotes, and the empty list in each of its spellings")
ASSUMPTIONS = ["equality of working sets = equal extract() dumps"]


def check(m, ss, tree):
    try:
        w = m.fetch(sources=ss)
        wd = _fetch.dump(w.extract())
    except BaseException:
        return None, None
    try:
        d = m.fetch_diff(source=w)
    except BaseException as e:
        return "fetch_diff raised %s: %s" % (type(e).__name__, str(e)[:100]), None
    try:
        # minimal: every definition in D differs from the master default
        md = {}
        for l in m.all_definitions():
            md.setdefault(l.path, l.object)     # the declaration; further occurrences carry neither .type nor .multiple
        for l in d.all_definitions():
            mo = md.get(l.path)
            if mo is not None and not mo.multiple:
                a = mo.extract_format(source=l.object).as_str()
                b = mo.extract_format().as_str()
                if a == b:
                    return "difference contains %s although it equals the master default" % l.path, d
        # faithful: merging D back reproduces W's values (as object and from text)
        for label, src in (("object", d), ("text", freephil.parse(input_string=d.as_str()))):
            w2 = m.fetch(source=src)
            if _fetch.dump(w2.extract()) != wd:
                return "merging the difference (%s) back does not reproduce W's extracted values" % label, d
        if m.fetch_diff(source=m.fetch()).as_str() != "":
            return "difference of the master's own defaults is not empty", d
        d2 = m.fetch_diff(source=m.fetch(source=d))
        if d2.as_str() != d.as_str():
            return "difference of the difference-restored W is not D again", d
        # the difference taken directly from the source list (what `phil --diff` does) is as faithful and minimal
        try:
            ds = m.fetch_diff(sources=ss)
        except (RuntimeError, freephil.Sorry):
            return None, d   # a value text the type refuses somewhere in the sources: diffing them is refused
        for l in ds.all_definitions():
            mo = md.get(l.path)
            if mo is not None and not mo.multiple:
                if mo.extract_format(source=l.object).as_str() == mo.extract_format().as_str():
                    return "difference of the sources contains %s although it equals the master default" % l.path, ds
        if _fetch.dump(m.fetch(source=ds).extract()) != wd:
            return "merging the difference of the sources back does not reproduce W's extracted values", ds
    except BaseException as e:
        return "re-merge raised %s: %s" % (type(e).__name__, str(e)[:100]), d
    return None, d


_TOOLDIR = None


def tool_outputs(m, mt, srcs, ss):
    """the difference as the tools hand it out: `phil --diff master user...` (cli.main) and, for fully typed masters, the
    parameter index (get_diff, save_diff); each must be the text of M.fetch_diff(...)"""
    global _TOOLDIR
    import contextlib
    import io
    import os
    import sys
    if _TOOLDIR is None:
        import atexit
        import shutil
        import tempfile
        _TOOLDIR = tempfile.mkdtemp(prefix="verif-c08-", dir="/var/tmp")
        atexit.register(shutil.rmtree, _TOOLDIR, True)
    try:
        want = m.fetch_diff(sources=ss).as_str()
    except (RuntimeError, freephil.Sorry):
        return None
    names = [os.path.join(_TOOLDIR, "master.params")] + [os.path.join(_TOOLDIR, "user%d.params" % i) for i in range(len(srcs))]
    for fn, text in zip(names, [mt] + list(srcs)):
        with open(fn, "w") as f:
            f.write(text)
    from freephil import cli
    buf = io.StringIO()
    argv = sys.argv
    try:
        sys.argv = ["phil", "--diff"] + names
        with contextlib.redirect_stdout(buf):
            cli.main()
    except BaseException as e:
        return "phil --diff raised %s: %s" % (type(e).__name__, str(e)[:80])
    finally:
        sys.argv = argv
    if len(names) >= 2 and buf.getvalue() != want:
        return "phil --diff prints %r, fetch_diff of the same files is %r" % (buf.getvalue()[:80], want[:80])
    try:
        from freephil.interface import index
        with contextlib.redirect_stdout(io.StringIO()):
            idx = index(master_phil=m, working_phil=m.fetch(sources=ss))
    except (RuntimeError, freephil.Sorry):
        return None      # the index wants every parameter typed
    w = m.fetch(sources=ss)
    wantw = m.fetch_diff(source=w).as_str()
    if idx.get_diff().as_str() != wantw:
        return "index.get_diff() differs from M.fetch_diff(W)"
    out = os.path.join(_TOOLDIR, "saved.params")
    idx.save_diff(file_name=out)
    if open(out).read() != wantw:
        return "index.save_diff() wrote %r, M.fetch_diff(W) is %r" % (open(out).read()[:80], wantw[:80])
    return None


def float_within_print_precision(m, ss):
    """finding class D42: a float parameter whose working value differs from the master default only beyond the ten
    significant digits that extract_format prints (fetch_diff compares those renderings)"""
    try:
        w = m.fetch(sources=ss)
    except BaseException:
        return False
    md = {l.path: l.object for l in m.all_definitions()}
    for l in w.all_definitions():
        mo = md.get(l.path)
        if mo is None or mo.type is None or mo.type.phil_type not in ("float", "floats"):
            continue
        try:
            v, dv = l.object.extract(), mo.extract()
        except BaseException:
            continue
        vs = v if isinstance(v, list) else [v]
        ds = dv if isinstance(dv, list) else [dv]
        if len(vs) == len(ds):
            for a, b in zip(vs, ds):
                if isinstance(a, float) and isinstance(b, float) and a != b and "%.10g" % a == "%.10g" % b:
                    return True
        elif any(isinstance(a, float) and any(isinstance(b, float) and a != b and "%.10g" % a == "%.10g" % b for b in ds)
                 for a in vs):
            return True
    return False


def deprecated_parameter_set(m, ss):
    """finding class D47: the working set holds a parameter the master declares .deprecated (fetch keeps such a parameter only
    when a source sets it away from the default; extract() then shows it, but fetch_diff compares attributes-level-0 prints,
    which never show a deprecated definition)"""
    try:
        w = m.fetch(sources=ss)
    except BaseException:
        return False
    return any(l.object.deprecated for l in w.all_definitions())


def _live_dollar(word):
    return word.quote_token != "'" and "$" in word.value.replace("\\$", "")


def live_dollar_in_working_set(m, ss):
    """finding class D48: the master's own defaults are free of `$`, yet the working set holds a word that is not single-quoted
    and contains an unescaped `$` -- text that substitution spliced in from a single-quoted word (or the environment) and that
    the next fetch takes for a variable reference again"""
    def words_of(o):
        for l in o.all_definitions():
            for wd in l.object.words:
                yield wd
    try:
        if any("$" in wd.value for wd in words_of(m)):
            return False
        w = m.fetch(sources=ss)
    except BaseException:
        return False
    return any(_live_dollar(wd) for wd in words_of(w))


RESTORE_CLAUSES = ("merging the difference", "difference of the difference-restored")
RESUBSTITUTION = RESTORE_CLAUSES + ("re-merge raised RuntimeError: Undefined variable",)


def finding_classes(m, ss, what):
    """The findings on the unchanged tree are failures of the restore clauses (the re-merged difference is not W); none
    makes a difference non-minimal nor the difference of the master's own defaults non-empty, so they cover nothing there.
    D48 (a spliced `$` is substituted again) also shows as the re-merge refusing a variable that is now undefined."""
    cls = []
    if what.startswith(RESUBSTITUTION) and live_dollar_in_working_set(m, ss):
        cls.append("D48")
    if not what.startswith(RESTORE_CLAUSES):
        return cls
    if master_has_nested_multiple(m):
        cls.append("D8")
    if master_relists_instance(m):
        cls.append("D10")
    if float_within_print_precision(m, ss):
        cls.append("D42")
    if deprecated_parameter_set(m, ss):
        cls.append("D47")
    return cls


ROUTES = ("fetch", "fetch", "fetch", "format", "copy", "deepcopy", "pickle", "reparse")


def walk_route(m, steps):
    """A master need not be a freshly parsed text: the statement quantifies over every well-formed master.  A *route* is the
    history by which the master object of a case is reached from its parsed text:
      use      -- the master serves for what it is made for (all four clauses are evaluated with some sources; outcome dropped)
      fetch    -- defaults are layered: the result of master.fetch(sources) is the master from now on
      format   -- the same through Python objects: master.format(master.fetch(sources).extract())
      copy / deepcopy / pickle -- the master object is duplicated / stored and loaded
      reparse  -- the master is printed with all attributes and parsed again
    returns the master at the end of the route"""
    import copy
    import pickle
    for st in steps:
        op = st["op"]
        ss = [freephil.parse(input_string=s) for s in st.get("sources", ())]
        if op == "use":
            check(m, ss, None)
        elif op == "fetch":
            m = m.fetch(sources=ss)
        elif op == "format":
            m = m.format(python_object=m.fetch(sources=ss).extract())
        elif op == "copy":
            m = m.copy()
        elif op == "deepcopy":
            m = copy.deepcopy(m)
        elif op == "pickle":
            m = pickle.loads(pickle.dumps(m, st.get("protocol", 2)))
        elif op == "reparse":
            m = freephil.parse(input_string=m.as_str(attributes_level=3))
        else:
            raise ValueError(op)
    return m


def gen_route(rng, tree, srcs, lists=0):
    """use the parsed master, derive the next master from it, possibly once more; the sources of the derivation steps are
    valid for the master (a refused default would leave nothing to evaluate)"""
    steps = []
    for k in range(rng.choice([1, 1, 2])):
        if k > 0 or rng.random() < 0.85:
            steps.append({"op": "use", "sources": list(srcs) if k == 0 else
                          [mgen.SourceGen(rng, unknown=False, lists=lists).text(tree) for _ in range(rng.choice([0, 1, 2]))]})
        op = rng.choice(ROUTES)
        st = {"op": op}
        if op in ("fetch", "format"):
            st["sources"] = [mgen.SourceGen(rng, valid_only=True, unknown=False, disabled=False, lists=lists).text(tree)
                             for _ in range(rng.choice([1, 1, 2]))]
        if op == "pickle":
            st["protocol"] = rng.choice([0, 2, 4])
        steps.append(st)
    return steps


def master_relists_instance(m):
    """finding class D10, read off the master object itself (a derived master has no generator tree): a .multiple object
    with a further active occurrence in the same master scope"""
    seen = {}
    for o in m.objects:
        if o.is_disabled:
            continue
        first = seen.setdefault(o.name, o)
        if first is not o and first.multiple and first.is_definition == o.is_definition:
            return True
        if o.is_scope and master_relists_instance(o):
            return True
    return False


def master_has_nested_multiple(m, inside=False):
    for o in m.objects:
        if o.is_disabled:
            continue
        if o.multiple and inside:
            return True
        if o.is_scope and master_has_nested_multiple(o, inside or bool(o.multiple)):
            return True
    return False


def routed(ctx, rng, tree, mt, srcs, lists=0):
    """impl-only stream: the four clauses on a master reached by a route (the Lean model takes master *texts*; a derived master
    carries template flags and object history that no text has)"""
    steps = gen_route(rng, tree, srcs, lists)
    srcs2 = [mgen.SourceGen(rng, lists=lists).text(tree) for _ in range(rng.choice([0, 1, 1, 2]))]
    case = {"master": mt, "route": steps, "sources": srcs2}
    try:
        m = walk_route(freephil.parse(input_string=mt), steps)
        m.fetch().extract()
    except (RuntimeError, freephil.Sorry):
        # a derivation step the library refuses, or a derived master whose own defaults cannot be extracted (two starred
        # alternatives layered over a single choice): not a well-formed master, nothing to evaluate
        ctx.count("route_refused")
        return
    ss = [freephil.parse(input_string=s) for s in srcs2]
    f, d = check(m, ss, None)
    ctx.case((mt, repr(steps), tuple(srcs2)), nontrivial=d is not None and d.as_str() != "")
    ctx.count("routed_master")
    for st in steps:
        if st["op"] != "use":
            ctx.count("route:" + st["op"])
    if f:
        ctx.fail(case, "[master reached by " + "/".join(st["op"] for st in steps) + "] " + f,
                 finding=finding_classes(m, ss, f), model_violates=None)


def run(ctx):
    rng = ctx.rng
    import random
    rng_routes = random.Random(ctx.seed * 1000003 + 8)     # own stream: the base stream stays what it was
    n = ctx.scale(1200, 30000, 6000)
    cases, reqs, impls = [], [], []
    for i in range(n):
        if ctx.time_left() < 30:
            ctx.notes.append("stopped early on time budget")
            break
        nested = i % 4 == 3
        tree, mt, srcs = _fetch.gen(rng, nested=nested)
        m = freephil.parse(input_string=mt)
        ss = [freephil.parse(input_string=s) for s in srcs]
        f, d = check(m, ss, tree)
        if f is None and i % 8 == 0 and srcs:
            f = tool_outputs(m, mt, srcs, ss)
            ctx.count("tool_outputs")
        ctx.case((mt, tuple(srcs)), nontrivial=d is not None and d.as_str() != "")
        isnested = _fetch.has_nested_multiple(tree)
        ctx.count("nested_multiples" if isnested else "plain")
        case = {"master": mt, "sources": srcs}
        if f:
            ctx.fail(case, f, finding=finding_classes(m, ss, f), model_violates=None)
        # correspondence: fetch_diff of the raw sources, and of the printed working set
        reqs.append(_fetch.fetch_req(mt, srcs, diff=True))
        impls.append(_fetch.fetch_impl(m, [freephil.parse(input_string=s_) for s_ in srcs], diff=True))
        cases.append(case)
        try:
            wtxt = m.fetch(sources=ss).as_str()
            ia = _fetch.fetch_impl(m, [freephil.parse(input_string=wtxt)], diff=True)
            reqs.append(_fetch.fetch_req(mt, [wtxt], diff=True))
            impls.append(ia)
            cases.append(case)
        except BaseException:
            pass
        if i % (4 if ctx.mode == "search" else 2) == 1:      # the deep pass is time-boxed: keep most of it for the modelled stream
            routed(ctx, rng_routes, tree, mt, srcs)
        if i % 250 == 0 and d is not None:
            ctx.sample({"master": mt, "sources": srcs, "difference": d.as_str()})
    deprecated_stream(ctx, cases, reqs, impls)
    list_spelling_stream(ctx, cases, reqs, impls)
    resubstitution_stream(ctx)
    if reqs and ctx.mode != "impl-only":
        ctx.corr("fetch_diff", cases, reqs, impls)


def deprecated_stream(ctx, cases, reqs, impls):
    """masters that declare .deprecated parameters (own generator state: the base stream stays what it was); the sources leave
    such a parameter at its default half of the time and set it otherwise -- the second is finding class D47"""
    import random
    rng = random.Random(ctx.seed * 1000003 + 47)
    for i in range(ctx.scale(250, 6000, 1200)):
        if ctx.time_left() < 30:
            break
        tree, mt, srcs = _fetch.gen(rng, nested=False, deprecated=True)
        if ".deprecated = True" not in mt:
            continue
        m = freephil.parse(input_string=mt)
        ss = [freephil.parse(input_string=s) for s in srcs]
        f, d = check(m, ss, tree)
        ctx.case((mt, tuple(srcs)), nontrivial=d is not None and d.as_str() != "")
        ctx.count("deprecated_master")
        if deprecated_parameter_set(m, ss):
            ctx.count("deprecated_parameter_set")
        case = {"master": mt, "sources": srcs}
        if f:
            ctx.fail(case, f, finding=finding_classes(m, ss, f), model_violates=None)
        reqs.append(_fetch.fetch_req(mt, srcs, diff=True))
        impls.append(_fetch.fetch_impl(m, [freephil.parse(input_string=s_) for s_ in srcs], diff=True))
        cases.append(case)


def list_spelling_stream(ctx, cases, reqs, impls):
    """values spelt non-canonically, for the numeric list types (own generator state: the base stream stays what it was): master
    defaults, further instances and source values of ints / floats parameters are drawn from mgen.LIST_SPELLINGS -- enclosing
    brackets in any nesting, commas / semicolons, quoted words, and the EMPTY list (`()`, `[]`, `""`, `","` ...), which is a
    value like any other: W.extract() shows [], so a difference that omits it (or keeps it when [] is the default) is wrong.
    Masters lean towards the numeric list types; the other types stay in (a parameter of another type next to the list)."""
    import random
    rng = random.Random(ctx.seed * 1000003 + 86)
    types = list(mgen.TYPES) + [t for t in mgen.TYPES if mgen.is_number_list(t)] * 3
    for i in range(ctx.scale(300, 7000, 1500)):
        if ctx.time_left() < 30:
            break
        tree, mt, srcs = _fetch.gen(rng, nested=False, lists=0.7, types=types)
        m = freephil.parse(input_string=mt)
        ss = [freephil.parse(input_string=s) for s in srcs]
        f, d = check(m, ss, tree)
        ctx.case((mt, tuple(srcs)), nontrivial=d is not None and d.as_str() != "")
        ctx.count("list_spelling_master")
        k = empty_list_in_working_set(m, ss)
        if k:
            ctx.count("empty_list_in_W:" + k)
        case = {"master": mt, "sources": srcs}
        if f:
            ctx.fail(case, f, finding=finding_classes(m, ss, f), model_violates=None)
        reqs.append(_fetch.fetch_req(mt, srcs, diff=True))
        impls.append(_fetch.fetch_impl(m, [freephil.parse(input_string=s_) for s_ in srcs], diff=True))
        cases.append(case)
        if i % 3 == 0:
            # the same master reached by a route (layered defaults / copies): a derived master holds the list as given
            routed(ctx, rng, tree, mt, srcs, lists=0.7)


def empty_list_in_working_set(m, ss):
    """distribution only: does W hold an empty list, and is the master default of that parameter empty too?"""
    try:
        w = m.fetch(sources=ss)
        md = {}
        for l in m.all_definitions():
            md.setdefault(l.path, l.object)
        out = None
        for l in w.all_definitions():
            if l.object.extract() == [] and l.path in md:
                out = "default_empty" if md[l.path].extract() == [] else "default_not_empty"
                if out == "default_not_empty":
                    return out
        return out
    except BaseException:
        return None


TEXT_TYPES = ("str", "path", "key", "strings", None)


def resubstitution_stream(ctx):
    """impl-only stream for finding class D48: a source holds `$name` inside a single-quoted word (which substitution leaves
    alone) and splices that word into a mixture, which becomes a double-quoted word of W with a live `$`.  `name` is undefined,
    or names a master parameter declared earlier (then the re-merge silently substitutes its value)."""
    import random
    rng = random.Random(ctx.seed * 1000003 + 48)
    for i in range(ctx.scale(120, 3000, 600)):
        if ctx.time_left() < 30:
            break
        tree = mgen.MasterGen(rng, depth=rng.choice([0, 1]), multiples=False, disabled=False).tree()
        mt = mgen.render_master(tree)
        tops = [n for n in tree if n["k"] == "d"]
        targets = [(j, n) for j, n in enumerate(tops) if n["type"] in TEXT_TYPES]
        if not targets:
            continue
        j, n = rng.choice(targets)
        earlier = [e["name"] for e in tops[:j]]
        name = rng.choice(earlier) if earlier and rng.random() < 0.5 else "undefined_x"
        ref = rng.choice(["$zq1", "$(zq1)"])
        mix = rng.choice(['pre%s' % ref, '"pre %s"' % ref, '"%s z"' % ref, 'x%sy' % "$(zq1)"])
        src = "zq1 = '%s'\n%s = %s\n" % (rng.choice(["$" + name, "$(" + name + ")", "a $" + name]), n["name"], mix)
        m = freephil.parse(input_string=mt)
        ss = [freephil.parse(input_string=src)]
        f, d = check(m, ss, tree)
        ctx.case((mt, src), nontrivial=d is not None and d.as_str() != "")
        ctx.count("spliced_dollar")
        if live_dollar_in_working_set(m, ss):
            ctx.count("spliced_dollar_live_in_W")
        if f:
            ctx.fail({"master": mt, "sources": [src]}, f, finding=finding_classes(m, ss, f), model_violates=None)


def finding_still_fails(f):
    w = f["witness"]
    m = walk_route(freephil.parse(input_string=w["master"]), w.get("route", ()))
    r, _ = check(m, [freephil.parse(input_string=s) for s in w["sources"]], None)
    return r is not None


def replay(payload):
    c = payload["failure"]["case"]
    m = walk_route(freephil.parse(input_string=c["master"]), c.get("route", ()))
    r, d = check(m, [freephil.parse(input_string=s) for s in c["sources"]], None)
    print(r)
    return r is None
