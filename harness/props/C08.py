"""C08 — fetch_diff is a faithful and minimal difference."""
from common import freephil, enc
from props import _fetch

LEVEL = "proof"
MODULE = "Phil.Props.C08"
LEVEL_TEXT = ("Lean theorems about the merge model in diff mode: every definition kept in a difference renders differently from "
              "the master default under extract_format (minimality), empty scopes are dropped, the difference of the master's "
              "own defaults is empty; restore (merge the difference back = W on extracted values) is proved for masters without "
              "nested multiples whose working set does not re-list a master-provided further occurrence after a user instance "
              "(partial; witness theorem for finding D10). The model is tied to /repo by a correspondence run of fetch(diff=True) "
              "and of the re-merge; the oracle evaluates the four clauses of the statement on the implementation, incl. the "
              "printed/re-parsed difference.")
LEVEL_NOTE = ("closed form (diff, minimality, restore, fixed point) proved for flat masters; findings on the unchanged tree: D10 "
              "(re-merge reorders a master-provided instance), D42 (floats equal to ten significant digits).")
TECHNIQUE = "Lean 4 theorems on the diff-mode fetch model (minimality, self-diff empty, restore partial) + differential correspondence + oracle"
RULE = ("masters x working parameter sets reachable by fetch from generated sources (added, repeated and template-equal instances of "
        ".multiple objects, choices, Auto/None, non-canonical spellings); non-trivial = the difference is non-empty")
ASSUMPTIONS = ["equality of working sets = equal extract() dumps"]


def check(m, ss, tree):
    try:
        w = m.fetch(sources=ss)
        wd = _fetch.dump(w.extract())
    except BaseException:
        return None, None
    try:
        d = m.fetch_diff(source=w)
    except BaseException as e:
        return "fetch_diff raised %s: %s" % (type(e).__name__, str(e)[:100]), None
    try:
        # minimal: every definition in D differs from the master default
        md = {l.path: l.object for l in m.all_definitions()}
        for l in d.all_definitions():
            mo = md.get(l.path)
            if mo is not None and not mo.multiple:
                a = mo.extract_format(source=l.object).as_str()
                b = mo.extract_format().as_str()
                if a == b:
                    return "difference contains %s although it equals the master default" % l.path, d
        # faithful: merging D back reproduces W's values (as object and from text)
        for label, src in (("object", d), ("text", freephil.parse(input_string=d.as_str()))):
            w2 = m.fetch(source=src)
            if _fetch.dump(w2.extract()) != wd:
                return "merging the difference (%s) back does not reproduce W's extracted values" % label, d
        if m.fetch_diff(source=m.fetch()).as_str() != "":
            return "difference of the master's own defaults is not empty", d
        d2 = m.fetch_diff(source=m.fetch(source=d))
        if d2.as_str() != d.as_str():
            return "difference of the difference-restored W is not D again", d
        # the difference taken directly from the source list (what `phil --diff` does) is as faithful and minimal
        try:
            ds = m.fetch_diff(sources=ss)
        except (RuntimeError, freephil.Sorry):
            return None, d   # a value text the type refuses somewhere in the sources: diffing them is refused
        for l in ds.all_definitions():
            mo = md.get(l.path)
            if mo is not None and not mo.multiple:
                if mo.extract_format(source=l.object).as_str() == mo.extract_format().as_str():
                    return "difference of the sources contains %s although it equals the master default" % l.path, ds
        if _fetch.dump(m.fetch(source=ds).extract()) != wd:
            return "merging the difference of the sources back does not reproduce W's extracted values", ds
    except BaseException as e:
        return "re-merge raised %s: %s" % (type(e).__name__, str(e)[:100]), d
    return None, d


_TOOLDIR = None


def tool_outputs(m, mt, srcs, ss):
    """the difference as the tools hand it out: `phil --diff master user...` (cli.main) and, for fully typed masters, the
    parameter index (get_diff, save_diff); each must be the text of M.fetch_diff(...)"""
    global _TOOLDIR
    import contextlib
    import io
    import os
    import sys
    if _TOOLDIR is None:
        import atexit
        import shutil
        import tempfile
        _TOOLDIR = tempfile.mkdtemp(prefix="verif-c08-", dir="/var/tmp")
        atexit.register(shutil.rmtree, _TOOLDIR, True)
    try:
        want = m.fetch_diff(sources=ss).as_str()
    except (RuntimeError, freephil.Sorry):
        return None
    names = [os.path.join(_TOOLDIR, "master.params")] + [os.path.join(_TOOLDIR, "user%d.params" % i) for i in range(len(srcs))]
    for fn, text in zip(names, [mt] + list(srcs)):
        with open(fn, "w") as f:
            f.write(text)
    from freephil import cli
    buf = io.StringIO()
    argv = sys.argv
    try:
        sys.argv = ["phil", "--diff"] + names
        with contextlib.redirect_stdout(buf):
            cli.main()
    except BaseException as e:
        return "phil --diff raised %s: %s" % (type(e).__name__, str(e)[:80])
    finally:
        sys.argv = argv
    if len(names) >= 2 and buf.getvalue() != want:
        return "phil --diff prints %r, fetch_diff of the same files is %r" % (buf.getvalue()[:80], want[:80])
    try:
        from freephil.interface import index
        with contextlib.redirect_stdout(io.StringIO()):
            idx = index(master_phil=m, working_phil=m.fetch(sources=ss))
    except (RuntimeError, freephil.Sorry):
        return None      # the index wants every parameter typed
    w = m.fetch(sources=ss)
    wantw = m.fetch_diff(source=w).as_str()
    if idx.get_diff().as_str() != wantw:
        return "index.get_diff() differs from M.fetch_diff(W)"
    out = os.path.join(_TOOLDIR, "saved.params")
    idx.save_diff(file_name=out)
    if open(out).read() != wantw:
        return "index.save_diff() wrote %r, M.fetch_diff(W) is %r" % (open(out).read()[:80], wantw[:80])
    return None


def relists_master_instance(tree, srcs):
    """finding class D10: a source repeats a further master occurrence of a multiple definition"""
    for n in tree:
        if n["k"] == "d" and n["multiple"] and n["further"]:
            return True
        if n["k"] == "s" and relists_master_instance(n["kids"], srcs):
            return True
    return False


def float_within_print_precision(m, ss):
    """finding class D42: a float parameter whose working value differs from the master default only beyond the ten
    significant digits that extract_format prints (fetch_diff compares those renderings)"""
    try:
        w = m.fetch(sources=ss)
    except BaseException:
        return False
    md = {l.path: l.object for l in m.all_definitions()}
    for l in w.all_definitions():
        mo = md.get(l.path)
        if mo is None or mo.type is None or mo.type.phil_type not in ("float", "floats"):
            continue
        try:
            v, dv = l.object.extract(), mo.extract()
        except BaseException:
            continue
        vs = v if isinstance(v, list) else [v]
        ds = dv if isinstance(dv, list) else [dv]
        if len(vs) == len(ds):
            for a, b in zip(vs, ds):
                if isinstance(a, float) and isinstance(b, float) and a != b and "%.10g" % a == "%.10g" % b:
                    return True
        elif any(isinstance(a, float) and any(isinstance(b, float) and a != b and "%.10g" % a == "%.10g" % b for b in ds)
                 for a in vs):
            return True
    return False


def run(ctx):
    rng = ctx.rng
    n = ctx.scale(1200, 30000, 6000)
    cases, reqs, impls = [], [], []
    for i in range(n):
        if ctx.time_left() < 30:
            ctx.notes.append("stopped early on time budget")
            break
        nested = i % 4 == 3
        tree, mt, srcs = _fetch.gen(rng, nested=nested)
        m = freephil.parse(input_string=mt)
        ss = [freephil.parse(input_string=s) for s in srcs]
        f, d = check(m, ss, tree)
        if f is None and i % 8 == 0 and srcs:
            f = tool_outputs(m, mt, srcs, ss)
            ctx.count("tool_outputs")
        ctx.case((mt, tuple(srcs)), nontrivial=d is not None and d.as_str() != "")
        isnested = _fetch.has_nested_multiple(tree)
        ctx.count("nested_multiples" if isnested else "plain")
        case = {"master": mt, "sources": srcs}
        if f:
            cls = []
            if isnested:
                cls.append("D8")
            if relists_master_instance(tree, srcs):
                cls.append("D10")
            if float_within_print_precision(m, ss):
                cls.append("D42")
            ctx.fail(case, f, finding=cls, model_violates=None)
        # correspondence: fetch_diff of the raw sources, and of the printed working set
        reqs.append(_fetch.fetch_req(mt, srcs, diff=True))
        impls.append(_fetch.fetch_impl(m, [freephil.parse(input_string=s_) for s_ in srcs], diff=True))
        cases.append(case)
        try:
            wtxt = m.fetch(sources=ss).as_str()
            ia = _fetch.fetch_impl(m, [freephil.parse(input_string=wtxt)], diff=True)
            reqs.append(_fetch.fetch_req(mt, [wtxt], diff=True))
            impls.append(ia)
            cases.append(case)
        except BaseException:
            pass
        if i % 250 == 0 and d is not None:
            ctx.sample({"master": mt, "sources": srcs, "difference": d.as_str()})
    if reqs and ctx.mode != "impl-only":
        ctx.corr("fetch_diff", cases, reqs, impls)


def finding_still_fails(f):
    w = f["witness"]
    m = freephil.parse(input_string=w["master"])
    r, _ = check(m, [freephil.parse(input_string=s) for s in w["sources"]], None)
    return r is not None


def replay(payload):
    c = payload["failure"]["case"]
    m = freephil.parse(input_string=c["master"])
    r, d = check(m, [freephil.parse(input_string=s) for s in c["sources"]], None)
    print(r)
    return r is None
