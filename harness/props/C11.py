"""C11 — choices keep the master's alternatives and select only what was asked."""
from common import freephil, enc, dec, call_j, attr_j, word_j, AutoT, tokenizer
from values import pval_j

LEVEL = "proof"
MODULE = "Phil.Props.C11"
LEVEL_TEXT = 'Lean theorems about the choice model, for all alternative lists distinct up to case and all source word lists: alternatives preserved with order and quoting, the starred set is the requested set, an unknown selected name raises Sorry carrying all alternatives, extraction clauses (single_at_most_one, mandatory_never_empty); and inside the fetch closed form at any depth for any number of sources (fetch_tree_choice_total): the LAST matching source decides (choice_value_at_depth), EVERY matching source is checked (choice_unknown_anywhere_fails), choice_alts_preserved_at_depth. Tied to /repo by a correspondence run of fetch+extract on one choice definition, on several sources per parameter and on source OBJECTS built through the API (twelve routes x four deliveries); the oracle evaluates the clauses on the implementation.'
LEVEL_NOTE = "Alternatives equal up to case (finding D19) are outside the theorems' hypothesis and visited in their own stream. A single unstarred alternative is starred by a re-fetch (by design: the star is optional for one value)."
TECHNIQUE = 'Lean 4 theorems on the choice fetch/extract model and on choices inside the fetch closed form + differential correspondence + clause-by-clause oracle'
RULE = ("alternative lists (2..5 names, any default stars, quoted or not) x single/multi x optional {None,True,False} x source "
        "spellings (starred subsets, bare single names in any case, a+b forms, None, Auto, unknown names starred or not, quoted "
        "names, repeated names) x 1..4 matching sources per parameter in four layouts; x source definition OBJECTS made through "
        "the API (try_tokenize, customized_copy, copy/deepcopy/pickle + words, edited or handed-back working phil, constructed, "
        "text with its own .type; incl. empty word lists and 1-alternative masters) delivered by definition.fetch / hand-built "
        "scopes / adopt / after a text source; x further instances of a .multiple choice in the master, with and without a "
        "repeated .type line; non-trivial = the source selects or names something; distinct = (master, source[s], route)")
ASSUMPTIONS = ["alternative names are identifiers or quoted strings without '*' or '+'"]
NAMES = ["a", "b", "c", "dd", "Ee", "x_y", "none1", "q r", "z.9"]


def master_text(rng, dup_case=False, k=None):
    k = rng.randint(2, 5) if k is None else k
    names = rng.sample(NAMES, k)
    if dup_case:
        names[1] = names[0].upper() if names[0].upper() != names[0] else names[0].lower()
    ws = []
    for n in names:
        star = "*" if rng.random() < 0.3 else ""
        if " " in n or rng.random() < 0.15:
            ws.append('"%s%s"' % (star, n))
        else:
            ws.append(star + n)
    multi = rng.random() < 0.5
    opt = rng.choice([None, True, False])
    text = "v = " + " ".join(ws) + "\n  .type = choice%s\n" % ("(multi=True)" if multi else "")
    if opt is not None:
        text += "  .optional = %s\n" % opt
    return text, names, multi, opt


def source_text(rng, names, extra=None):
    pool = names + (["zz", "A", "B", "none", "None", "Auto", "auto", "", "q"] if extra is None else extra)
    k = rng.random()
    if k < 0.1:
        return rng.choice(["None", "none", "Auto", "auto", "NONE"])
    if k < 0.3:
        n = rng.choice(pool) or "a"
        n = rng.choice([n, n.upper(), n.lower(), n.capitalize()])
        return rng.choice([n, "*" + n, '"%s"' % n, "'*%s'" % n]) if " " not in n else '"%s"' % n
    if k < 0.5:
        parts = [rng.choice(pool) or "b" for _ in range(rng.randint(2, 4))]
        parts = [p for p in parts if " " not in p]
        return rng.choice(["+", " + ", "+ ", " +"]).join(parts or ["a"])
    ws = []
    for _ in range(rng.randint(1, 5)):
        n = rng.choice(pool) or "c"
        star = "*" if rng.random() < 0.5 else ""
        if " " in n or rng.random() < 0.15:
            ws.append('"%s%s"' % (star, n))
        else:
            ws.append(star + n)
    return " ".join(ws)


def unstar(v):
    return v[1:] if v.startswith("*") else v


def oracle(mdef, names, multi, opt, src_words, result, err):
    """clauses of the statement on the implementation's outcome; None or description"""
    low = [n.lower() for n in names]
    distinct = len(set(low)) == len(low)
    mandatory = opt is False
    plain_none = len(src_words) == 1 and src_words[0].quote_token is None and src_words[0].value.lower() == "none"
    plain_auto = len(src_words) == 1 and src_words[0].quote_token is None and src_words[0].value.lower() == "auto"
    if err is not None:
        if isinstance(err, freephil.Sorry):
            msg = str(err)
            for w in mdef.words:
                if w.value not in msg:
                    return "Sorry message does not list alternative %r" % w.value
            if not plain_auto and not (plain_none and not mandatory):
                r = requested(names, src_words)
                if r is not None and r != "skip":
                    return "refused although every selected name is an alternative"
            return None
        if type(err) is RuntimeError:
            return None
        return "raised %s" % type(err).__name__
    if plain_auto:
        return None if [w.value for w in result.words] == ["Auto"] else "Auto source did not give Auto"
    got = [(unstar(w.value), w.quote_token) for w in result.words]
    want = [(unstar(w.value), w.quote_token) for w in mdef.words]
    if got != want:
        return "alternatives changed: %r (master %r)" % (got, want)
    starred = [unstar(w.value) for w in result.words if w.value.startswith("*")]
    # requested set
    if plain_none and not mandatory:
        req = []
    else:
        req = requested(names, src_words)
    if req == "skip":
        pass
    elif req is None:
        return "a selected name is not an alternative, yet no error was raised (result %r)" % ([w.value for w in result.words],)
    else:
        want_star = [n for n in names if n in req]
        if starred != want_star:
            return "starred %r, requested %r" % (starred, want_star)
    # extraction
    try:
        v = result.extract()
    except RuntimeError:
        return None
    if multi:
        if not isinstance(v, list):
            return "multi choice extracted %r" % (v,)
        if v != starred:
            return "multi choice extracted %r, starred %r" % (v, starred)
        if mandatory and not v:
            return "mandatory multi choice extracted an empty list"
    else:
        if isinstance(v, list):
            return "single choice extracted a list"
        if mandatory and v is None:
            return "mandatory single choice extracted None"
        if v is not None and v != (starred[0] if starred else None):
            return "single choice extracted %r, starred %r" % (v, starred)
    return None


def requested(names, src_words):
    """independent reading of the statement: the alternatives (exact names) the source selects, as a set of
    master names; None when a selected name is not an alternative (the error clause applies)"""
    quoted_or_star = any(w.quote_token is not None or w.value.startswith("*") for w in src_words)
    joined = "".join(w.value for w in src_words)
    tokens = []
    plus = False
    if not quoted_or_star and "+" in joined and all(p.strip() for p in joined.split("+")[1:]):
        plus = True
        for w in src_words:
            for p in w.value.split("+"):
                if p:
                    tokens.append((p, True))
    else:
        for w in src_words:
            if w.value.startswith("*"):
                tokens.append((w.value[1:], True))
            else:
                tokens.append((w.value, len(src_words) == 1))
    for t, f in tokens:  # every selected occurrence must name an alternative
        if f and not [n for n in names if n.lower() == t.lower()]:
            return None
        if plus and t.lower() != t:
            return "skip"  # a+b form with upper-case letters: refused by design of the + form
    last = {}
    for t, f in tokens:  # the last occurrence of a name decides
        last[t.lower()] = (t, f)
    chosen = set()
    for t, f in last.values():
        if not f:
            continue
        exact = [n for n in names if n == t]
        ci = [n for n in names if n.lower() == t.lower()]
        if plus and t.lower() != t and not exact:
            return "skip"  # a+b form with upper-case letters: refused by design of the + form
        hit = exact or ci
        if not hit:
            return None
        chosen.update(hit[:1] if exact else ci[:1] if len(ci) == 1 else ci)
    return chosen


def run(ctx):
    rng = ctx.rng
    n = ctx.scale(4000, 120000, 20000)
    cases, reqs, impls = [], [], []
    recent = []
    for i in range(n):
        if ctx.time_left() < 25:
            ctx.notes.append("stopped early on time budget")
            break
        d19 = i % 20 == 19
        mtext, names, multi, opt = master_text(rng, dup_case=d19)
        stext = source_text(rng, names)
        try:
            m = freephil.parse(input_string=mtext)
            src = freephil.parse(input_string="v = " + stext + "\n")
        except BaseException:
            ctx.count("unparseable")
            continue
        mdef = m.objects[0]
        if len(src.objects) != 1 or not src.objects[0].is_definition:
            continue
        sw = src.objects[0].words
        ctx.case((mtext, stext), nontrivial=stext.lower() not in ("none", "auto"))
        ctx.count("multi" if multi else "single")
        ctx.count("optional_%s" % opt)
        err = None
        result = None
        try:
            result = m.fetch(source=src).objects[0]
        except BaseException as e:
            err = e
        ctx.count("outcome_" + ("ok" if err is None else type(err).__name__))
        f = oracle(mdef, names, multi, opt, sw, result, err)
        ia = call_j(lambda: m.fetch(source=src).objects[0], lambda r: [word_j(w) for w in r.words])
        if ia[0] == "err" and ia[1] == "sorry":
            ia = ["err", "sorry", "not_a_possible_choice", [enc(w.value) for w in mdef.words]] \
                if ia[2].startswith("Not a possible choice") else ia
        recent.append((mtext, stext, multi, outcome_key(ia)))
        if i % 4 == 3 and not d19:
            f2 = check_composite(rng, recent[-6:])
            if f2:
                ctx.count("composite_failures")
                ctx.fail(f2[0], f2[1])
            ctx.count("composite_masters")
        del recent[:-6]
        cases.append({"master": mtext, "source": stext, "fail": f, "d19": d19})
        reqs.append(["choice_fetch", [word_j(w) for w in mdef.words], attr_j(mdef.optional), [word_j(w) for w in sw], False])
        impls.append(ia)
        if i % 800 == 0:
            ctx.sample({"master": mtext, "source": stext, "result": None if result is None else result.as_str()})
        if len(reqs) >= 5000:
            flush(ctx, cases, reqs, impls)
            cases, reqs, impls = [], [], []
    flush(ctx, cases, reqs, impls)
    run_multi(ctx)
    run_routes(ctx)
    run_instances(ctx)


# ---- several matching sources for one choice parameter ("the last matching source" clause) ----------------------------

MULTI_FORMS = ["sources", "repeat", "scoped", "reopened"]


def multi_case(rng):
    """one choice parameter, 2..4 source assignments for it (each a spelling of `source_text`), some of them commented
    out, laid out as separate entries of sources=[...], as repeated assignments in one source, below a scope (dotted
    and braced spellings) or in a scope that is opened twice. Returns master text, parameter path, list of source texts,
    and the (value text, active) records in matching order."""
    mtext, names, multi, opt = master_text(rng)
    form = rng.choice(MULTI_FORMS)
    k = rng.choice([2, 2, 2, 3, 3, 4])
    recs = []
    mostly_valid = rng.random() < 0.55  # otherwise nearly every merge has some source that is refused
    for _ in range(k):
        extra = [] if mostly_valid and rng.random() < 0.85 else None
        recs.append((source_text(rng, names, extra), rng.random() >= 0.15))
    if not any(a for _, a in recs) and rng.random() < 0.8:
        recs[rng.randrange(k)] = (recs[0][0], True)

    def assign(path, rec):
        return "%s%s = %s\n" % ("" if rec[1] else "!", path, rec[0])
    if form == "sources":
        path = "v"
        srcs = [assign("v", r) for r in recs]
    elif form == "repeat":
        path = "v"
        cut = rng.randint(1, k)  # the first `cut` assignments in one source, the rest in a second one (if any)
        srcs = ["".join(assign("v", r) for r in recs[:cut])] + (["".join(assign("v", r) for r in recs[cut:])] if cut < k else [])
    else:
        path = "s.v"
        mtext = "s {\n%s}\n" % mtext
        if form == "scoped":
            srcs = [rng.choice([assign("s.v", r), "s {\n%s}\n" % assign("v", r)]) for r in recs]
        else:
            srcs = ["".join("s {\n%s}\n" % assign("v", r) for r in recs)]
    return mtext, path, names, multi, opt, form, srcs, recs


def is_plain(words, what):
    return len(words) == 1 and words[0].quote_token is None and words[0].value.lower() == what


def selects_unknown(names, opt, words):
    """the error clause of the statement applies to this source: a name it selects is not an alternative"""
    if is_plain(words, "auto") or (is_plain(words, "none") and opt is not False):
        return False
    return requested(names, words) is None


def multi_oracle(mdef, names, multi, opt, active, result, err):
    """clauses of the statement for a merge in which `active` (word lists, matching order) are the matching sources:
    every source is subject to the error clause, the last one decides the selection"""
    unknown = [i for i, w in enumerate(active) if selects_unknown(names, opt, w)]
    if err is None:
        if unknown:
            return ("matching source #%d of %d (%r) selects a name that is not an alternative, yet no error was raised "
                    "(result %r)" % (unknown[0] + 1, len(active), " ".join(str(w) for w in active[unknown[0]]),
                                     [w.value for w in result.words]))
        if not active:
            if [(w.value, w.quote_token) for w in result.words] != [(w.value, w.quote_token) for w in mdef.words]:
                return "no active matching source, yet the result differs from the master"
            return None
        return oracle(mdef, names, multi, opt, active[-1], result, None)
    if type(err) is RuntimeError:
        return None
    if not isinstance(err, freephil.Sorry):
        return "raised %s" % type(err).__name__
    whats = [oracle(mdef, names, multi, opt, w, None, err) for w in active]
    if not active or all(whats):
        return whats[0] if whats else "refused without any active matching source"
    return None


def run_multi(ctx):
    import random
    from props import _fetch
    rng = random.Random("C11-multi-%d-%s" % (ctx.seed, ctx.mode))
    n = ctx.scale(1500, 40000, 8000)
    cases, reqs, impls, fails = [], [], [], []

    def flush_multi():
        if not reqs:
            return
        answers = [None] * len(reqs)
        if ctx.mode != "impl-only":
            answers = ctx.corr("choice_fetch_multi", cases, reqs, impls, proj=lambda r: [r[0], r[2]])
        for c, a, i, f in zip(cases, answers, impls, fails):
            if f:
                agrees = None
                if a is not None and a[0] not in ("unsupported", "parse-failed", "type-failed"):
                    agrees = (a[0] == i[0]) if "ok" not in (a[0], i[0]) else (a[0] == i[0] and [a[1][0], a[1][2]] == [i[1][0], i[1][2]])
                ctx.fail(c, f, model_violates=agrees)
        del cases[:], reqs[:], impls[:], fails[:]
    for i in range(n):
        if ctx.time_left() < 25:
            ctx.notes.append("multi-source stream stopped early on time budget")
            break
        mtext, path, names, multi, opt, form, srcs, recs = multi_case(rng)
        try:
            m = freephil.parse(input_string=mtext)
            ss = [freephil.parse(input_string=s) for s in srcs]
            wl = [freephil.parse(input_string="v = %s\n" % t).objects for t, _ in recs]
        except BaseException:
            ctx.count("multi_unparseable")
            continue
        if any(len(o) != 1 or not o[0].is_definition for o in wl):
            continue
        active = [o[0].words for o, (_, a) in zip(wl, recs) if a]
        mdef = m.get(path).objects[0]
        ctx.case(("multi", mtext, tuple(srcs)), nontrivial=bool(active))
        ctx.count("multi_cases")
        ctx.count("multi_form_" + form)
        ctx.count("multi_active_%d" % len(active))
        unknown = [j for j, w in enumerate(active) if selects_unknown(names, opt, w)]
        if unknown and unknown[-1] < len(active) - 1:
            ctx.count("multi_unknown_in_earlier_source")
        err = result = None
        try:
            result = m.fetch(sources=ss).get(path).objects[0]
        except BaseException as e:
            if isinstance(e, (KeyboardInterrupt, MemoryError)):
                raise
            err = e
        ctx.count("multi_outcome_" + ("ok" if err is None else type(err).__name__))
        f = multi_oracle(mdef, names, multi, opt, active, result, err)
        cases.append({"master": mtext, "sources": srcs, "form": form})
        fails.append(f)
        reqs.append(_fetch.fetch_req(mtext, srcs))
        impls.append(_fetch.fetch_impl(m, ss))
        if i % 400 == 0:
            ctx.sample({"master": mtext, "sources": srcs, "result": None if result is None else result.as_str()})
        if len(reqs) >= 2000:
            flush_multi()
    flush_multi()


# ---- sources that are not parsed text ("any source"): definition objects made through the API ------------------------------

ROUTES = ["parsed", "typed_text", "typed_text_other", "constructed", "tokenize", "customized_copy", "copy_assign",
          "working_assign", "working_customized", "deepcopy_assign", "pickle_assign", "tokenize_of_copy", "refetch"]
DELIVERIES = ["definition.fetch", "scope(objects=[...])", "adopt", "sources_after_text"]


def parsed_words(stext):
    if not stext.strip():
        return []  # no text source can say this; an object made through the API can
    src = freephil.parse(input_string="v = " + stext + "\n")
    if len(src.objects) != 1 or not src.objects[0].is_definition:
        return None
    return src.objects[0].words


def build_source(route, m, mdef, path, stext, multi):
    """a source DEFINITION OBJECT carrying the value `stext`, made the way `route` says; None when the route does not
    apply to this text. The merge may depend on the words of the source only, never on how the object came about
    (which converter object, attributes, parent, flags it carries)."""
    import copy
    import pickle
    if route == "tokenize" or route == "tokenize_of_copy":  # the GUI way: user input tokenized against the master definition
        d = mdef if route == "tokenize" else mdef.copy()
        proxy = d.try_tokenize(input_string=stext, source_info="user input")
        return None if proxy.error_message is not None else proxy.tokenized
    words = parsed_words(stext)
    if words is None:
        return None
    if not words and route in ("parsed", "typed_text", "typed_text_other"):
        return None
    if route == "parsed":
        return freephil.parse(input_string="v = " + stext + "\n").objects[0]
    if route == "typed_text":  # a text source that declares the type itself (a converter object of its own)
        return freephil.parse(input_string="v = %s\n  .type = choice%s\n" % (stext, "(multi=True)" if multi else "")).objects[0]
    if route == "typed_text_other":  # ... and one that declares the other flavour
        return freephil.parse(input_string="v = %s\n  .type = choice%s\n  .optional = True\n"
                              % (stext, "" if multi else "(multi=True)")).objects[0]
    if route == "constructed":
        return freephil.definition(name="v", words=words)
    if route == "customized_copy":
        return mdef.customized_copy(words=words)
    if route == "copy_assign":
        d = mdef.copy()
        d.words = words
        return d
    if route in ("working_assign", "working_customized"):  # a definition of a working phil (fetched earlier), edited
        w = m.fetch().get(path).objects[0]
        if route == "working_customized":
            return w.customized_copy(words=words)
        w.words = words
        return w
    if route == "refetch":  # the result of merging the text, handed back as a source (working phil fed back in)
        try:
            return m.fetch(source=freephil.parse(input_string="%s = %s\n" % (path, stext))).get(path).objects[0]
        except BaseException as e:
            if isinstance(e, (KeyboardInterrupt, MemoryError)):
                raise
            return None
    if route == "deepcopy_assign":
        d = copy.deepcopy(mdef)
        d.words = words
        return d
    if route == "pickle_assign":
        d = pickle.loads(pickle.dumps(mdef))
        d.words = words
        return d
    raise ValueError(route)


def deliver(how, m, mdef, path, sdef):
    """merge the source definition object into the master parameter; returns the resulting definition"""
    if how == "definition.fetch":
        return mdef.fetch(source=sdef)
    comps = path.split(".")
    if how == "scope(objects=[...])":
        inner = sdef
        for c in reversed(comps[:-1]):
            inner = freephil.scope(name=c, objects=[inner])
        return m.fetch(source=freephil.scope(name="", objects=[inner])).get(path).objects[0]
    root = freephil.parse(input_string="".join("%s {\n" % c for c in comps[:-1]) + "}\n" * (len(comps) - 1))
    at = root
    for c in comps[:-1]:
        at = at.objects[0]
    at.adopt(sdef)
    if how == "adopt":
        return m.fetch(source=root).get(path).objects[0]
    if how == "sources_after_text":  # after a text source that repeats the master's default
        first = freephil.parse(input_string="%s = %s\n" % (path, " ".join(str(w) for w in mdef.words)))
        return m.fetch(sources=[first, root]).get(path).objects[0]
    raise ValueError(how)


def route_outcome(how, m, mdef, path, sdef):
    err = result = None
    try:
        result = deliver(how, m, mdef, path, sdef)
    except BaseException as e:
        if isinstance(e, (KeyboardInterrupt, MemoryError)):
            raise
        err = e
    return result, err


def words_key(words):
    return [(w.value, w.quote_token) for w in words]


def route_case(rng):
    """master (1..5 alternatives; in a scope or not), a source spelling, a route, a delivery"""
    mtext, names, multi, opt = master_text(rng, k=1 if rng.random() < 0.12 else None)
    path = "v"
    if rng.random() < 0.4:
        path = "s.v"
        mtext = "s {\n%s}\n" % mtext
    k = rng.random()
    if k < 0.08:
        stext = ""  # nothing typed
    elif k < 0.2:  # what a front-end hands back: the master's own list, stars moved
        ws = []
        for nm in names:
            star = "*" if rng.random() < 0.4 else ""
            ws.append('"%s%s"' % (star, nm) if " " in nm else star + nm)
        stext = " ".join(ws)
    else:
        stext = source_text(rng, names, [] if rng.random() < 0.6 else None)
    return mtext, path, names, multi, opt, stext


def run_routes(ctx):
    import random
    rng = random.Random("C11-routes-%d-%s" % (ctx.seed, ctx.mode))
    n = ctx.scale(700, 20000, 1200)
    cases, reqs, impls, fails = [], [], [], []

    def flush_routes():
        if not reqs:
            return
        answers = [None] * len(reqs)
        if ctx.mode != "impl-only":
            answers = ctx.corr("choice_fetch_route", cases, reqs, impls)
        for c, a, i, f in zip(cases, answers, impls, fails):
            if f:
                ctx.fail(c, f, model_violates=None if (a is None or a[0] in ("unsupported", "parse-failed", "type-failed"))
                         else (a == i))
        del cases[:], reqs[:], impls[:], fails[:]
    for i in range(n):
        if ctx.time_left() < 25:
            ctx.notes.append("source-route stream stopped early on time budget")
            break
        mtext, path, names, multi, opt, stext = route_case(rng)
        try:
            m = freephil.parse(input_string=mtext)
        except BaseException:
            ctx.count("route_unparseable")
            continue
        mdef = m.get(path).objects[0]
        master_before = words_key(mdef.words)
        reference = {}  # words of the source -> outcome through plain parsed text
        for route in ["parsed"] + rng.sample(ROUTES[1:], 4):
            try:
                sdef = build_source(route, m, mdef, path, stext, multi)
            except BaseException as e:
                if isinstance(e, (KeyboardInterrupt, MemoryError)):
                    raise
                ctx.count("route_source_not_built")
                continue
            if sdef is None:
                ctx.count("route_not_applicable")
                continue
            sw = list(sdef.words)
            for how in (DELIVERIES if route == "parsed" else rng.sample(DELIVERIES, 2)):
                case = {"master": mtext, "source_value": stext, "route": route, "delivery": how}
                ctx.case(("route", mtext, stext, route, how), nontrivial=stext.lower() not in ("none", "auto"))
                ctx.count("route_cases")
                ctx.count("route_" + route)
                ctx.count("route_delivery_" + how)
                if len(names) == 1:
                    ctx.count("route_one_alternative")
                result, err = route_outcome(how, m, mdef, path, sdef)
                ctx.count("route_outcome_" + ("ok" if err is None else type(err).__name__))
                f = oracle(mdef, names, multi, opt, sw, result, err)
                if f is None and words_key(mdef.words) != master_before:
                    f = "the merge changed the master's own alternatives to %r" % (words_key(mdef.words),)
                if f is None and words_key(sdef.words) != words_key(sw):
                    f = "the merge changed the source's words to %r" % (words_key(sdef.words),)
                ia = call_j(lambda: deliver(how, m, mdef, path, sdef), lambda r: [word_j(w) for w in r.words])
                if ia[0] == "err" and ia[1] == "sorry" and ia[2].startswith("Not a possible choice"):
                    ia = ["err", "sorry", "not_a_possible_choice", [enc(w.value) for w in mdef.words]]
                key = repr(words_key(sw))
                if route == "parsed" and key not in reference:
                    reference[key] = outcome_key(ia)
                elif f is None and key in reference and outcome_key(ia) != reference[key]:
                    f = ("outcome depends on how the source object was made: %r, but %r for the same words parsed from text"
                         % (outcome_key(ia), reference[key]))
                cases.append(case)
                fails.append(f)
                reqs.append(["choice_fetch", [word_j(w) for w in mdef.words], attr_j(mdef.optional), [word_j(w) for w in sw], False])
                impls.append(ia)
        if i % 200 == 0:
            ctx.sample({"master": mtext, "source_value": stext, "routes": ROUTES, "deliveries": DELIVERIES})
        if len(reqs) >= 4000:
            flush_routes()
    flush_routes()


# ---- further instances of a `.multiple` choice parameter written in the master itself act as sources -------------------

def inst_key(names, opt, words):
    """what one further instance asks for: 'Auto', a tuple of master names (in master order), None = a selected name is
    not an alternative, 'skip' = the + form with upper-case letters"""
    if is_plain(words, "auto"):
        return "Auto"
    if is_plain(words, "none") and opt is not False:
        return ()
    r = requested(names, words)
    if r is None or r == "skip":
        return r
    return tuple(n for n in names if n in r)


def instances_oracle(mdef, names, multi, opt, inst_words, objs, err):
    keys = [inst_key(names, opt, w) for w in inst_words]
    if err is not None:
        if type(err) is RuntimeError:
            return None
        if not isinstance(err, freephil.Sorry):
            return "raised %s" % type(err).__name__
        whats = [oracle(mdef, names, multi, opt, w, None, err) for w in inst_words]
        return whats[0] if all(whats) else None
    if None in keys:
        return "a further instance selects a name that is not an alternative, yet no error was raised"
    if not objs or words_key(objs[0].words) != words_key(mdef.words):
        return "the declaration itself is not the first instance of the result"
    want = [(unstar(w.value), w.quote_token) for w in mdef.words]
    got_keys = []
    for o in objs[1:]:
        if words_key(o.words) == [("Auto", None)]:
            got_keys.append("Auto")
            continue
        if [(unstar(w.value), w.quote_token) for w in o.words] != want:
            return "an instance of the result does not list the master's alternatives: %r (master %r)" % (words_key(o.words), want)
        got_keys.append(tuple(unstar(w.value) for w in o.words if w.value.startswith("*")))
    if "skip" in keys:
        return None
    default = tuple(unstar(w.value) for w in mdef.words if w.value.startswith("*"))
    if len(set(got_keys)) != len(got_keys) or set(got_keys) != set(keys) - {default}:
        return "instances select %r, the further instances asked for %r (default %r)" % (got_keys, keys, default)
    return None


def instances_texts(rng, mtext, path, multi, values):
    """the master with `.multiple = True` and one further instance per value; twice: bare assignments, and assignments that
    repeat the `.type` line (or only some of them do)"""
    inner = mtext[len("s {\n"):-len("}\n")] if path == "s.v" else mtext
    typ = "  .type = choice%s\n" % ("(multi=True)" if multi else "")
    some = [rng.random() < 0.7 for _ in values]
    if not any(some):
        some[rng.randrange(len(some))] = True
    out = []
    for typed in (False, True):
        t = inner + "  .multiple = True\n" + "".join("v = %s\n%s" % (v, typ if typed and sm else "") for v, sm in zip(values, some))
        out.append("s {\n%s}\n" % t if path == "s.v" else t)
    return out


def run_instances(ctx):
    import random
    from props import _fetch
    rng = random.Random("C11-instances-%d-%s" % (ctx.seed, ctx.mode))
    n = ctx.scale(500, 15000, 800)
    cases, reqs, impls, fails = [], [], [], []

    def flush_inst():
        if not reqs:
            return
        answers = [None] * len(reqs)
        if ctx.mode != "impl-only":
            answers = ctx.corr("choice_fetch_master_instances", cases, reqs, impls, proj=lambda r: [r[0], r[2]])
        for c, a, i, f in zip(cases, answers, impls, fails):
            if f:
                agrees = None
                if a is not None and a[0] not in ("unsupported", "parse-failed", "type-failed"):
                    agrees = (a[0] == i[0]) if "ok" not in (a[0], i[0]) else (a[0] == i[0] and [a[1][0], a[1][2]] == [i[1][0], i[1][2]])
                ctx.fail(c, f, model_violates=agrees)
        del cases[:], reqs[:], impls[:], fails[:]
    for i in range(n):
        if ctx.time_left() < 25:
            ctx.notes.append("master-instance stream stopped early on time budget")
            break
        mtext, path, names, multi, opt, _ = route_case(rng)
        values = []
        for _ in range(rng.choice([1, 1, 2, 3])):
            v = source_text(rng, names, [] if rng.random() < 0.8 else None)
            values.append(v)
        try:
            iw = [parsed_words(v) for v in values]
            if any(not w for w in iw):
                continue
            plain, typed = instances_texts(rng, mtext, path, multi, values)
            mdef = freephil.parse(input_string=mtext).get(path).objects[0]
            ms = [freephil.parse(input_string=t) for t in (plain, typed)]
        except BaseException:
            ctx.count("instances_unparseable")
            continue
        seen = []
        for t, m in zip((plain, typed), ms):
            ctx.case(("instances", t), nontrivial=True)
            ctx.count("instances_cases")
            objs = err = None
            try:
                objs = m.fetch().get(path).objects
            except BaseException as e:
                if isinstance(e, (KeyboardInterrupt, MemoryError)):
                    raise
                err = e
            ctx.count("instances_outcome_" + ("ok" if err is None else type(err).__name__))
            f = instances_oracle(mdef, names, multi, opt, iw, objs, err)
            seen.append(type(err).__name__ if err is not None else [words_key(o.words) for o in objs])
            if f is None and len(seen) == 2 and seen[0] != seen[1]:
                f = ("outcome depends on whether the further instances repeat the .type line: %r, without it %r"
                     % (seen[1], seen[0]))
            cases.append({"master": t, "sources": [], "instances": values, "bare": plain})
            fails.append(f)
            reqs.append(_fetch.fetch_req(t, []))
            impls.append(_fetch.fetch_impl(m, []))
        if i % 200 == 0:
            ctx.sample({"master": typed, "instances": values})
        if len(reqs) >= 2000:
            flush_inst()
    flush_inst()


def outcome_key(ia):
    """outcome of one choice fetch without line numbers"""
    if ia[0] == "ok":
        return ("ok", tuple((w[0], w[1]) for w in ia[1]))
    return tuple(str(x) for x in ia[:3])


def fetch_outcome(m, src, path):
    ia = call_j(lambda: m.fetch(source=src).get(path).objects[0], lambda r: [word_j(w) for w in r.words])
    if ia[0] == "err" and ia[1] == "sorry" and ia[2].startswith("Not a possible choice"):
        ia = ["err", "sorry", "not_a_possible_choice"]
    return outcome_key(ia)


def check_composite(rng, recs):
    """the same choice parameters as members of ONE master (same leaf name `v` in sibling scopes, one converter object
    per type expression), addressed by successive fetches on that master object and then all at once: every outcome must
    be the one the parameter has in isolation (which is the outcome compared with the model)"""
    recs = [r for r in recs if r[2] == recs[-1][2]][-3:]
    if len(recs) < 2:
        return None
    mt = "".join("s%d {\n%s}\n" % (j, r[0]) for j, r in enumerate(recs))
    try:
        m = freephil.parse(input_string=mt)
    except BaseException as e:
        return ({"master": mt}, "composite master does not parse: %s" % e)
    order = list(range(len(recs)))
    rng.shuffle(order)
    for j in order + order[:1]:
        st = "s%d.v = %s\n" % (j, recs[j][1])
        got = fetch_outcome(m, freephil.parse(input_string=st), "s%d.v" % j)
        want = recs[j][3]
        if want[0] == "err" and want[2] == "not_a_possible_choice":
            want = want[:3]
        if got != want:
            return ({"master": mt, "source": st, "order": order},
                    "parameter s%d.v inside a master with same-named choice parameters: %r, in isolation: %r" % (j, got, want))
    oks = [j for j in order if recs[j][3][0] == "ok"]
    if len(oks) >= 2:
        st = "".join("s%d.v = %s\n" % (j, recs[j][1]) for j in oks)
        try:
            r = m.fetch(source=freephil.parse(input_string=st))
        except BaseException as e:
            return ({"master": mt, "source": st}, "fetch of individually accepted selections raised %s: %s" % (type(e).__name__, e))
        for j in oks:
            got = ("ok", tuple((w.value, None if w.quote_token is None else w.quote_token)
                               for w in r.get("s%d.v" % j).objects[0].words))
            want = ("ok", tuple((dec(w[0]), w[1]) for w in recs[j][3][1]))
            if [x[0] for x in got[1]] != [x[0] for x in want[1]]:
                return ({"master": mt, "source": st}, "parameter s%d.v fetched together with its siblings: %r, in isolation: %r"
                        % (j, got[1], want[1]))
    return None


def flush(ctx, cases, reqs, impls):
    if not reqs:
        return
    answers = [None] * len(reqs)
    if ctx.mode != "impl-only":
        answers = ctx.corr("choice_fetch", [{"master": c["master"], "source": c["source"]} for c in cases], reqs, impls)
    for c, a, i in zip(cases, answers, impls):
        if c["fail"]:
            ctx.fail({"master": c["master"], "source": c["source"]}, c["fail"], finding="D19" if c["d19"] else None,
                     model_violates=None if (a is None or a[0] in ('unsupported', 'parse-failed', 'type-failed')) else (a == i))


def finding_still_fails(f):
    w = f["witness"]
    try:
        m = freephil.parse(input_string=w["master"])
        r = m.fetch(source=freephil.parse(input_string=w["source"])).objects[0]
    except Exception:  # a tree on which the witness does not even run: the finding covers nothing there
        return False
    return [x.value for x in r.words] == w["observed"]


def replay_object_source(c):
    m = freephil.parse(input_string=c["master"])
    path = "s.v" if m.objects[0].is_scope else "v"
    mdef = m.get(path).objects[0]
    names = [unstar(w.value) for w in mdef.words]
    multi = mdef.type.multi
    if "instances" in c:
        objs = err = None
        try:
            objs = m.fetch().get(path).objects
        except BaseException as e:
            err = e
        f = instances_oracle(mdef, names, multi, mdef.optional, [parsed_words(v) for v in c["instances"]], objs, err)
        print("outcome:", "\n".join(o.as_str() for o in objs) if err is None else "%s: %s" % (type(err).__name__, err))
        if f is None:  # the same master with bare further instances (no repeated .type line)
            bare = freephil.parse(input_string=c["bare"])
            try:
                other = [words_key(o.words) for o in bare.fetch().get(path).objects]
            except BaseException as e:
                other = type(e).__name__
            if other != (type(err).__name__ if err is not None else [words_key(o.words) for o in objs]):
                f = "outcome depends on whether the further instances repeat the .type line: without it %r" % (other,)
    else:
        sdef = build_source(c["route"], m, mdef, path, c["source_value"], multi)
        sw = list(sdef.words)
        print("source object: route %s, words %r, delivered by %s" % (c["route"], words_key(sw), c["delivery"]))
        result, err = route_outcome(c["delivery"], m, mdef, path, sdef)
        f = oracle(mdef, names, multi, mdef.optional, sw, result, err)
        print("outcome:", result.as_str() if err is None else "%s: %s" % (type(err).__name__, err))
        if f is None and c["route"] != "parsed" and sw and c["route"] != "refetch":
            ref = build_source("parsed", m, mdef, path, c["source_value"], multi)
            if ref is not None and words_key(ref.words) == words_key(sw):
                r2, e2 = route_outcome(c["delivery"], m, mdef, path, ref)
                a = type(err).__name__ if err is not None else words_key(result.words)
                b = type(e2).__name__ if e2 is not None else words_key(r2.words)
                if a != b:
                    f = "outcome depends on how the source object was made: %r for the same words parsed from text" % (b,)
    print("oracle:", f or "all clauses hold")
    return f is None


def replay(payload):
    """re-evaluates the oracle on the stored input (single-source and multi-source cases)"""
    c = payload["failure"]["case"]
    print(c)
    if "route" in c or "instances" in c:
        return replay_object_source(c)
    if "master" not in c or ("source" not in c and "sources" not in c) or "order" in c:
        return False
    m = freephil.parse(input_string=c["master"])
    path = "s.v" if m.objects[0].is_scope else "v"
    mdef = m.get(path).objects[0]
    names = [unstar(w.value) for w in mdef.words]
    multi = mdef.type.multi
    ss = [freephil.parse(input_string=t) for t in c.get("sources", ["v = %s\n" % c.get("source")])]
    active = [d.object.words for s_ in ss for d in s_.all_definitions()]  # active definitions, matching order
    err = result = None
    try:
        result = m.fetch(sources=ss).get(path).objects[0]
    except BaseException as e:
        err = e
    if "sources" in c:
        f = multi_oracle(mdef, names, multi, mdef.optional, active, result, err)
    else:
        f = oracle(mdef, names, multi, mdef.optional, active[0], result, err)
    print("outcome:", result.as_str() if err is None else "%s: %s" % (type(err).__name__, err))
    print("oracle:", f or "all clauses hold")
    return f is None
