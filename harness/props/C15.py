"""C15 — reported source lines are the lines where things actually are."""
import copy

import layout
from common import freephil, enc, obj_j, call_j, line_of, classify_runtime
from props import _lay

LEVEL = "proof"
MODULE = "Phil.Props.C15"
LEVEL_TEXT = "Lean theorems, all documents of ONE layout grammar for whole documents (LayoutAll: nesting, dotted names, '!', attribute items, continuation lines, multi-line quoted words, switched-off regions, a #phil __END__ cut): every scope, definition and word reports 1 + the number of newlines before its first character (lines_closed_form_all, lines_correct_all, marks_are_positions_all), the 'no matching }' error of a cut inside a scope cites the innermost open brace (cut_error_line_all); per-primitive invariants of the character/word iterator incl. scan_for_start. Tied to /repo by a correspondence run that compares the line of every scope, definition and word and the (site, line) of every error; the oracle checks lines against the positions recorded by the layout renderer (incl. CRLF and every isspace character that is not LF, values spread over continuation lines), injected faults with a known faulty token (also behind '!' and with a source label), substitution errors on any word of a value, unused-definition reports and merge-time refusals."
LEVEL_NOTE = "The 'missing closing quote' error cites the line at end of input (it names no token). Findings D73 / D74: words rebuilt by choice fetch / by substitution into a mixture carry the master's / no line."
TECHNIQUE = 'Lean 4 closed-form line theorem over one layout grammar for whole documents + per-primitive invariants + differential correspondence + recorded-position oracle'
RULE = ("C02 layouts with the line of every emitted token recorded (blank lines, comments, multi-line strings, continuations, "
        "semicolons, off regions; in a share of the documents the whitespace between tokens, on otherwise empty lines, in "
        "comments, in quoted values and in off regions is any str.isspace() character other than LF - form feed, VT, FS/GS/RS/US, "
        "NEL, NBSP, LS/PS, Unicode spaces - and lines end in CR LF; in a share a backslash continuation stands in front of any word of "
        "a value, also the first), plus documents with one injected fault whose token line is known, plus unused-definition "
        "reports of the same documents, plus documents with one faulty $-reference (undefined, a scope, malformed, or reached "
        "through another definition) planted at any word of any definition's value, the substitution being performed by "
        "definition / scope resolve_variables, get(path) and fetch; non-trivial = document has more than one line")
ASSUMPTIONS = ["the renderer's own line bookkeeping (1 + newlines emitted before the token)"]

# (text, site, line offset of the faulty token from the first line of the fragment, needs_active_definition)
FAULTS = [
    ("1a = 3\n", "improper_definition_name", 0),
    ("a 3\n", "expected", 0),
    ("a\n\n  3\n", "expected", 2),
    (".bogus = 1\n", "unexpected_definition_attribute", 0),
    ("zz =\n", "missing_value", 0),
    ("zz = # only a comment\n", "missing_value", 0),
    ("{\n", "unexpected_open_brace", 0),
    ('"q" = 1\n', "unquoted_expected", 0),
    ("#phil __FOO__\n", "unknown_phil", 0),
    ("#phil\n\n__FOO__\n", "unknown_phil", 2),
    ("sc .bogus = 1 {}\n", "unexpected_scope_attribute", 0),
    ("sc\n  .bogus = 1\n{}\n", "unexpected_scope_attribute", 1),
    ("zz = 1\n.optional = maybe\n", "bool_expected", 1),
    ("zz = 1\n.optional =  \\\n   maybe\n", "bool_expected", 2),
    ("zz = 1\n.type = int(bad=1)\n", "type_construct", 1),
    ("zz = 1\n.type = nonesuch\n", "type_unexpected", 1),
    ("zz = 1\n.expert_level = True\n", "numeric_expected", 1),
    ("sc {\n zz = 1\n", "no_matching_brace", 0),
    ("sc\n\n{\n zz = 1\n", "no_matching_brace", 2),
    ("__x__ = 3\n", "reserved", 0),
    ("sc.include { }\n", "reserved", 0),
]


# "whatever precedes it": besides blank / TAB / LF the tokenizer takes every str.isspace() character for whitespace - form feed
# (a page break), vertical tab, FS/GS/RS/US, NEL, NBSP, LS/PS, the Unicode spaces - and CR LF line ends; none of them starts a new
# line except LF.  A share of the documents is laid out with such characters between tokens, on lines of their own, in comments,
# in quoted values and inside switched-off regions (layout.Renderer / TreeGen `exotic=`).
EXOTIC_RATES = [0.0, 0.0, 0.0, 0.1, 0.3]
# "backslash continuations": besides the renderer's occasional continuation between two words, a share of the documents is
# laid out with a continuation in front of any word of a value - also in front of the first, so that a value (of a definition
# or of an attribute) starts on a later line than its name (layout.Renderer `spread=`)
SPREAD_RATES = [0.0, 0.0, 0.0, 0.3, 0.6]


def has_exotic_value(tree):
    for n in tree:
        if n["k"] == "d":
            if any(c in layout.EXOTIC_WS for w in n["words"] for c in w["v"]):
                return True
        elif has_exotic_value(n["objs"]):
            return True
    return False


def active_defs(tree, path="", out=None):
    out = [] if out is None else out
    for n in tree:
        if n["dis"]:
            continue
        if n["k"] == "d":
            out.append((path + n["name"], n.get("_line")))
        else:
            active_defs(n["objs"], path + n["name"] + ".", out)
    return out


def check_lines(tree, text):
    try:
        p = freephil.parse(input_string=text)
    except BaseException as e:
        return "parse raised %s: %s" % (type(e).__name__, str(e)[:200])
    r = layout.compare(p.objects, tree, lines=True)
    if r:
        return r
    # unused-definition reports cite path and line
    master = freephil.parse(input_string="")
    _, unused = master.fetch(source=p, track_unused_definitions=True)
    got = [(u.path, line_of(str(u))) for u in unused]
    exp = [(pa, li) for pa, li in active_defs(tree) if pa.split(".")[-1] != "include"]
    if got != exp:
        return "unused-definition reports %r, definitions are at %r" % (got[:6], exp[:6])
    return None


TYPED_MASTER = """c = a *b c
  .type = choice
mm = a b c d
  .type = choice(multi=True)
s {
  c = lo *hi mid
    .type = choice
}
"""


# lines that may precede the faulty value: each holds exactly one line feed
PRE_LINES = ["\n", "# note\n", "x_unrelated = 1\n", "\x0c\n", "# page\x0cbreak \x85 \u2028 in a comment\n", "x_unrelated = 1\r\n",
             "x_unrelated\x0b=\x1c'\x1d \x1e'\n"]


def typed_value_faults(ctx, rng, rounds):
    """errors raised while MERGING a value (choice alternatives) cite the line of the offending word, also when the value
    runs over several lines (backslash continuation, quoted words on following lines) and follows blank lines/comments"""
    import re
    master = freephil.parse(input_string=TYPED_MASTER)
    for _ in range(rounds):
        name, alts = rng.choice([("c", ["a", "b", "c"]), ("mm", ["a", "b", "c", "d"]), ("s.c", ["lo", "hi", "mid"])])
        words = [("*" if rng.random() < 0.6 else "") + rng.choice(alts) for _ in range(rng.randint(1, 5))]
        bad_at = rng.randrange(len(words))
        bad = rng.choice(["zzz", "q", "A_"])
        words[bad_at] = "*" + bad
        quoted = rng.random() < 0.3
        pre = "".join(rng.choice(PRE_LINES) for _ in range(rng.randint(0, 3)))
        line = 1 + pre.count("\n")
        text = pre + name + " ="
        bad_line = None
        for j, w in enumerate(words):
            if j > 0 and rng.random() < 0.5:
                if quoted:
                    text += "\n   "
                else:
                    text += " \\\n   "
                line += 1
            text += " " + ('"%s"' % w if quoted else w)
            if j == bad_at:
                bad_line = line
        text += "\n"
        ctx.case(("typed_fault", text), nontrivial=text.count("\n") > 1)
        ctx.count("typed_value_faults")
        try:
            source = freephil.parse(input_string=text)
        except BaseException as e:
            ctx.fail({"master": TYPED_MASTER, "text": text}, "well-formed document refused: %s: %s" % (type(e).__name__, str(e)[:80]))
            continue
        try:
            master.fetch(source=source)
            ctx.fail({"master": TYPED_MASTER, "text": text}, "an unknown starred alternative was accepted")
            continue
        except freephil.Sorry as e:
            msg = str(e)
        except BaseException as e:
            ctx.fail({"master": TYPED_MASTER, "text": text}, "merge raised %s: %s" % (type(e).__name__, str(e)[:80]))
            continue
        mm = re.search(r"\(input line (\d+)\)", msg)
        if not msg.startswith("Not a possible choice for %s: %s" % (name, bad)) or mm is None:
            ctx.fail({"master": TYPED_MASTER, "text": text}, "unexpected refusal: %s" % msg[:100])
        elif int(mm.group(1)) != bad_line:
            ctx.fail({"master": TYPED_MASTER, "text": text},
                     "the refused alternative %r stands on line %d, the message cites line %s" % (bad, bad_line, mm.group(1)))


# ---------------------------------------------------------------------------------------------------------------------
# errors raised while SUBSTITUTING variables name a token too (`Undefined variable: $x`, `Not a definition: $x`, the syntax
# errors of a `$` expression, which quote the word): they must cite the line of the word the reference is written in,
# whatever the layout of the value around it and whichever operation performs the substitution.

class env_as:
    """os.environ replaced by a table (variable lookup falls back on the environment)"""
    def __init__(self, table):
        self.table = dict(table)

    def __enter__(self):
        import os
        self.saved = os.environ
        os.environ = self.table
        return self

    def __exit__(self, *a):
        import os
        os.environ = self.saved


def _d(name, *words):
    return {"k": "d", "name": name, "dis": False, "attrs": [], "words": [{"v": w, "q": None} if isinstance(w, str) else w for w in words]}


def _s(name, *objs):
    return {"k": "s", "name": name, "dis": False, "attrs": [], "objs": list(objs)}


# (spelling of the word, site, text the message must contain, kind)
#   zdef: a definition, zsc / zsc.zin: scopes, zz_undef: nothing, zbad: a definition whose own value holds the undefined reference
REF_FAULTS = [
    ("$zz_undef", "undefined_variable", "$zz_undef", "direct"),
    ("$(zz_undef)", "undefined_variable", "$zz_undef", "direct"),
    ("pre$zz_undef/c.log", "undefined_variable", "$zz_undef", "direct"),
    ("$zdef/$zz_undef", "undefined_variable", "$zz_undef", "direct"),
    ("$(.zz_undef)", "undefined_variable", "$.zz_undef", "direct"),
    ("$zsc", "not_a_definition", "$zsc", "direct"),
    ("$(zsc.zin)", "not_a_definition", "$zsc.zin", "direct"),
    ("$zsc.log", "not_a_definition", "$zsc", "direct"),
    ("$(zz", "missing_paren", '"$(zz"', "direct"),
    ("a$", "dollar_identifier", '"a$"', "direct"),
    ("$@x", "improper_variable_name", '"$@x"', "direct"),
    ("$(1a)", "improper_variable_name", '"$(1a)"', "direct"),
    ("$zbad", "undefined_variable", "$zz_undef", "chain"),
    ("x_$(zbad)", "undefined_variable", "$zz_undef", "chain"),
]


def _fixup_words(words):
    """an unquoted word cannot follow a quoted word that spans lines"""
    multi = False
    for w in words:
        if multi and w["q"] is None:
            w["q"] = '"'
        if "\n" in w["v"]:
            multi = True
    return words


def _neutral(tree):
    """no `$` outside single quotes: the document's only faulty reference is the planted one"""
    for n in tree:
        if n["k"] == "d":
            for w in n["words"]:
                if w["q"] != "'":
                    w["v"] = w["v"].replace("$", "S")
        else:
            _neutral(n["objs"])


def _enabled_defs(tree, ipath=(), names=()):
    for i, n in enumerate(tree):
        if n["dis"]:
            continue
        if n["k"] == "d":
            yield n, ipath + (i,), names + (n["name"],)
        else:
            yield from _enabled_defs(n["objs"], ipath + (i,), names + (n["name"],))


def _kinds(tree, names=(), out=None):
    """path -> kinds of the enabled objects written under it"""
    out = {} if out is None else out
    for n in tree:
        if n["dis"]:
            continue
        out.setdefault(names + (n["name"],), set()).add(n["k"])
        if n["k"] == "s":
            _kinds(n["objs"], names + (n["name"],), out)
    return out


def _at(root, ipath):
    o = root
    for i in ipath:
        o = o.objects[i]
    return o


def substitution_faults(ctx, rng, rounds):
    tag = "subst_fault"
    cases, reqs, impls = [], [], []
    for _ in range(rounds):
        if ctx.time_left() < 25:
            break
        exotic = rng.choice(EXOTIC_RATES)
        tg = layout.TreeGen(rng, depth=rng.choice([0, 1, 2, 3]), exotic=exotic)
        tree = tg.tree()
        _neutral(tree)
        spelling, site, named, kind = rng.choice(REF_FAULTS)
        cands = list(_enabled_defs(tree))
        if not cands or rng.random() < 0.2:
            tree.append(_d(rng.choice(layout.NAMES), *tg.words()))
            _neutral(tree[-1:])
            cands = list(_enabled_defs(tree))
        node, ipath, names = rng.choice(cands)
        if rng.random() < 0.5:
            node["words"] = node["words"] + tg.words()     # longer values: more room for continuation lines
            _neutral([node])
        # the planted word: unquoted or double-quoted (single-quoted words are not substituted), preceded by anything -
        # also by references that resolve
        at = rng.randrange(len(node["words"]))
        for w in node["words"][:at]:
            if rng.random() < 0.3 and "\n" not in w["v"]:
                w["v"], w["q"] = rng.choice(["$zdef", "$zdef/a.log", "$(zdef)x"]), rng.choice([None, '"'])
        planted = {"v": spelling, "q": rng.choice([None, None, '"', '"""'])}
        node["words"][at] = planted
        _fixup_words(node["words"])
        # what the references resolve to stands first in the document
        bad_word = planted
        helpers = [_d("zdef", "v"), _s("zsc", _d("k", "1"), _s("zin", _d("k", "2")))]
        if kind == "chain":
            zb = _d("zbad", *(["w"] * rng.randint(0, 3)), {"v": "$zz_undef", "q": rng.choice([None, '"'])}, *(["w"] * rng.randint(0, 1)))
            helpers.append(zb)
            bad_word = zb["words"][-1] if zb["words"][-1]["v"] == "$zz_undef" else zb["words"][-2]
        rng.shuffle(helpers)
        tree[0:0] = helpers
        ipath = (ipath[0] + len(helpers),) + ipath[1:]
        r = layout.Renderer(rng, layout=rng.choice([0.0, 0.5, 1.0, 1.0]), off_regions=True, exotic=exotic,
                            spread=rng.choice([0.0, 0.3, 0.6]))
        text = r.render(tree)
        want = bad_word["_line"]
        case = {"text": text, "definition": ".".join(names), "reference": spelling, "token_line": want}
        ctx.case((tag, text), nontrivial=text.count("\n") > 1)
        ctx.count("subst_faults")
        ctx.count("subst_fault_" + site)
        for f in r.features:
            if f in ("value_starts_on_continuation_line", "backslash_continuation"):
                ctx.count("subst_fault_doc_with_" + f)
        try:
            root = freephil.parse(input_string=text)
            lroot = freephil.parse(input_string=text, source_info="lbl")
        except BaseException as e:
            ctx.fail(case, "well-formed document refused: %s: %s" % (type(e).__name__, str(e)[:80]))
            continue
        f = layout.compare(root.objects, tree, lines=True)
        if f:
            ctx.fail(case, f)
            continue
        d = _at(root, ipath)
        ctx.count("subst_fault_token_%s_the_line_of_the_name" % ("on" if want == line_of(d.where_str) else "NOT_on"))
        # a master that declares just this parameter
        mtext = "".join("%s {\n" % nm for nm in names[:-1]) + names[-1] + " = None\n.type = strings\n" + "}\n" * (len(names) - 1)
        master = freephil.parse(input_string=mtext)
        routes = [
            ("definition.resolve_variables()", lambda: d.resolve_variables()),
            ("resolve_variables() of the enclosing scope", lambda: d.primary_parent_scope.resolve_variables()),
            ("get(path=%r)" % ".".join(names), lambda: root.get(path=".".join(names))),
        ]
        # (a document that also writes a definition where the master has a scope, or a scope where it has the parameter,
        # is refused as incompatible before any value is looked at)
        kinds = _kinds(tree)
        if "s" not in kinds[names] and not any("d" in kinds[names[:k]] for k in range(1, len(names))):
            routes.append(("master.fetch(source)", lambda: master.fetch(source=root)))
            ctx.count("subst_fault_reached_by_fetch")
        routes.append(("definition.resolve_variables() of the parse with a source label", lambda: _at(lroot, ipath).resolve_variables()))
        msgs = []
        with env_as({}):
            for what, fn in routes:
                try:
                    fn()
                    msgs.append(None)
                    ctx.fail(case, "%s: the reference %s was accepted" % (what, spelling))
                except RuntimeError as e:
                    msg = str(e)
                    msgs.append(msg)
                    got_site, got_line = classify_runtime(msg)
                    if got_site != site or named not in msg:
                        ctx.fail(case, "%s: expected a %s error naming %s, got: %s" % (what, site, named, msg[:120]))
                    elif got_line != want:
                        ctx.fail(case, "%s: %s; the word holding %s starts on line %d, the message cites line %r"
                                 % (what, msg[:100], named, want, got_line))
                except BaseException as e:
                    msgs.append(None)
                    ctx.fail(case, "%s raised %s: %s" % (what, type(e).__name__, str(e)[:80]))
            if msgs[0] is not None and msgs[-1] is not None and msgs[0].replace("input line ", "lbl, line ") != msgs[-1]:
                ctx.fail(case, "with a source label the error reads %r, without it %r" % (msgs[-1][:120], msgs[0][:120]))
            # correspondence: the outcome of substituting every definition of the document (error site and line)
            defs = []

            def walk(o):
                for c in o.objects:
                    if c.is_definition:
                        defs.append(c)
                    else:
                        walk(c)
            walk(root)
            impl = [call_j(lambda: c.resolve_variables(), lambda x: None) for c in defs]
        cases.append(case)
        reqs.append(["resolve", enc(text), [], False])
        impls.append(["ok", impl])
        if len(cases) % 200 == 1:
            ctx.sample(dict(case, expected_error=[site, want]))
    if ctx.mode != "impl-only" and reqs:
        ctx.corr("resolve", cases, reqs, impls,
                 proj=lambda outs: [o if o[0] != "ok" else ["ok", None] for o in outs])


def label_clause(text):
    """the source label given to the parser travels with every line: each scope, definition (enabled or `!`-disabled)
    and word, and every syntax error, cites `(label, line N)` exactly where the unlabelled parse cites `(input line N)`"""
    def relabel(s):
        return s.replace("input line ", "lbl, line ")

    def outcome(**kw):
        try:
            return ("ok", freephil.parse(input_string=text, **kw))
        except RuntimeError as e:
            return ("err", str(e))
    a, b = outcome(), outcome(source_info="lbl")
    if a[0] != b[0]:
        return "with a source label the parse %s, without it %s" % (b[0], a[0])
    if a[0] == "err":
        return None if relabel(a[1]) == b[1] else "labelled error %r, unlabelled %r" % (b[1][:120], a[1][:120])

    def walk(x, y, path):
        for p, q in zip(x.objects, y.objects):
            name = path + p.name
            if relabel(p.where_str) != q.where_str:
                return "%s%s: where_str %r with a label, %r without" % ("!" if p.is_disabled else "", name, q.where_str, p.where_str)
            if p.is_definition:
                for u, v in zip(p.words, q.words):
                    if relabel(u.where_str()) != v.where_str():
                        return "word %r of %s: %r with a label, %r without" % (u.value, name, v.where_str(), u.where_str())
            else:
                r = walk(p, q, name + ".")
                if r:
                    return r
        return None
    return walk(a[1], b[1], "")


def run(ctx):
    rng = ctx.rng
    n = ctx.scale(1500, 40000, 8000)
    cases, reqs, impls = [], [], []
    typed_value_faults(ctx, rng, ctx.scale(300, 6000, 1200))
    substitution_faults(ctx, rng, ctx.scale(500, 10000, 2000))
    for i in range(n):
        if ctx.time_left() < 25:
            ctx.notes.append("stopped early on time budget")
            break
        tree, text, feats = _lay.gen_case(rng, exotic=rng.choice(EXOTIC_RATES), spread=rng.choice(SPREAD_RATES))
        nontriv = text.count("\n") > 1
        ctx.case(text, nontrivial=nontriv)
        for f in feats:
            ctx.count(f)
        if has_exotic_value(tree):
            ctx.count("exotic_ws_in_quoted_value")
        f = check_lines(tree, text) or label_clause(text)
        cases.append({"text": text, "fail": f})
        reqs.append(["parse", enc(text)])
        impls.append(call_j(lambda: freephil.parse(input_string=text), obj_j))
        # one injected fault after a valid prefix
        frag, site, off = rng.choice(FAULTS)
        prefix_tree, prefix_text, pfeats = _lay.gen_case(rng, off_regions=rng.random() < 0.5, exotic=rng.choice(EXOTIC_RATES),
                                                     spread=rng.choice(SPREAD_RATES))
        if any(f.startswith("exotic_ws") for f in pfeats):
            ctx.count("fault_after_exotic_ws")
        if prefix_text and not prefix_text.endswith("\n"):
            prefix_text += "\n"
        if "#phil __END__" in prefix_text or prefix_text.rstrip().endswith("__OFF__\nq = 2") or "#phil __OFF__\nq" in prefix_text:
            prefix_text = ""
        # a neutral scope ends any pending value (a quoted word or ';' on the next line would continue it)
        prefix_text += "zsep { }\n"
        doc = prefix_text + frag
        want_line = 1 + prefix_text.count("\n") + off
        ctx.case(doc, nontrivial=True)
        ctx.count("fault_" + site)
        ia = call_j(lambda: freephil.parse(input_string=doc), obj_j)
        ff = None
        if ia[0] != "err" or ia[1] != "runtime":
            ff = "faulty document gave %r" % (ia[:3],)
        elif ia[2] != site or ia[3] != want_line:
            ff = "error %s cites line %r; the faulty token (%s) is on line %d" % (ia[2], ia[3], site, want_line)
        if ff is None:
            # the same fault behind a `!`, and with a source label
            ff = label_clause(doc) or label_clause(prefix_text + "!" + frag)
        cases.append({"text": doc, "fail": ff})
        reqs.append(["parse", enc(doc)])
        impls.append(ia)
        if i % 400 == 0:
            ctx.sample({"text": doc, "expected_error": [site, want_line]})
        if len(reqs) >= 3000:
            flush(ctx, cases, reqs, impls)
            cases, reqs, impls = [], [], []
    flush(ctx, cases, reqs, impls)


def flush(ctx, cases, reqs, impls):
    if not reqs:
        return
    if ctx.mode != "impl-only":
        ctx.corr("parse", [{"text": c["text"]} for c in cases], reqs, impls)
    for c in cases:
        if c["fail"]:
            ctx.fail({"text": c["text"]}, c["fail"])


_NAMED = None


def subst_check(text):
    """layout-independent reading of the substitution clause, used to shrink and to replay: None, or a description when the
    substitution of some definition raises an error naming a token and cites a line on which no word holding that token starts"""
    import re
    try:
        root = freephil.parse(input_string=text)
    except BaseException:
        return None
    defs = []

    def walk(o):
        for c in o.objects:
            if c.is_definition:
                defs.append(c)
            else:
                walk(c)
    walk(root)
    with env_as({}):
        for d in defs:
            try:
                d.resolve_variables()
                continue
            except RuntimeError as e:
                msg = str(e)
            except BaseException:
                continue
            site, line = classify_runtime(msg)
            m = re.match(r"(?:Undefined variable|Not a definition): \$(\S+) \(", msg)
            if m:
                spellings = ["$" + m.group(1), "$(" + m.group(1) + ")"]
                holds = lambda w: any(sp in w.value for sp in spellings)   # noqa: E731
            elif site in ("missing_paren", "dollar_identifier", "improper_variable_name"):
                holds = lambda w: '"%s"' % w.value in msg   # noqa: E731
            else:
                continue
            at = sorted({w.line_number for c in defs for w in c.words if w.quote_token != "'" and holds(w)})
            if line not in at:
                return "substituting %s: %s; words holding that token start on line(s) %r" % (d.full_path(), msg[:120], at)
    return None


def shrink(f):
    c = dict(f["case"])
    if "reference" not in c or subst_check(c["text"]) is None:
        return None
    text = c["text"]
    changed = True
    while changed:
        changed = False
        for i in range(len(text)):     # cut the tail
            if subst_check(text[:i]) is not None:
                text, changed = text[:i], True
                break
        for size in (max(1, len(text) // 4), 8, 1):
            i = 0
            while i < len(text):
                t = text[:i] + text[i + size:]
                if subst_check(t) is not None:
                    text, changed = t, True
                else:
                    i += size
    return {"case": {"text": text, "reference": c["reference"], "shrunk_from": c["text"]}, "what": subst_check(text),
            "finding": f.get("finding"), "model_violates": f.get("model_violates")}


def replay(payload):
    c = payload["failure"]["case"]
    print(repr(c["text"]))
    if "reference" in c:
        r = subst_check(c["text"])
        print(r or "every substitution error cites a line on which a word holding the named token starts")
        return r is None
    print(call_j(lambda: freephil.parse(input_string=c["text"]), obj_j))
    return False
from props._c15_findings import finding_still_fails  # noqa: E402,F401  (replays of findings D73, D74)
