"""C01 — printing a PHIL tree and re-parsing the text reproduces the tree."""
import gen
from common import freephil, enc, dec, obj_j, call_j
from props import _lay

LEVEL = "proof"
MODULE = "Phil.Props.C01"
LEVEL_TEXT = 'Lean theorems, all inputs: the closed print->parse->print round trip for trees to any depth at every print width, WITHOUT attributes (print_tree, print_parse_tree, second_print_identical_tree) and WITH attributes at every attributes level (print_tree_attrs, print_parse_tree_attrs, attribute_value_kept, second_print_identical_attrs; wrapped free text with whitespace runs: wrapped_runs_round_trip - equal up to whitespace runs -, second_print_identical_iff characterising finding D28), templates of fetch results (fetch_result_reparsed), show_ignores_positions for arbitrary trees, the converter type round trip convFromExpr(render c) = c, the quoting round trip of every printed word (C03); escape/quote are additionally REGENERATED from the Python source on every run and proved equal to the model (Props/Translated). The printer and parser models are tied to /repo by a correspondence run of show and parse on every generated case (levels 0/2/3, several widths); the oracle evaluates the property as stated on the implementation (parse -> print -> parse -> same tree incl. every attribute; second print byte-identical).'
LEVEL_NOTE = 'Closed theorems cover enabled objects; disabled objects and a deprecated definition directly after a definition rest on correspondence and oracle. Kernel-checked sharp edges = known findings D6, D7, D28, D49. textwrap.wrap is modelled for tab-free text. Trusted: Lean kernel (+propext, Classical.choice, Quot.sound), the hand-written model being the code (checked by correspondence on every run; source drift triggers a deeper pass; leaf functions re-translated from the source).'
TECHNIQUE = 'Lean 4 closed-form round-trip theorems (with attributes) on the printer/parser model + translated leaf functions + differential correspondence + round-trip oracle'
RULE = ("documents from the layout grammar (all quote styles, multi-line strings, long values that wrap, every attribute kind, "
        "every built-in type with constructor arguments, dotted names, '!' marks) and mutated/soup documents that still parse, x "
        "attributes level {0,2,3} x print width {minimal, 30-ish, 79, 200}; plus small masters whose definitions carry generated "
        "numeric types (every constructor-argument combination, bounds from integral / decimal / exponent / arithmetic / "
        "overflowing (1e999 -> inf) / nan (1e999-1e999) literals - printed forms that differ in kind from the source spelling; "
        "outside the model's type grammar: oracle only, counted); non-trivial = tree non-empty; distinct = (text, level, width)")
ASSUMPTIONS = ["free-text attributes compared up to runs of whitespace, as the statement says"]


def classify(root):
    """finding classes a tree belongs to (structural predicates on the input)"""
    found = set()

    def walk(o):
        for n in o.attribute_names:
            v = getattr(o, n)
            if isinstance(v, str) and n in _lay.FREE_TEXT and v != "" and v.strip() == "":
                # whitespace only: printed as it is when it fits on the line, not printed at all when it has to be wrapped
                found.add("D49")
            elif isinstance(v, str) and n in _lay.FREE_TEXT and (
                    v != v.strip(" ") or "  " in v or any(c in v for c in "\t\n\r\x0b\x0c")):
                found.add("D28")
        if o.is_definition:
            ws = o.words
            for w in ws:
                if w.quote_token is None and w.value == "\\":
                    found.add("D7")
            for w in ws[:-1]:
                if "\n" in w.value:
                    found.add("D6")
            return
        for c in o.objects:
            walk(c)
    walk(root)
    return sorted(found)


def round_trip(text, level, width, root=None):
    """None if the property holds for this (text, level, width), else a description"""
    if root is None:
        root = freephil.parse(input_string=text)
    try:
        s1 = root.as_str(attributes_level=level, print_width=width)
    except BaseException as e:
        return "printing raised %s: %s" % (type(e).__name__, str(e)[:150])
    try:
        r2 = freephil.parse(input_string=s1)
    except BaseException as e:
        return "printed text does not parse: %s: %s" % (type(e).__name__, str(e)[:150])
    d = _lay.first_diff(_lay.sig(root, level), _lay.sig(r2, level))
    if d:
        return "re-parsed tree differs at %s" % d
    s2 = r2.as_str(attributes_level=level, print_width=width)
    if s2 != s1:
        return "second print differs from first"
    return None


# ---- numeric type expressions in general form ---------------------------------------------------------------------------
# The statement quantifies over "every built-in .type with every constructor argument".  A bound of a numeric type is a
# Python expression in the master file; what the printer writes back is the converter's rendering of the NUMBER it evaluated
# to, which need not look like the source literal at all (1e3 -> 1000, 2**70 -> 1.180591621e+21, 1/3 -> 0.3333333333,
# 1e999 -> inf, 1e999-1e999 -> nan: a NAME where the source had only digits).  Every such rendering has to be an expression
# the parser accepts again and that yields an equal type.  Literal classes, each offered to every numeric type it can
# construct (the int types reject non-finite bounds at construction: such a text does not parse and is outside the property):
BOUND_LITS = {
    "integral": ["0", "1", "2", "7", "10", "-1", "-3", "-10"],
    "eighths": ["0.5", "-0.5", "2.5", "1.5", "0.25", "-0.75", "9.125", "-3.875"],
    "decimal": ["0.1", "-2.9", ".5", "3.", "2.0", "-1.0", "0.1234567890123", "123456789.125"],
    "exponent": ["1e1", "-1e3", "5e0", "1e-3", "2.5e-7", "1e22", "-1e100", "1.5e300", "1E5", "4e-320"],
    "arith": ["2**70", "10**30", "-2**64", "1/3", "-2/3", "2**0.5", "3*7", "1e3+0.5", "(1+2)", "7//2", "-(4)"],
    # non-finite numbers spelt with plain literals only (overflowing exponent, arithmetic on one)
    "overflow": ["1e999", "-1e400", "-1e999", "1e400*2", "2e308", "-1.8e308", "1e309"],
    "nan": ["1e999-1e999", "1e999*0", "-(1e400-1e400)", "1e999/1e999"],
    # float(value_min=-0.0) prints value_min=-0, which re-parses as the int 0 and prints value_min=0: the re-parsed type and the
    # second print differ on the UNCHANGED tree (reported, not a known finding yet) - switched off until it is filed
    "negative_zero": ["-0.0", "-0.", "-0e0"],
}
NEGATIVE_ZERO_BOUNDS = True
_FLOAT_ONLY = ("overflow", "nan")
_MODEL_CLASSES = {"int": ("integral",), "ints": ("integral",), "float": ("integral", "eighths"), "floats": ("integral", "eighths")}


def _num(lit):
    return eval(lit, {"__builtins__": {}}, {})


def gen_numeric_type(rng):
    """(type expression, set of bound-literal classes used): int/float/ints/floats with a random combination of constructor
    arguments, bounds from every literal class; always constructible (min <= max, nan never paired, size xor size_min/max)"""
    kind = rng.choice(["int", "float", "float", "ints", "floats", "floats"])
    classes = [c for c in BOUND_LITS if (kind.startswith("float") or c not in _FLOAT_ONLY)
               and (NEGATIVE_ZERO_BOUNDS or c != "negative_zero")]
    used, bounds = set(), {}
    for key in ("value_min", "value_max"):
        if rng.random() < 0.65:
            c = rng.choice(classes)
            bounds[key] = (c, rng.choice(BOUND_LITS[c]))
    if len(bounds) == 2:
        lo, hi = _num(bounds["value_min"][1]), _num(bounds["value_max"][1])
        if lo != lo or hi != hi:
            del bounds[rng.choice(["value_min", "value_max"]) if (lo != lo) == (hi != hi) else ("value_max" if lo != lo else "value_min")]
        elif lo > hi:
            bounds = {"value_min": bounds["value_max"], "value_max": bounds["value_min"]}
    args = []
    for key, (c, lit) in bounds.items():
        used.add(c)
        args.append("%s=%s" % (key, lit))
    if rng.random() < 0.1:
        free = [k for k in ("value_min", "value_max") if k not in bounds]
        if free:
            args.append(rng.choice(free) + "=None")
            used.add("none_arg")
    if kind in ("int", "float"):
        if rng.random() < 0.4:
            args.append("allow_none=" + rng.choice(["True", "False", "False"]))
    else:
        k = rng.random()
        if k < 0.3:
            args.append("size=%d" % rng.choice([1, 2, 2, 3, 4]))
        elif k < 0.6:
            a, b = sorted([rng.choice([1, 2, 3]), rng.choice([1, 2, 3, 4])])
            which = rng.choice(["min", "max", "both"])
            if which in ("min", "both"):
                args.append("size_min=%d" % a)
            if which in ("max", "both"):
                args.append("size_max=%d" % b)
        elif k < 0.68:
            args.append("size=None")
            used.add("none_arg")
        if rng.random() < 0.3:
            args.append("allow_none_elements=" + rng.choice(["True", "True", "False"]))
        if rng.random() < 0.3:
            args.append("allow_auto_elements=" + rng.choice(["True", "True", "False"]))
    rng.shuffle(args)
    sep = rng.choice([", ", ", ", ",", " , "])
    in_model = all(c in _MODEL_CLASSES[kind] for c in used)
    return kind + ("(" + sep.join(args) + ")" if args or rng.random() < 0.2 else ""), used, in_model


def typed_docs(ctx):
    """(text, route) - small masters whose definitions carry generated numeric types, at any nesting, next to other attributes;
    route 'model' when every type expression is inside the Lean model's type grammar, else 'impl' (oracle only)"""
    import random
    r = random.Random(ctx.seed * 1000003 + 7)
    for i in range(ctx.scale(150, 3000, 800)):
        lines, route, depth = [], "model", 0
        for j in range(r.choice([1, 1, 2, 3])):
            if r.random() < 0.35 and depth < 3:
                lines.append("  " * depth + r.choice(["s", "t.u", "refinement"]) + r.choice(["", "\n" + "  " * depth + "  .help = scope help"])
                             + " {")
                depth += 1
            t, used, in_model = gen_numeric_type(r)
            for c in used:
                ctx.count("type_bound_%s" % c)
            if not in_model:
                route = "impl"
            ind = "  " * depth
            lines.append(ind + r.choice(["", "!"]) + "%s%d = %s" % (r.choice(["a", "w", "x_"]), j, r.choice(["1", "None", "0.5 2", "Auto", "'q'"])))
            attrs = [".type = " + t]
            if r.random() < 0.5:
                attrs.append(".help = " + r.choice(['"any value"', "bound", '"a  b"']))
            if r.random() < 0.3:
                attrs.append(".expert_level = %d" % r.choice([0, 1, 2]))
            if r.random() < 0.2:
                attrs.append(".optional = " + r.choice(["True", "False"]))
            if r.random() < 0.1:
                attrs.append(".deprecated = True")
            r.shuffle(attrs)
            lines.extend(ind + "  " + a for a in attrs)
            if depth and r.random() < 0.4:
                depth -= 1
                lines.append("  " * depth + "}")
        while depth:
            depth -= 1
            lines.append("  " * depth + "}")
        yield "\n".join(lines) + "\n", route


def docs(ctx):
    rng = ctx.rng
    n = ctx.scale(700, 20000, 4000)
    for i in range(n):
        k = i % 10
        if k < 7:
            _, text, _ = _lay.gen_case(rng, off_regions=False)
        elif k < 9:
            text = gen.mutate(rng, gen.DocGen(rng).doc())
        else:
            text = gen.soup(rng)
        yield text
    # string attributes made of blanks only (own generator state: the stream above stays what it was); short ones survive the
    # round trip, those too long for the line are finding class D49
    import random
    r2 = random.Random(ctx.seed * 1000003 + 49)
    for i in range(ctx.scale(40, 1000, 200)):
        nblanks = r2.choice([1, 2, 3, 8, 20, 35, 50, 60, 70, 80, 100, 130, 210])
        attr = r2.choice(["help", "help", "caption", "short_caption", "style"])
        q = r2.choice(['"', "'"])
        if r2.random() < 0.3:
            yield "s\n  .%s = %s%s%s\n{\n  a = 1\n}\n" % (attr, q, " " * nblanks, q)
        else:
            yield "a = x y\n  .%s = %s%s%s\nb = 2\n" % (attr, q, " " * nblanks, q)


def run(ctx):
    rng = ctx.rng
    cases, reqs, impls = [], [], []
    for text in docs(ctx):
        if ctx.time_left() < 25:
            ctx.notes.append("stopped early on time budget")
            break
        try:
            root = freephil.parse(input_string=text)
        except BaseException:
            ctx.count("unparseable")
            continue
        cls = classify(root)
        ctx.count("class_%s" % "+".join(cls))
        mw = _lay.min_width(root)
        for level in (0, 2, 3):
            for width in (rng.choice([mw, mw + 3, mw + 10]), rng.choice([40, 79, None, 200])):
                ctx.case((text, level, width), nontrivial=len(root.objects) > 0)
                f = round_trip(text, level, width, root)
                ia = call_j(lambda: root.as_str(attributes_level=level, print_width=width), enc)
                cases.append({"text": text, "level": level, "width": width, "fail": f, "cls": cls})
                reqs.append(["show", enc(text), level, width, None, enc("")])
                impls.append(ia)
        if len(ctx.samples) < 4 and len(text) > 40:
            ctx.sample({"text": text, "printed_level3": root.as_str(attributes_level=3)[:400]})
        if len(reqs) >= 3000:
            flush(ctx, cases, reqs, impls)
            cases, reqs, impls = [], [], []
    flush(ctx, cases, reqs, impls)
    # numeric types with bounds from every literal class: those inside the model's type grammar go through the correspondence
    # as well, the others are evaluated by the oracle only (counted as impl_only_type_args)
    cases, reqs, impls = [], [], []
    for text, route in typed_docs(ctx):
        if ctx.time_left() < 20:
            ctx.notes.append("typed stream stopped early on time budget")
            break
        try:
            root = freephil.parse(input_string=text)
        except BaseException:
            ctx.count("unparseable_typed")
            continue
        cls = classify(root)
        mw = _lay.min_width(root)
        for level in (0, 2, 3):
            for width in (rng.choice([mw, mw + 3, mw + 10]), rng.choice([40, 79, None, 200])):
                ctx.case((text, level, width))
                f = round_trip(text, level, width, root)
                if route == "model":
                    cases.append({"text": text, "level": level, "width": width, "fail": f, "cls": cls})
                    reqs.append(["show", enc(text), level, width, None, enc("")])
                    impls.append(call_j(lambda: root.as_str(attributes_level=level, print_width=width), enc))
                else:
                    ctx.count("impl_only_type_args")
                    if f:
                        ctx.fail({"text": text, "level": level, "width": width}, f, finding=cls, model_violates=None)
    flush(ctx, cases, reqs, impls)


def flush(ctx, cases, reqs, impls):
    if not reqs:
        return
    answers = [None] * len(reqs)
    if ctx.mode != "impl-only":
        answers = ctx.corr("show", [{k: c[k] for k in ("text", "level", "width")} for c in cases], reqs, impls)
    for c, a, i in zip(cases, answers, impls):
        if c["fail"]:
            ctx.fail({k: c[k] for k in ("text", "level", "width")}, c["fail"], finding=c["cls"],
                     model_violates=None if (a is None or a[0] in ('unsupported', 'parse-failed', 'type-failed')) else (a == i))


def finding_still_fails(f):
    w = f["witness"]
    return round_trip(w["text"], w["level"], w["width"]) is not None


def replay(payload):
    c = payload["failure"]["case"]
    r = round_trip(c["text"], c["level"], c["width"])
    print(repr(c["text"]), c["level"], c["width"], "->", r)
    return r is None


def shrink(f):
    c = dict(f["case"])
    text = c["text"]

    def bad(t):
        try:
            return round_trip(t, c["level"], c["width"]) is not None and classify(freephil.parse(input_string=t)) == (f.get("finding") or [])
        except BaseException:
            return False
    changed = True
    while changed and len(text) < 4000:
        changed = False
        for size in (max(1, len(text) // 4), 8, 1):
            i = 0
            while i < len(text):
                t = text[:i] + text[i + size:]
                if bad(t):
                    text, changed = t, True
                else:
                    i += size
    c["text"] = text
    return {"case": c, "what": round_trip(text, c["level"], c["width"]), "finding": f.get("finding"),
            "model_violates": f.get("model_violates")}
