"""C04 — a fetch result has exactly the master's parameter structure."""
from common import freephil, enc, attr_j
from props import _fetch

LEVEL = "proof"
MODULE = "Phil.Props.C04"
LEVEL_TEXT = "Lean theorems about the merge model: for every master and every source list every object at every depth of a fetch result is a copy of an enabled master object with the master's name, kind and attributes, in the master's order, non-multiple names exactly once, disabled sources without influence (fetch_shape, fetch_conforms, fetch_order, fetch_ignores_disabled); closed forms: on nested masters without .multiple (fetch_tree_total: tree_result_shape/paths), with .multiple definitions (fetch_tree_multi_total) and with .multiple scopes nested to any depth, optional or mandatory, also with further master occurrences of a .multiple name (fetch_ms_total, fetch_ms2_total: ms_result_blocks, ms2_result_blocks, ms_plain_exactly_once, ms2_plain_exactly_once, ms_result_paths). Tied to /repo by a correspondence run of fetch (result skeleton) over generated masters x 0-3 sources; the oracle walks the implementation's result against the master as the statement says, incl. stateful use (fetch, in-place adopt_scope, fetch again; results edited in place between fetches, judged against an independent parse of the master text)."
LEVEL_NOTE = "Closed forms exclude choices and deprecated definitions inside .multiple scopes (covered by the general shape theorems + correspondence). Aliases (.alias) are not modelled; the alias fall-through is pinned by the suite's test_alias_bug. Content of template copies is shared with the master (finding D21, C17)."
TECHNIQUE = 'Lean 4 shape theorems + closed form of fetch (incl. .multiple scopes) + differential correspondence + tree-walk oracle'
RULE = ("masters (depth <= 3, every built-in type, .multiple/.optional combinations incl. multiples nested in multiple scopes, "
        "disabled objects, expert levels, non-canonical defaults, further occurrences) x 0-3 sources (matching, partial, unknown "
        "names, repeated, disabled, dotted or nested); non-trivial = at least one source sets a parameter. Life-cycle stream: "
        "the same master OBJECT is fetched, extended in place by scope.adopt_scope(plug-in) (new parameters / sub-scopes inside "
        "any active scope, re-declared parameters; 1-2 rounds) and fetched again (fresh sources and/or the previous result handed "
        "back); every fetch is judged against the structure the master declares at that moment and compared with the model's "
        "answer on the text of the extended master. Edited-result stream: fetch, EDIT THE RESULT IN PLACE (is_disabled, expert_level, "
        "help/caption/short_caption, name set on, or deletion of, definitions and scopes at any depth of the result outside template "
        "copies; 1-5 edits, 1-2 rounds), fetch again against the same master object (fresh sources, and the edited result handed "
        "back): judged against an independent parse of the master text and compared with the model's answer on that text")
ASSUMPTIONS = ["masters have unique sibling names apart from further occurrences of .multiple objects"]


def declared_deprecated(mo):
    """what the master text says, whatever object the parser stored for it"""
    v = mo.deprecated
    if isinstance(v, str):
        return v.strip().lower() in ("true", "yes", "on", "1")
    return bool(v)


def shape(ms, ws, path=""):
    """result scope ws against master scope ms; None or description"""
    actives = []
    seen = set()
    for c in ms.objects:
        if c.is_disabled or c.name in seen:
            continue
        seen.add(c.name)
        actives.append(c)
    i = 0
    # disabled master objects may be carried along verbatim inside template copies; they are inert
    dis_names = {c.name for c in ms.objects if c.is_disabled}
    kids = []
    for c in ws.objects:
        if c.is_disabled:
            if c.name not in dis_names:
                return "%s: disabled object %r in the result is not a disabled master object" % (path or "<root>", c.name)
            continue
        kids.append(c)
    for mo in actives:
        group = []
        while i < len(kids) and kids[i].name == mo.name:
            group.append(kids[i])
            i += 1
        p = path + mo.name
        if mo.is_definition and declared_deprecated(mo):
            if len(group) > 1:
                return "%s: deprecated parameter occurs %d times" % (p, len(group))
        elif not mo.multiple:
            if len(group) != 1:
                return "%s: occurs %d times in the result (master declares it once)" % (p, len(group))
        elif len(group) < 1:
            return "%s: multiple parameter missing from the result" % p
        for g in group:
            if g.is_definition != mo.is_definition:
                return "%s: kind changed" % p
            ga = [attr_j(getattr(g, a)) for a in g.attribute_names]
            ma = [attr_j(getattr(mo, a)) for a in mo.attribute_names]
            if ga != ma:
                return "%s: attributes %r differ from the master's %r" % (p, ga, ma)
            if g.is_disabled:
                return "%s: disabled object in the result" % p
            if not mo.is_definition:
                if g.is_template != 0:
                    # a template is the master's own declaration carried along verbatim
                    if [c.as_str(attributes_level=3) for c in g.objects] != [c.as_str(attributes_level=3) for c in mo.objects]:
                        return "%s: template copy differs from the master's declaration" % p
                    continue
                r = shape(mo, g, p + ".")
                if r:
                    return r
    if i != len(kids):
        return "%s: result contains %r which the master does not declare here (or out of order)" % (path or "<root>", kids[i].name)
    return None


def skeleton(t):
    """names, kinds, disabled flags and attributes of a canonical tree (no words, ids, lines, template flags)"""
    kind, name, _id, dis, _line, _merge, _tmpl, attrs, body = t
    if kind == "d":
        return [kind, name, dis, attrs]
    kids = []
    for c in body:
        k = skeleton(c)
        if not kids or kids[-1] != k:   # the number of instances of a .multiple object is not part of the shape
            kids.append(k)
    return [kind, name, dis, attrs, kids]


def strip_disabled(o):
    objs = []
    for c in o.objects:
        if c.is_disabled:
            continue
        objs.append(c if c.is_definition else strip_disabled(c))
    return o.customized_copy(objects=objs)


def structure(o):
    """content of a scope object without positions and ids"""
    out = []
    for c in o.objects:
        head = ["d" if c.is_definition else "s", c.name, bool(c.is_disabled), [attr_j(getattr(c, a)) for a in c.attribute_names]]
        head.append([[w.value, w.quote_token] for w in c.words] if c.is_definition else structure(c))
        out.append(head)
    return out


def declared_master(case, upto=None):
    """the master as DECLARED: an independent object built from the texts of the case (parse + in-place extensions) that
    no fetch ever ran against and no result ever shared anything with"""
    d = freephil.parse(input_string=case["master"])
    for st in case["steps"][:upto]:
        if "adopt_scope" in st:
            d.adopt_scope(freephil.parse(input_string=st["adopt_scope"]))
    return d


def editable(w, at=()):
    """objects of a fetch result that the stream edits in place: (index path, parent scope, object).  The CONTENT of a
    template copy (is_template != 0: the master's declaration of a .multiple scope carried along verbatim) is left alone,
    the template object itself is editable: scope.copy() is shallow, so on the unchanged library the objects inside a
    template ARE the master's objects (reported as a finding on the unchanged tree, see seeded/C04-7/NOTES.txt; results
    holding such content are counted as edited_template_content_left_alone)."""
    out = []
    for k, c in enumerate(w.objects):
        out.append((at + (k,), w, c))
        if c.is_scope and c.is_template == 0:
            out.extend(editable(c, at + (k,)))
    return out


EDIT_TEXT_ATTRS = ("help", "caption", "short_caption")


def draw_edit(rng, w, serial):
    """one in-place edit of an object of the result w (drawn over the CURRENT state of w), or None"""
    cands = editable(w)
    if not cands:
        return None
    at, _parent, c = rng.choice(cands)
    kind = rng.choice(["disable", "disable", "expert_level", "expert_level", "text", "rename", "delete"])
    op = {"at": list(at), "object": c.name}
    if kind == "disable":
        op.update(op="set", attr="is_disabled", value=True)
    elif kind == "expert_level":
        op.update(op="set", attr="expert_level", value=rng.choice([v for v in (0, 1, 2, 3, 4) if v != c.expert_level]))
    elif kind == "text":
        op.update(op="set", attr=rng.choice(EDIT_TEXT_ATTRS), value="edited in the working copy %d" % serial)
    elif kind == "rename":
        op.update(op="set", attr="name", value="zz_edited_%d" % serial)
    else:
        op.update(op="delete")
    return op


def apply_edit(w, op):
    parent = w
    for k in op["at"][:-1]:
        parent = parent.objects[k]
    if op["op"] == "delete":
        del parent.objects[op["at"][-1]]
    else:
        setattr(parent.objects[op["at"][-1]], op["attr"], op["value"])


def play(case, upto=None):
    """run a master life-cycle case on the implementation: parse the master, then fetch / extend it in place / edit the
    last fetch result in place, step by step; returns (master object, result of the last fetch step or the exception it
    raised)"""
    m = freephil.parse(input_string=case["master"])
    w = None
    for st in case["steps"][:upto]:
        if "adopt_scope" in st:
            m.adopt_scope(freephil.parse(input_string=st["adopt_scope"]))
        elif "edit_result" in st:
            if w is not None and not isinstance(w, BaseException):
                for op in st["edit_result"]:
                    apply_edit(w, op)
                w.as_str(attributes_level=2)
        else:
            ss = [freephil.parse(input_string=s) for s in st["fetch"]]
            if st.get("first_source_is_the_previous_result_object") and w is not None and not isinstance(w, BaseException):
                ss[0] = w       # the application hands its working parameters back as they are, not re-parsed
            try:
                w = m.fetch(sources=ss)
            except BaseException as e:
                if isinstance(e, (KeyboardInterrupt, MemoryError)):
                    raise
                w = e
    return m, w


def edited_results(ctx, n):
    """Fetch results EDITED IN PLACE between fetches against the same master object.  A fetch result is the application's
    working copy: it switches entries off (is_disabled, written with '!'), changes expert levels / help texts for display,
    renames or deletes entries.  The statement quantifies over every fetch against a master, whatever happened to earlier
    results: the next fetch (fresh sources, or the edited working copy handed back) must have the shape the master
    DECLARES - judged against an independent parse of the master text, which shares no object with any result - and, the
    model being history-free, must agree with the model's answer on the master text."""
    import mgen
    rng = ctx.rng
    cases, reqs, impls = [], [], []
    for i in range(n):
        if ctx.time_left() < 30:
            ctx.notes.append("edited-result stream stopped early on time budget")
            break
        g = mgen.MasterGen(rng, depth=rng.choice([0, 1, 1, 2, 2, 3]), nested_multiples=(i % 3 == 2), deprecated=True)
        tree = g.tree()
        mt = mgen.render_master(tree)
        m = freephil.parse(input_string=mt)
        steps = []
        w = None
        for rnd in range(rng.choice([2, 2, 3])):
            if rnd > 0:
                # the application edits its working copy (the previous result) in place
                ops = []
                if any(c.is_scope and c.is_template != 0 and c.objects for _at, _p, c in editable(w)):
                    ctx.count("edited_template_content_left_alone")
                for _ in range(rng.choice([1, 2, 2, 3, 5])):
                    op = draw_edit(rng, w, len(ops))
                    if op is None:
                        break
                    apply_edit(w, op)
                    ops.append(op)
                    ctx.count("edit_%s" % (op.get("attr") or op["op"]))
                if not ops:
                    ctx.count("edit_nothing_to_edit")
                    break
                try:
                    w.as_str(attributes_level=2)        # ... and writes it out
                except BaseException as e:
                    if isinstance(e, (KeyboardInterrupt, MemoryError)):
                        raise
                steps.append({"edit_result": ops})
            srcs = [mgen.SourceGen(rng).text(tree) for _ in range(rng.choice([0, 0, 1, 1, 2]))]
            steps.append({"fetch": srcs})
            case = {"master": mt, "steps": [dict(s_) for s_ in steps]}
            ss = [freephil.parse(input_string=s_) for s_ in srcs]
            ctx.case((mt, repr(steps)), nontrivial=rnd > 0)
            ctx.count("edited_fetch_round_%d" % rnd)
            ia = _fetch.fetch_impl(m, ss)
            ctx.count("edited_outcome_" + (ia[0] if ia[0] == "ok" else ia[1] if ia[1] == "sorry" else "%s_%s" % (ia[1], ia[2])))
            f = None
            prev_w, w = w, None
            if ia[0] == "ok":
                w = m.fetch(sources=ss)
                f = shape(freephil.parse(input_string=mt), w)
                if f is None and prev_w is not None and rng.random() < 0.5:
                    # the edited working copy handed back as the first source, as the object it is
                    ctx.count("edited_result_handed_back")
                    try:
                        f = shape(freephil.parse(input_string=mt), m.fetch(sources=[prev_w] + ss))
                    except (RuntimeError, freephil.Sorry):
                        ctx.count("edited_result_handed_back_refused")
                    except BaseException as e:
                        if isinstance(e, (KeyboardInterrupt, MemoryError)):
                            raise
                        f = "fetch raised %s: %s" % (type(e).__name__, e)
                    if f:
                        case = dict(case)
                        case["steps"] = case["steps"][:-1] + [{"fetch": [""] + srcs,      # [0]: placeholder, see play()
                                                               "first_source_is_the_previous_result_object": True}]
            elif ia[1] == "stray":
                f = "fetch raised %s: %s" % (ia[2], ia[3])
            if f and rnd > 0:
                ctx.count("edited_failure_after_edit")
            cases.append((case, f))
            reqs.append(_fetch.fetch_req(mt, srcs))
            impls.append(ia)
            if i % 100 == 0 and rnd > 0:
                ctx.sample(case)
            if w is None or f:
                break
    answers = [None] * len(reqs)
    if reqs and ctx.mode != "impl-only":
        from common import run_model, same_outcome
        answers = run_model(reqs)
        for (case, _f), a, i in zip(cases, answers, impls):
            if a and i and a[0] == "ok" and i[0] == "ok":
                ok = same_outcome(["ok", skeleton(a[1][0])], ["ok", skeleton(i[1][0])])
            else:
                ok = same_outcome(a, i)
            ctx.traces += 1
            if ok is None:
                ctx.unsupported += 1
            elif not ok:
                ctx.disagree("fetch-after-in-place-edit-of-a-result", case, a, i)
    for (case, f), a, i in zip(cases, answers, impls):
        if f:
            mv = None if (a is None or a[0] in ("unsupported", "parse-failed")) else (a[:3] == i[:3])
            ctx.fail(case, f, finding=None, model_violates=mv)


def life_cycles(ctx, n):
    """Masters that are extended IN PLACE between fetches (fetch, master.adopt_scope(plug-in), fetch again on the same
    master object; one or two rounds).  The statement quantifies over every well-formed master, however it was built, and
    over every fetch against it: after each step the result must have the structure the master declares at that moment.
    The model is history-free, so each fetch is also compared with the model's answer on the TEXT of the extended master."""
    import mgen
    rng = ctx.rng
    cases, reqs, impls = [], [], []
    for i in range(n):
        if ctx.time_left() < 30:
            ctx.notes.append("life-cycle stream stopped early on time budget")
            break
        g = mgen.MasterGen(rng, depth=rng.choice([1, 1, 2, 2, 3]), nested_multiples=(i % 3 == 2), deprecated=True, reopen=False)
        tree = g.tree()
        mt = mgen.render_master(tree)
        mt_now = mt
        m = freephil.parse(input_string=mt)
        steps = []
        prev = None         # text of the previous fetch result (the application's working parameters)
        prev_obj = None
        rounds = rng.choice([1, 1, 2])
        for rnd in range(rounds + 1):
            if rnd > 0:
                tree, ext, tags = g.extension(tree)
                if not ext:
                    ctx.count("life_no_extension_drawn")
                    break
                m.adopt_scope(freephil.parse(input_string=ext))
                steps.append({"adopt_scope": ext})
                mt_now = mgen.render_master(tree)
                if structure(m) != structure(freephil.parse(input_string=mt_now)):
                    # the extended master is not the master the generator meant to build (not C04's business): no verdict
                    ctx.count("life_extension_not_as_written")
                    break
                for t in set(tags):
                    ctx.count("life_ext_" + t)
            srcs = [mgen.SourceGen(rng).text(tree) for _ in range(rng.choice([0, 1, 1, 2]))]
            with_prev = prev is not None and rng.random() < 0.6
            if with_prev:
                srcs = [prev] + srcs
            steps.append({"fetch": srcs})
            case = {"master": mt, "steps": [dict(s_) for s_ in steps], "master_text_now": mt_now}
            ss = [freephil.parse(input_string=s_) for s_ in srcs]
            ctx.case((mt, repr(steps)), nontrivial=rnd > 0)
            ctx.count("life_fetch_round_%d" % rnd)
            ia = _fetch.fetch_impl(m, ss)
            ctx.count("life_outcome_" + (ia[0] if ia[0] == "ok" else ia[1] if ia[1] == "sorry" else "%s_%s" % (ia[1], ia[2])))
            f = None
            if ia[0] == "ok":
                w = m.fetch(sources=ss)
                f = shape(m, w)
                if f is None and with_prev and prev_obj is not None:
                    try:
                        f = shape(m, m.fetch(sources=[prev_obj] + ss[1:]))
                    except (RuntimeError, freephil.Sorry):
                        pass        # a refusal (e.g. an old value that the re-declared parameter does not accept)
                    except BaseException as e:
                        if isinstance(e, (KeyboardInterrupt, MemoryError)):
                            raise
                        f = "fetch raised %s: %s" % (type(e).__name__, e)
                    if f:
                        case = dict(case)
                        case["steps"] = case["steps"][:-1] + [{"fetch": srcs, "first_source_is_the_previous_result_object": True}]
                try:
                    prev, prev_obj = w.as_str(), w
                    freephil.parse(input_string=prev)
                except BaseException:
                    prev = prev_obj = None
            else:
                prev = prev_obj = None
                if ia[1] == "stray":
                    f = "fetch raised %s: %s" % (ia[2], ia[3])
            cases.append((case, f))
            reqs.append(_fetch.fetch_req(mt_now, srcs))
            impls.append(ia)
            if i % 100 == 0 and rnd > 0:
                ctx.sample(case)
    answers = [None] * len(reqs)
    if reqs and ctx.mode != "impl-only":
        from common import run_model, same_outcome

        def cmp(a, i, extended):
            if a and i and a[0] == "ok" and i[0] == "ok":
                return same_outcome(["ok", skeleton(a[1][0])], ["ok", skeleton(i[1][0])])
            if extended and a and i and a[0] == i[0] == "err" and a[1] == i[1] == "runtime":
                # objects adopted from a plug-in keep the plug-in's line numbers, the model reads the extended master as
                # one text: positions inside the master are not comparable (refusals citing a source line are: same texts)
                return a[2] == i[2]
            return same_outcome(a, i)
        answers = run_model(reqs)
        for (case, _f), a, i in zip(cases, answers, impls):
            ok = cmp(a, i, any("adopt_scope" in st for st in case["steps"]))
            ctx.traces += 1
            if ok is None:
                ctx.unsupported += 1
            elif not ok:
                ctx.disagree("fetch-after-in-place-extension", case, a, i)
    for (case, f), a, i in zip(cases, answers, impls):
        if f:
            mv = None if (a is None or a[0] in ("unsupported", "parse-failed")) else (a[:3] == i[:3])
            ctx.fail(case, f, finding=None, model_violates=mv)


def run(ctx):
    rng = ctx.rng
    n = ctx.scale(2000, 40000, 8000)
    cases, reqs, impls = [], [], []
    for i in range(n):
        if ctx.time_left() < 30:
            ctx.notes.append("stopped early on time budget")
            break
        nested = i % 4 == 3
        tree, mt, srcs = _fetch.gen(rng, nested=nested, deprecated=True)
        m = freephil.parse(input_string=mt)
        ss = [freephil.parse(input_string=s) for s in srcs]
        ctx.case((mt, tuple(srcs)), nontrivial=any("=" in s for s in srcs))
        ctx.count("nested_multiples" if _fetch.has_nested_multiple(tree) else "plain")
        ia = _fetch.fetch_impl(m, ss)
        ctx.count("outcome_" + (ia[0] if ia[0] == "ok" else str(ia[1:3])))
        f = None
        cls = None
        if ia[0] == "ok":
            w = m.fetch(sources=ss)
            f = shape(m, w)
            if f is None:
                w2 = m.fetch(sources=[strip_disabled(s) for s in ss])
                if w.as_str(attributes_level=3) != w2.as_str(attributes_level=3):
                    f = "disabled source objects influence the result"
            if f is None:
                # ... and so are disabled master objects (commented-out example instances, switched-off parameters)
                try:
                    w3 = strip_disabled(m).fetch(sources=ss)
                    if strip_disabled(w).as_str(attributes_level=3) != strip_disabled(w3).as_str(attributes_level=3):
                        f = "disabled master objects influence the result"
                except BaseException as e:
                    f = "fetch against the master without its disabled objects raised %s" % type(e).__name__
        elif ia[1] == "stray":
            f = "fetch raised %s: %s" % (ia[2], ia[3])
        if f and _fetch.has_nested_further(tree):
            cls = "D9"
        case = {"master": mt, "sources": srcs}
        if f:
            cases.append((case, f, cls))
        else:
            cases.append((case, None, None))
        reqs.append(_fetch.fetch_req(mt, srcs))
        impls.append(ia)
        if i % 120 == 0:
            ctx.sample({"master": mt, "sources": srcs})
    answers = [None] * len(reqs)
    if reqs and ctx.mode != "impl-only":
        answers = ctx.corr("fetch", [c[0] for c in cases], reqs, impls, proj=lambda r: skeleton(r[0]))
    for (case, f, cls), a, i in zip(cases, answers, impls):
        if f:
            mv = None if (a is None or a[0] in ("unsupported", "parse-failed")) else (a[:3] == i[:3])
            ctx.fail(case, f, finding=cls, model_violates=mv)
    life_cycles(ctx, ctx.scale(500, 8000, 600))
    edited_results(ctx, ctx.scale(400, 6000, 500))


def _life_fails(case):
    try:
        m, w = play(case)
    except BaseException:
        return False
    if isinstance(w, BaseException):
        return not isinstance(w, (RuntimeError, freephil.Sorry))
    return w is not None and shape(declared_master(case), w) is not None


def shrink(f):
    """life-cycle cases only: drop whole sources and later rounds while the last fetch still fails"""
    case = f["case"]
    if "steps" not in case or not _life_fails(case):
        return None
    import copy
    best = copy.deepcopy(case)
    changed = True
    while changed:
        changed = False
        for si, st in enumerate(best["steps"]):
            if "fetch" not in st:
                continue
            for k in range(len(st["fetch"])):
                if k == 0 and st.get("first_source_is_the_previous_result_object"):
                    continue
                trial = copy.deepcopy(best)
                del trial["steps"][si]["fetch"][k]
                if _life_fails(trial):
                    best, changed = trial, True
                    break
            if changed:
                break
    # the shortest history that still fails (an earlier fetch may have had no verdict only because a source was refused)
    for k in range(1, len(best["steps"])):
        if "fetch" in best["steps"][k - 1]:
            trial = dict(best, steps=best["steps"][:k])
            if _life_fails(trial):
                best = trial
                break
    m, w = play(best)
    what = ("fetch raised %s: %s" % (type(w).__name__, w)) if isinstance(w, BaseException) else shape(declared_master(best), w)
    best.pop("master_text_now", None)
    return dict(f, case=best, what=what, original_what=f["what"])


def finding_still_fails(f):
    w = f["witness"]
    try:
        freephil.parse(input_string=w["master"]).fetch()
    except TypeError:
        return True
    except BaseException:
        return False
    return False


def replay(payload):
    c = payload["failure"]["case"]
    if "steps" in c:
        m, w = play(c)
        if isinstance(w, BaseException):
            print(type(w).__name__, w)
            return type(w) is RuntimeError
        r = shape(declared_master(c), w)
        print(r)
        return r is None
    m = freephil.parse(input_string=c["master"])
    ss = [freephil.parse(input_string=s) for s in c["sources"]]
    try:
        w = m.fetch(sources=ss)
    except BaseException as e:
        print(type(e).__name__, e)
        return type(e) is RuntimeError
    r = shape(m, w)
    print(r)
    return r is None
