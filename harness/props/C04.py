"""C04 — a fetch result has exactly the master's parameter structure."""
from common import freephil, enc, attr_j
from props import _fetch

LEVEL = "proof"
MODULE = "Phil.Props.C04"
LEVEL_TEXT = "Lean theorems about the merge model: for every master and every source list every object at every depth of a fetch result is a copy of an enabled master object with the master's name, kind and attributes, in the master's order, non-multiple names exactly once, disabled sources without influence (fetch_shape, fetch_conforms, fetch_order, fetch_ignores_disabled); closed forms: on nested masters without .multiple (fetch_tree_total: tree_result_shape/paths), with .multiple definitions (fetch_tree_multi_total) and with .multiple scopes nested to any depth, optional or mandatory (fetch_ms_total: ms_result_blocks, ms_block_members, ms_plain_exactly_once, ms_result_paths). Tied to /repo by a correspondence run of fetch (result skeleton) over generated masters x 0-3 sources; the oracle walks the implementation's result against the master as the statement says, incl. stateful use (fetch, in-place adopt_scope, fetch again)."
LEVEL_NOTE = "Closed forms exclude further master occurrences of one name, choices and deprecated definitions (covered by the general shape theorems + correspondence). Aliases (.alias) are not modelled; known finding: alias fall-through (pinned by the suite's test_alias_bug)."
TECHNIQUE = 'Lean 4 shape theorems + closed form of fetch (incl. .multiple scopes) + differential correspondence + tree-walk oracle'
RULE = ("masters (depth <= 3, every built-in type, .multiple/.optional combinations incl. multiples nested in multiple scopes, "
        "disabled objects, expert levels, non-canonical defaults, further occurrences) x 0-3 sources (matching, partial, unknown "
        "names, repeated, disabled, dotted or nested); non-trivial = at least one source sets a parameter")
ASSUMPTIONS = ["masters have unique sibling names apart from further occurrences of .multiple objects"]


def declared_deprecated(mo):
    """what the master text says, whatever object the parser stored for it"""
    v = mo.deprecated
    if isinstance(v, str):
        return v.strip().lower() in ("true", "yes", "on", "1")
    return bool(v)


def shape(ms, ws, path=""):
    """result scope ws against master scope ms; None or description"""
    actives = []
    seen = set()
    for c in ms.objects:
        if c.is_disabled or c.name in seen:
            continue
        seen.add(c.name)
        actives.append(c)
    i = 0
    # disabled master objects may be carried along verbatim inside template copies; they are inert
    dis_names = {c.name for c in ms.objects if c.is_disabled}
    kids = []
    for c in ws.objects:
        if c.is_disabled:
            if c.name not in dis_names:
                return "%s: disabled object %r in the result is not a disabled master object" % (path or "<root>", c.name)
            continue
        kids.append(c)
    for mo in actives:
        group = []
        while i < len(kids) and kids[i].name == mo.name:
            group.append(kids[i])
            i += 1
        p = path + mo.name
        if mo.is_definition and declared_deprecated(mo):
            if len(group) > 1:
                return "%s: deprecated parameter occurs %d times" % (p, len(group))
        elif not mo.multiple:
            if len(group) != 1:
                return "%s: occurs %d times in the result (master declares it once)" % (p, len(group))
        elif len(group) < 1:
            return "%s: multiple parameter missing from the result" % p
        for g in group:
            if g.is_definition != mo.is_definition:
                return "%s: kind changed" % p
            ga = [attr_j(getattr(g, a)) for a in g.attribute_names]
            ma = [attr_j(getattr(mo, a)) for a in mo.attribute_names]
            if ga != ma:
                return "%s: attributes %r differ from the master's %r" % (p, ga, ma)
            if g.is_disabled:
                return "%s: disabled object in the result" % p
            if not mo.is_definition:
                if g.is_template != 0:
                    # a template is the master's own declaration carried along verbatim
                    if [c.as_str(attributes_level=3) for c in g.objects] != [c.as_str(attributes_level=3) for c in mo.objects]:
                        return "%s: template copy differs from the master's declaration" % p
                    continue
                r = shape(mo, g, p + ".")
                if r:
                    return r
    if i != len(kids):
        return "%s: result contains %r which the master does not declare here (or out of order)" % (path or "<root>", kids[i].name)
    return None


def skeleton(t):
    """names, kinds, disabled flags and attributes of a canonical tree (no words, ids, lines, template flags)"""
    kind, name, _id, dis, _line, _merge, _tmpl, attrs, body = t
    if kind == "d":
        return [kind, name, dis, attrs]
    kids = []
    for c in body:
        k = skeleton(c)
        if not kids or kids[-1] != k:   # the number of instances of a .multiple object is not part of the shape
            kids.append(k)
    return [kind, name, dis, attrs, kids]


def strip_disabled(o):
    objs = []
    for c in o.objects:
        if c.is_disabled:
            continue
        objs.append(c if c.is_definition else strip_disabled(c))
    return o.customized_copy(objects=objs)


def run(ctx):
    rng = ctx.rng
    n = ctx.scale(2000, 40000, 8000)
    cases, reqs, impls = [], [], []
    for i in range(n):
        if ctx.time_left() < 30:
            ctx.notes.append("stopped early on time budget")
            break
        nested = i % 4 == 3
        tree, mt, srcs = _fetch.gen(rng, nested=nested, deprecated=True)
        m = freephil.parse(input_string=mt)
        ss = [freephil.parse(input_string=s) for s in srcs]
        ctx.case((mt, tuple(srcs)), nontrivial=any("=" in s for s in srcs))
        ctx.count("nested_multiples" if _fetch.has_nested_multiple(tree) else "plain")
        ia = _fetch.fetch_impl(m, ss)
        ctx.count("outcome_" + (ia[0] if ia[0] == "ok" else str(ia[1:3])))
        f = None
        cls = None
        if ia[0] == "ok":
            w = m.fetch(sources=ss)
            f = shape(m, w)
            if f is None:
                w2 = m.fetch(sources=[strip_disabled(s) for s in ss])
                if w.as_str(attributes_level=3) != w2.as_str(attributes_level=3):
                    f = "disabled source objects influence the result"
            if f is None:
                # ... and so are disabled master objects (commented-out example instances, switched-off parameters)
                try:
                    w3 = strip_disabled(m).fetch(sources=ss)
                    if strip_disabled(w).as_str(attributes_level=3) != strip_disabled(w3).as_str(attributes_level=3):
                        f = "disabled master objects influence the result"
                except BaseException as e:
                    f = "fetch against the master without its disabled objects raised %s" % type(e).__name__
        elif ia[1] == "stray":
            f = "fetch raised %s: %s" % (ia[2], ia[3])
        if f and _fetch.has_nested_further(tree):
            cls = "D9"
        case = {"master": mt, "sources": srcs}
        if f:
            cases.append((case, f, cls))
        else:
            cases.append((case, None, None))
        reqs.append(_fetch.fetch_req(mt, srcs))
        impls.append(ia)
        if i % 120 == 0:
            ctx.sample({"master": mt, "sources": srcs})
    answers = [None] * len(reqs)
    if reqs and ctx.mode != "impl-only":
        answers = ctx.corr("fetch", [c[0] for c in cases], reqs, impls, proj=lambda r: skeleton(r[0]))
    for (case, f, cls), a, i in zip(cases, answers, impls):
        if f:
            mv = None if (a is None or a[0] in ("unsupported", "parse-failed")) else (a[:3] == i[:3])
            ctx.fail(case, f, finding=cls, model_violates=mv)


def finding_still_fails(f):
    w = f["witness"]
    try:
        freephil.parse(input_string=w["master"]).fetch()
    except TypeError:
        return True
    except BaseException:
        return False
    return False


def replay(payload):
    c = payload["failure"]["case"]
    m = freephil.parse(input_string=c["master"])
    ss = [freephil.parse(input_string=s) for s in c["sources"]]
    try:
        w = m.fetch(sources=ss)
    except BaseException as e:
        print(type(e).__name__, e)
        return type(e) is RuntimeError
    r = shape(m, w)
    print(r)
    return r is None
